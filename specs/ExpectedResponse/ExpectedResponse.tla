------------------------- MODULE ExpectedResponse -------------------------
(***************************************************************************)
(* C12 - a reply completes exactly the requests it answers; a timeout is a *)
(* timeout.                                                                *)
(*                                                                         *)
(* Mirrors src/aioslsk/network/network.py (ExpectedResponse.matches,       *)
(* create_*_response_future, register_response_future, wait_for_server_/   *)
(* wait_for_peer_message, on_message_received, _remove_response_future),   *)
(* SoulSeekClient.execute (client.py) and the reader loop of               *)
(* DataConnection (_message_reader_loop / _perform_message_callback).      *)
(*                                                                         *)
(* The asyncio ready queue is part of the model (DESIGN appendix A):       *)
(* `ready` is the FIFO of handles of BaseEventLoop._run_once.  The         *)
(* environment (other tasks, the network, the clock) acts from one handle, *)
(* "D", which is the last handle of every loop iteration - exactly what    *)
(* the harness driver is (a zero-delay timer), so every behaviour of this  *)
(* spec is a schedule the real loop produces.  Stimuli of the environment: *)
(* start a caller, feed a batch of frames into a connection, cancel a      *)
(* caller's task, let a caller's timeout expire.                           *)
(*                                                                         *)
(* The variables come in two layers.  The MECHANISM layer (ready, buf,     *)
(* lst, wst, ...) transcribes the code.  The OBSERVATION layer (hist,      *)
(* regAt, cspec, out, stim, resid, broken, quiet) is what can be seen at   *)
(* the public surfaces named by the property; every property below is      *)
(* stated over the observation layer only, so the same formulas judge the  *)
(* design model here and recorded executions in ExpectedResponseTrace.     *)
(*                                                                         *)
(* Switches (TRUE = repaired design, FALSE = what the code did when it was *)
(* first checked, F12-1..5; fixes/C12-*.diff):                             *)
(*   SkipDoneFutures      on_message_received completes only waiters that  *)
(*                        are not done                            (F12-2)  *)
(*   GuardSetException    wait_for_* does not set_exception on its own     *)
(*                        cancelled future                        (F12-1)  *)
(*   AllFieldMatchers     matches() goes on after a predicate     (F12-3)  *)
(*   TicketBeforeRegister a command whose matcher value is produced by     *)
(*                        send() has it when the waiter is built  (F12-4)  *)
(*   ReleaseWhenSendCancelled execute() also releases its waiter when it is *)
(*                        cancelled while command.send() runs       (F12-5) *)
(*   LiveListAtCompletion the completion loop walks the waiter list as it  *)
(*                        is AFTER the handlers / listeners of the message *)
(*                        ran (they may suspend), testing done() there;    *)
(*                        FALSE: the not-done waiters are collected when   *)
(*                        the message comes in, before its handlers run    *)
(*                        (not the pinned code: a design that was tried    *)
(*                        against the check, seeded change C12-b2)         *)
(*   TimeoutForwarded     wait_for_peer_message waits as long as its caller *)
(*                        asked; FALSE: always the library's 10 s (a design *)
(*                        tried against the check, seeded change C12-c3)    *)
(*   RegisterAfterSend    the transfer negotiation (request_place_in_queue) *)
(*                        creates its waiter after the request went out, so *)
(*                        a failed / cancelled send leaves none; FALSE: it  *)
(*                        is created first and not released on those paths  *)
(*                        (seeded change C12-c2)                            *)
(***************************************************************************)
EXTENDS Integers, Sequences, FiniteSets, TLC

CONSTANTS
  Callers,          \* 1..N; callers are started in increasing order
  Specs,            \* set of waiter specs [conn, cls, m1, m2, late, ex] the environment chooses from
                    \*   (late: m1 is a value that command.send() produces; ex: a command exists for it)
  Msgs,             \* set of messages [conn, cls, f1, f2] the environment chooses from
  Apis,             \* subset of {"wait", "fut", "exec", "place"}  ("place": TransferManager.request_place_in_queue,
                    \*   the library's own request/reply negotiation: send, then create_peer_response_future + timeout)
  Timeouts,         \* subset of {"short", "long"}: the timeout the caller asks for, below / above the library's
                    \*   built-in 10 s
  MaxElapse,        \* number of times the clock is moved to just BEFORE a caller's deadline
  MaxFeeds,         \* total number of messages fed
  MaxBatch,         \* frames per write (handled back-to-back by one reader step)
  MaxCancel, MaxDue, MaxSendFail,
  MaxSlow,          \* messages whose handling suspends in a listener of MessageReceivedEvent
  SendHops,         \* loop slots execute() spends in command.send() (gather + drain: 4)
  SkipDoneFutures, GuardSetException, AllFieldMatchers, TicketBeforeRegister, LiveListAtCompletion,
  ReleaseWhenSendCancelled, TimeoutForwarded, RegisterAfterSend

\* ---------------------------------------------------------------------------
\* Matching, transcribed from the property statement: expected type, expected
\* server/peer, ALL expected field values (literal or predicate).
\* Field values are 1..2; matchers: "any", literals "v1"/"v2", predicates "p1"/"p2"
\* (pK holds iff the value is K), "never" (a value no message carries).

Lit(x, v)  == (x = "v1" /\ v = 1) \/ (x = "v2" /\ v = 2)
IsPred(x)  == x \in {"p1", "p2"}
Pred(x, v) == (x = "p1" /\ v = 1) \/ (x = "p2" /\ v = 2)
FieldOK(x, v) == x = "any" \/ Lit(x, v) \/ Pred(x, v)

Match(s, m) ==
  /\ m.conn = s.conn
  /\ m.cls = s.cls
  /\ FieldOK(s.m1, m.f1)
  /\ FieldOK(s.m2, m.f2)

\* network.py:118-141 as written: the first callable matcher returns its verdict.
OneField(x, v) == IF x = "any" THEN TRUE ELSE IF IsPred(x) THEN Pred(x, v) ELSE Lit(x, v)
MatchImpl(s, m) ==
  IF AllFieldMatchers THEN Match(s, m)
  ELSE /\ m.conn = s.conn
       /\ m.cls = s.cls
       /\ IF IsPred(s.m1) THEN Pred(s.m1, m.f1)
          ELSE OneField(s.m1, m.f1) /\ OneField(s.m2, m.f2)

\* ---------------------------------------------------------------------------
VARIABLES
  \* mechanism
  ready,     \* FIFO of handles
  dueNow,    \* timers made due in this iteration (appended in front of D at the boundary)
  buf,       \* per connection: frames fed and not yet read
  rsched,    \* per connection: the reader's wake-up is already in ready
  lst,       \* Network._expected_response_futures: ordered list of waiter ids (= caller ids)
  wst,       \* waiter status: "none" | "pending" | "result" | "cancelled"
  wres,      \* waiter result: index into hist
  wspec,     \* the matcher the waiter was built with
  cpc,       \* caller: "idle" | "spawned" | "sending" | "cancelling" | "waiting" | "done"
  creq,      \* number of task.cancel() requests not yet delivered/accounted
  mustc,     \* Task._must_cancel
  expiring,  \* the caller's timeout fired (asyncio.Timeout state EXPIRING)
  armed,     \* the caller is inside its timeout context, timer pending
  sfail,     \* the caller's send() is going to fail
  dead,      \* connections closed by a failed send (DataConnection._send -> disconnect(WRITE_ERROR))
  susp,      \* per connection: <<>>, or <<[m, idx, snap, rel]>>: the reader is suspended inside
             \*   on_message_received for message m (= hist[idx]), in a listener that waits to be released;
             \*   snap: the waiters that were not done when m came in; rel: the release is on its way
  el,        \* per caller: the clock has been moved to just before its deadline
  nfed, ncancel, ndue, nsf, nslow, nel,
  \* observation
  hist,      \* messages in the order the client started handling them
  fin,       \* indexes in hist of the messages whose handling is finished (waiters completed)
  mayAt,     \* per caller: 0, or index in hist of the first message that came in after it entered the call
  regAt,     \* per caller: 0, or index in hist of the first message that came in after it asked (= mayAt, except
             \*   for the negotiation, whose request is made once its request message went out)
  infl,      \* per caller: the messages that were being handled (come in, not finished) when it asked
  cspec,     \* per caller: what it asked for [conn, cls, m1, m2, api, late]
  out,       \* per caller: [kind |-> "none" | "result" | "exc", j |-> index in hist, exc |-> class name]
  outN,      \* per caller: number of outcomes seen
  stim,      \* per caller: subset of {"due", "cancel", "sendfail"} given so far
  resid,     \* done waiters still registered, as last observed at a quiescent moment
  regn,      \* waiters registered beyond (> 0) / short of (< 0) the requests still waiting, as last observed at
             \*   a quiescent moment
  broken,    \* number of messages whose handling raised ("error during callback")
  quiet      \* this state is a quiescent observation point

mech == <<ready, dueNow, buf, rsched, lst, wst, wres, wspec, cpc, creq, mustc, expiring, armed, sfail, dead, susp, el,
          nfed, ncancel, ndue, nsf, nslow, nel>>
obs  == <<hist, fin, mayAt, regAt, infl, cspec, out, outN, stim, resid, regn, broken, quiet>>
vars == <<mech, obs>>

Conns == {"S", "P1", "P2"}
D == [k |-> "D"]
NoSpec == [conn |-> "S", cls |-> "A", m1 |-> "any", m2 |-> "any", api |-> "none", late |-> FALSE, tm |-> "short"]
NoOut == [kind |-> "none", j |-> 0, exc |-> ""]

\* ---------------------------------------------------------------------------
\* Observation-layer updates.  The trace spec re-uses exactly these.

ObsInit ==
  /\ hist = <<>>
  /\ fin = {}
  /\ mayAt = [c \in Callers |-> 0]
  /\ regAt = [c \in Callers |-> 0]
  /\ infl = [c \in Callers |-> {}]
  /\ cspec = [c \in Callers |-> NoSpec]
  /\ out = [c \in Callers |-> NoOut]
  /\ outN = [c \in Callers |-> 0]
  /\ stim = [c \in Callers |-> {}]
  /\ resid = 0
  /\ regn = 0
  /\ broken = 0
  /\ quiet = FALSE

\* caller c enters the call (wait_for_* / create_* / execute / request_place_in_queue); unless
\* `deferred`, that is also the moment its request is made
ObsAsk(c, s, fails, deferred) ==
  /\ mayAt[c] = 0
  /\ mayAt' = [mayAt EXCEPT ![c] = Len(hist) + 1]
  /\ regAt' = [regAt EXCEPT ![c] = IF deferred THEN 0 ELSE Len(hist) + 1]
  /\ infl' = [infl EXCEPT ![c] = (1..Len(hist)) \ fin]
  /\ cspec' = [cspec EXCEPT ![c] = s]
  /\ stim' = [stim EXCEPT ![c] = IF fails THEN @ \cup {"sendfail"} ELSE @]
  /\ quiet' = FALSE
  /\ UNCHANGED <<hist, fin, out, outN, resid, regn, broken>>

\* the request message of a negotiation is out: from now on a reply must reach it
ObsSent(c) ==
  /\ mayAt[c] > 0 /\ regAt[c] = 0
  /\ regAt' = [regAt EXCEPT ![c] = Len(hist) + 1]
  /\ quiet' = FALSE
  /\ UNCHANGED <<hist, fin, mayAt, infl, cspec, out, outN, stim, resid, regn, broken>>

\* messages ms came in (their handlers / listeners start, in order); the handling of the messages
\* with indexes js finished (their waiters were completed); nerr of those raised
ObsHandled(ms, js, nerr) ==
  /\ hist' = hist \o ms
  /\ fin' = fin \cup js
  /\ broken' = broken + nerr
  /\ quiet' = FALSE
  /\ UNCHANGED <<mayAt, regAt, infl, cspec, out, outN, stim, resid, regn>>

ObsOutcome(c, o) ==
  /\ out' = [out EXCEPT ![c] = IF outN[c] = 0 THEN o ELSE @]
  /\ outN' = [outN EXCEPT ![c] = @ + 1]
  /\ quiet' = FALSE
  /\ UNCHANGED <<hist, fin, mayAt, regAt, infl, cspec, stim, resid, regn, broken>>

ObsStim(c, what) ==
  /\ stim' = [stim EXCEPT ![c] = @ \cup {what}]
  /\ quiet' = FALSE
  /\ UNCHANGED <<hist, fin, mayAt, regAt, infl, cspec, out, outN, resid, regn, broken>>

ObsQuiet(ndone, n) ==
  /\ quiet' = TRUE
  /\ resid' = ndone
  /\ regn' = n - Cardinality({c \in Callers : regAt[c] > 0 /\ out[c].kind = "none"})
  /\ UNCHANGED <<hist, fin, mayAt, regAt, infl, cspec, out, outN, stim, broken>>

ObsSame == UNCHANGED <<hist, fin, mayAt, regAt, infl, cspec, out, outN, stim, resid, regn, broken>> /\ quiet' = FALSE

\* ---------------------------------------------------------------------------
Init ==
  /\ ready = <<D>>
  /\ dueNow = <<>>
  /\ buf = [x \in Conns |-> <<>>]
  /\ rsched = [x \in Conns |-> FALSE]
  /\ lst = <<>>
  /\ wst = [c \in Callers |-> "none"]
  /\ wres = [c \in Callers |-> 0]
  /\ wspec = [c \in Callers |-> NoSpec]
  /\ cpc = [c \in Callers |-> "idle"]
  /\ creq = [c \in Callers |-> 0]
  /\ mustc = [c \in Callers |-> FALSE]
  /\ expiring = [c \in Callers |-> FALSE]
  /\ armed = [c \in Callers |-> FALSE]
  /\ sfail = [c \in Callers |-> FALSE]
  /\ dead = {}
  /\ susp = [x \in Conns |-> <<>>]
  /\ el = [c \in Callers |-> FALSE]
  /\ nfed = 0 /\ ncancel = 0 /\ ndue = 0 /\ nsf = 0 /\ nslow = 0 /\ nel = 0
  /\ ObsInit

AtD == Head(ready) = D
\* the driver looks at the list whenever nothing else is ready, before it does anything
MayAct == AtD /\ (Len(ready) > 1 \/ dueNow # <<>> \/ quiet)

NDone == Cardinality({i \in 1..Len(lst) : wst[lst[i]] # "pending"})

\* ----- environment ----------------------------------------------------------

\* asyncio.create_task(caller): its first step is appended to ready
UsesSend(a) == a \in {"exec", "place"}
Reg(c, s, api, fails, tm) ==
  /\ MayAct
  /\ cpc[c] = "idle"
  /\ \A x \in Callers : x < c => cpc[x] # "idle"
  /\ api \in Apis
  /\ tm \in Timeouts
  /\ s.late => (api = "exec" /\ \A x \in Callers : ~cspec[x].late)   \* one ticket-bearing command per run
  /\ api = "exec" => s.ex
  /\ api = "place" => (s.pl /\ tm = CHOOSE t \in Timeouts : TRUE)   \* (its timeout is the library's own)
  /\ UsesSend(api) => \A x \in Callers : ~sfail[x]                   \* a failed send closes the connection
  /\ fails => (UsesSend(api) /\ nsf < MaxSendFail)
  /\ fails => \A x \in Callers :                                     \* (writes fail for the whole connection)
                (cpc[x] \in {"spawned", "sending", "cancelling"}) => cspec[x].conn # s.conn
  /\ cpc' = [cpc EXCEPT ![c] = "spawned"]
  /\ cspec' = [cspec EXCEPT ![c] = [conn |-> s.conn, cls |-> s.cls, m1 |-> s.m1, m2 |-> s.m2,
                                    api |-> api, late |-> s.late, tm |-> tm]]
  /\ sfail' = [sfail EXCEPT ![c] = fails]
  /\ nsf' = IF fails THEN nsf + 1 ELSE nsf
  /\ ready' = Append(ready, [k |-> "first", c |-> c])
  /\ quiet' = FALSE
  /\ UNCHANGED <<dueNow, buf, rsched, lst, wst, wres, wspec, creq, mustc, expiring, armed, dead, susp, el,
                 nfed, ncancel, ndue, nslow, nel,
                 hist, fin, mayAt, regAt, infl, out, outN, stim, resid, regn, broken>>

\* one write of several frames on one connection -> one feed_data handle
\* sl: 0, or the number of the frame whose handling will suspend in a listener
Batches == UNION {[1..n -> Msgs] : n \in 1..MaxBatch}
Feed(b, sl) ==
  /\ MayAct
  /\ nfed + Len(b) <= MaxFeeds
  /\ \A i \in 1..Len(b) : b[i].conn = b[1].conn
  /\ sl \in 0..Len(b)
  /\ sl > 0 => nslow < MaxSlow
  /\ ready' = Append(ready, [k |-> "feed", conn |-> b[1].conn,
                              ms |-> [i \in 1..Len(b) |-> [m |-> b[i], slow |-> (i = sl)]]])
  /\ nfed' = nfed + Len(b)
  /\ nslow' = IF sl > 0 THEN nslow + 1 ELSE nslow
  /\ UNCHANGED <<dueNow, buf, rsched, lst, wst, wres, wspec, cpc, creq, mustc, expiring, armed, sfail, dead, susp, el, ncancel, ndue, nsf, nel>>
  /\ ObsSame

\* the application lets the suspended listener go on (asyncio.Event.set(): the reader task's
\* wake-up goes to the tail of ready)
Release(conn) ==
  /\ MayAct
  /\ susp[conn] # <<>> /\ ~susp[conn][1].rel
  /\ susp' = [susp EXCEPT ![conn] = <<[@[1] EXCEPT !.rel = TRUE]>>]
  /\ ready' = Append(ready, [k |-> "resume", conn |-> conn])
  /\ UNCHANGED <<dueNow, buf, rsched, lst, wst, wres, wspec, cpc, creq, mustc, expiring, armed, sfail, dead, el,
                 nfed, ncancel, ndue, nsf, nslow, nel>>
  /\ ObsSame

\* Task.cancel() (CPython tasks.py): a task waiting for a pending future cancels the future,
\* whose callbacks (remove-from-list first, then the task's wake-up) go to the tail of ready;
\* otherwise the task is flagged and gets CancelledError at its next step.
TaskCancel(c, rdy) ==
  IF cpc[c] = "waiting" /\ wst[c] = "pending"
    THEN /\ wst' = [wst EXCEPT ![c] = "cancelled"]
         /\ ready' = rdy \o <<[k |-> "rm", c |-> c], [k |-> "wake", c |-> c]>>
         /\ creq' = [creq EXCEPT ![c] = @ + 1]
         /\ UNCHANGED <<mustc, cpc>>
  ELSE IF cpc[c] = "waiting"
    THEN /\ mustc' = [mustc EXCEPT ![c] = TRUE]
         /\ creq' = [creq EXCEPT ![c] = @ + 1]
         /\ ready' = rdy
         /\ UNCHANGED <<wst, cpc>>
  ELSE IF cpc[c] = "sending"
    THEN /\ cpc' = [cpc EXCEPT ![c] = "cancelling"]
         /\ creq' = [creq EXCEPT ![c] = @ + 1]
         /\ ready' = rdy
         /\ UNCHANGED <<wst, mustc>>
  ELSE /\ ready' = rdy /\ UNCHANGED <<wst, mustc, cpc, creq>>

Cancel(c) ==
  /\ MayAct
  /\ ncancel < MaxCancel
  /\ cpc[c] \in {"sending", "waiting"}
  /\ "cancel" \notin stim[c]
  /\ TaskCancel(c, ready)
  /\ ncancel' = ncancel + 1
  /\ ObsStim(c, "cancel")
  /\ UNCHANGED <<dueNow, buf, rsched, lst, wres, wspec, expiring, armed, sfail, dead, susp, el, nfed, ndue, nsf, nslow, nel>>

\* how long a caller really waits compared with what it asked for
WaitsShorter(c) == ~TimeoutForwarded /\ cspec[c].api = "wait" /\ cspec[c].conn # "S" /\ cspec[c].tm = "long"
WaitsLonger(c)  == ~TimeoutForwarded /\ cspec[c].api = "wait" /\ cspec[c].conn # "S" /\ cspec[c].tm = "short"

\* the clock passes the deadline the caller asked for: its timer handle enters ready at the next iteration
Due(c) ==
  /\ MayAct
  /\ ndue < MaxDue
  /\ armed[c]
  /\ "due" \notin stim[c]
  /\ \A x \in Callers : cpc[x] \notin {"sending", "cancelling"}   \* (the harness keeps deadlines in planned order)
  /\ dueNow' = IF WaitsLonger(c) THEN dueNow ELSE Append(dueNow, c)
  /\ ndue' = ndue + 1
  /\ ObsStim(c, "due")
  /\ UNCHANGED <<ready, buf, rsched, lst, wst, wres, wspec, cpc, creq, mustc, expiring, armed, sfail, dead, susp, el,
                 nfed, ncancel, nsf, nslow, nel>>

\* the clock is moved to just before the deadline the caller asked for: nothing happens
Elapse(c) ==
  /\ MayAct
  /\ nel < MaxElapse
  /\ armed[c] /\ ~el[c]
  /\ "due" \notin stim[c]
  /\ \A x \in Callers : cpc[x] \notin {"sending", "cancelling"}
  /\ el' = [el EXCEPT ![c] = TRUE]
  /\ nel' = nel + 1
  /\ dueNow' = IF WaitsShorter(c) THEN Append(dueNow, c) ELSE dueNow
  /\ UNCHANGED <<ready, buf, rsched, lst, wst, wres, wspec, cpc, creq, mustc, expiring, armed, sfail, dead, susp,
                 nfed, ncancel, ndue, nsf, nslow>>
  /\ ObsSame

\* nothing but the driver is ready: look at the list (quiescent moment)
Observe ==
  /\ ready = <<D>> /\ dueNow = <<>> /\ ~quiet
  /\ ObsQuiet(NDone, Len(lst))
  /\ UNCHANGED mech

\* end of the iteration: due timers, then the driver again
DStep ==
  /\ AtD
  /\ Len(ready) > 1 \/ dueNow # <<>>
  /\ ready' = Tail(ready) \o [i \in 1..Len(dueNow) |-> [k |-> "tmo", c |-> dueNow[i]]] \o <<D>>
  /\ dueNow' = <<>>
  /\ UNCHANGED <<buf, rsched, lst, wst, wres, wspec, cpc, creq, mustc, expiring, armed, sfail, dead, susp, el, nfed, ncancel, ndue, nsf, nslow, nel>>
  /\ ObsSame

\* ----- the library's handles --------------------------------------------------

\* what the waiter is built with: execute() builds it before send() (client.py:268-272)
BuiltSpec(c) ==
  IF cspec[c].late /\ ~TicketBeforeRegister THEN [cspec[c] EXCEPT !.m1 = "never"] ELSE cspec[c]

Finish(c, o) ==
  /\ cpc' = [cpc EXCEPT ![c] = "done"]
  /\ armed' = [armed EXCEPT ![c] = FALSE]
  /\ ObsOutcome(c, o)

\* the negotiation creates its waiter when its request message is out (transfer/manager.py)
RegistersFirst(c) == cspec[c].api # "place" \/ ~RegisterAfterSend

\* first step of the caller: the waiter is appended to the list, then
\*  wait/fut: timeout armed, await future;  exec: command.send() (SendHops slots);
\*  place: send_peer_messages() (SendHops slots) first, the waiter afterwards
First(c, rest) ==
  /\ cpc[c] = "spawned"
  /\ IF RegistersFirst(c)
       THEN /\ lst' = Append(lst, c)
            /\ wst' = [wst EXCEPT ![c] = "pending"]
            /\ wspec' = [wspec EXCEPT ![c] = BuiltSpec(c)]
       ELSE UNCHANGED <<lst, wst, wspec>>
  /\ IF UsesSend(cspec[c].api)
       THEN /\ cpc' = [cpc EXCEPT ![c] = "sending"]
            /\ ready' = Append(rest, [k |-> "hop", c |-> c, n |-> SendHops - 1])
            /\ UNCHANGED armed
       ELSE /\ cpc' = [cpc EXCEPT ![c] = "waiting"]
            /\ armed' = [armed EXCEPT ![c] = TRUE]
            /\ ready' = rest
  /\ ObsAsk(c, cspec[c], sfail[c], cspec[c].api = "place")
  /\ UNCHANGED <<dueNow, buf, rsched, wres, creq, mustc, expiring, sfail, dead, susp, el, nfed, ncancel, ndue, nsf, nslow, nel>>

\* command.send() / send_peer_messages() in progress / finished (client.py execute, transfer/manager.py)
Hop(c, n, rest) ==
  IF n > 0 THEN
    /\ ready' = Append(rest, [k |-> "hop", c |-> c, n |-> n - 1])
    \* the write fails in the first slot of send(): the connection starts closing at once, nothing
    \* that arrives on it afterwards is handled (connection.py _send / _message_reader_loop)
    /\ dead' = IF sfail[c] /\ n = SendHops - 1 /\ cpc[c] = "sending" THEN dead \cup {cspec[c].conn} ELSE dead
    /\ UNCHANGED <<dueNow, buf, rsched, lst, wst, wres, wspec, cpc, creq, mustc, expiring, armed, sfail, susp, el, nfed, ncancel, ndue, nsf, nslow, nel>>
    /\ ObsSame
  ELSE IF cpc[c] = "cancelling" THEN
    \* CancelledError is not an Exception: execute() leaves its waiter registered unless ReleaseWhenSendCancelled
    /\ IF cspec[c].api = "exec" /\ ReleaseWhenSendCancelled /\ wst[c] = "pending"
         THEN /\ wst' = [wst EXCEPT ![c] = "cancelled"]
              /\ ready' = Append(rest, [k |-> "rm", c |-> c])
         ELSE /\ ready' = rest /\ UNCHANGED wst
    /\ Finish(c, [kind |-> "exc", j |-> 0, exc |-> "CancelledError"])
    /\ UNCHANGED <<dueNow, buf, rsched, lst, wres, wspec, creq, mustc, expiring, sfail, dead, susp, el, nfed, ncancel, ndue, nsf, nslow, nel>>
  ELSE IF sfail[c] THEN                    \* execute(): except Exception: response_future.cancel(); raise
    /\ IF cspec[c].api = "exec" /\ wst[c] = "pending"
         THEN /\ wst' = [wst EXCEPT ![c] = "cancelled"]
              /\ ready' = Append(rest, [k |-> "rm", c |-> c])
         ELSE /\ ready' = rest /\ UNCHANGED wst
    /\ Finish(c, [kind |-> "exc", j |-> 0, exc |-> "SendError"])
    /\ UNCHANGED <<dueNow, buf, rsched, lst, wres, wspec, creq, mustc, expiring, sfail, dead, susp, el, nfed, ncancel, ndue, nsf, nslow, nel>>
  ELSE IF wst[c] = "result" THEN           \* the reply came during send(): await returns at once
    /\ ready' = rest
    /\ cpc' = [cpc EXCEPT ![c] = "done"]
    /\ armed' = [armed EXCEPT ![c] = FALSE]
    /\ out' = [out EXCEPT ![c] = IF outN[c] = 0 THEN [kind |-> "result", j |-> wres[c], exc |-> ""] ELSE @]
    /\ outN' = [outN EXCEPT ![c] = @ + 1]
    /\ regAt' = [regAt EXCEPT ![c] = IF @ = 0 THEN Len(hist) + 1 ELSE @]
    /\ quiet' = FALSE
    /\ UNCHANGED <<hist, fin, mayAt, infl, cspec, stim, resid, regn, broken>>
    /\ UNCHANGED <<dueNow, buf, rsched, lst, wst, wres, wspec, creq, mustc, expiring, sfail, dead, susp, el, nfed, ncancel, ndue, nsf, nslow, nel>>
  ELSE
    /\ ready' = rest
    /\ cpc' = [cpc EXCEPT ![c] = "waiting"]
    /\ armed' = [armed EXCEPT ![c] = TRUE]
    /\ IF wst[c] = "none"                   \* the negotiation: create_peer_response_future now
         THEN /\ lst' = Append(lst, c)
              /\ wst' = [wst EXCEPT ![c] = "pending"]
              /\ wspec' = [wspec EXCEPT ![c] = BuiltSpec(c)]
         ELSE UNCHANGED <<lst, wst, wspec>>
    /\ IF regAt[c] = 0 THEN ObsSent(c) ELSE ObsSame
    /\ UNCHANGED <<dueNow, buf, rsched, wres, creq, mustc, expiring, sfail, dead, susp, el, nfed, ncancel, ndue, nsf, nslow, nel>>

\* StreamReader.feed_data: bytes buffered, the reader task woken once
FeedData(conn, ms, rest) ==
  /\ buf' = [buf EXCEPT ![conn] = @ \o ms]
  /\ IF rsched[conn] THEN ready' = rest /\ UNCHANGED rsched
     ELSE ready' = Append(rest, [k |-> "read", conn |-> conn]) /\ rsched' = [rsched EXCEPT ![conn] = TRUE]
  /\ UNCHANGED <<dueNow, lst, wst, wres, wspec, cpc, creq, mustc, expiring, armed, sfail, dead, susp, el, nfed, ncancel, ndue, nsf, nslow, nel>>
  /\ ObsSame

\* on_message_received, completion loop (network.py) for ONE message over the list L of waiter ids
\* (removals only happen in later slots).  State threaded: st = [w, r, cb, err]
\*   w: waiter status function, r: waiter results, cb: callbacks scheduled, err: raised
\* skip: a waiter that is done is passed over; otherwise set_result on it raises
RECURSIVE Complete(_, _, _, _, _, _)
Complete(i, L, m, idx, st, skip) ==
  IF i > Len(L) \/ st.err THEN st
  ELSE LET x == L[i] IN
    IF ~MatchImpl(wspec[x], m) THEN Complete(i + 1, L, m, idx, st, skip)
    ELSE IF st.w[x] = "pending" THEN
      Complete(i + 1, L, m, idx,
               [st EXCEPT !.w = [@ EXCEPT ![x] = "result"],
                          !.r = [@ EXCEPT ![x] = idx],
                          !.cb = @ \o (IF cpc[x] = "waiting"
                                         THEN <<[k |-> "rm", c |-> x], [k |-> "wake", c |-> x]>>
                                         ELSE <<[k |-> "rm", c |-> x]>>)],
               skip)
    ELSE IF skip THEN Complete(i + 1, L, m, idx, st, skip)
    ELSE [st EXCEPT !.err = TRUE]          \* set_result on a done future: InvalidStateError leaves the loop

\* one reader step handles every buffered frame back-to-back (readexactly on buffered data does
\* not suspend; _perform_message_callback swallows and logs the exception) - until the handling of
\* a frame suspends in a listener: the rest stays buffered.
\* acc = [w, r, cb, nerr, arr (messages come in), fin (indexes finished), stop (0 | k of the suspended frame)]
RECURSIVE ReadAll(_, _, _)
ReadAll(ms, k, acc) ==
  IF k > Len(ms) THEN acc
  ELSE LET idx == Len(hist) + Len(acc.arr) + 1
           acc1 == [acc EXCEPT !.arr = Append(@, ms[k].m)] IN
    IF ms[k].slow THEN [acc1 EXCEPT !.stop = k]
    ELSE LET one == Complete(1, lst, ms[k].m, idx, [w |-> acc.w, r |-> acc.r, cb |-> acc.cb, err |-> FALSE],
                             SkipDoneFutures)
         IN ReadAll(ms, k + 1, [acc1 EXCEPT !.w = one.w, !.r = one.r, !.cb = one.cb,
                                            !.nerr = @ + (IF one.err THEN 1 ELSE 0), !.fin = @ \cup {idx}])

\* the effects of a reader step that went through ms starting from acc0
ReaderStep(conn, ms, acc0, rest) ==
  LET res == ReadAll(ms, 1, acc0) IN
  /\ wst' = res.w
  /\ wres' = res.r
  /\ ready' = rest \o res.cb
  /\ IF res.stop = 0
       THEN /\ buf' = [buf EXCEPT ![conn] = <<>>]
            /\ rsched' = [rsched EXCEPT ![conn] = FALSE]
            /\ susp' = [susp EXCEPT ![conn] = <<>>]
       ELSE /\ buf' = [buf EXCEPT ![conn] = SubSeq(ms, res.stop + 1, Len(ms))]
            /\ rsched' = [rsched EXCEPT ![conn] = TRUE]       \* the reader is not waiting for data
            /\ susp' = [susp EXCEPT ![conn] =
                          <<[m |-> ms[res.stop].m, idx |-> Len(hist) + Len(res.arr),
                             snap |-> SelectSeq(lst, LAMBDA x : res.w[x] = "pending"), rel |-> FALSE]>>]
  /\ ObsHandled(res.arr, res.fin, res.nerr)
  /\ UNCHANGED <<dueNow, lst, wspec, cpc, creq, mustc, expiring, armed, sfail, dead, el, nfed, ncancel, ndue, nsf, nslow, nel>>

Read(conn, rest) ==
  ReaderStep(conn, IF conn \in dead THEN <<>> ELSE buf[conn],
             [w |-> wst, r |-> wres, cb |-> <<>>, nerr |-> 0, arr |-> <<>>, fin |-> {}, stop |-> 0], rest)

\* the listener returns: the waiters of the suspended message are completed, then the reader goes on
Resume(conn, rest) ==
  LET s == susp[conn][1]
      one == IF LiveListAtCompletion
               THEN Complete(1, lst, s.m, s.idx, [w |-> wst, r |-> wres, cb |-> <<>>, err |-> FALSE], SkipDoneFutures)
               ELSE Complete(1, s.snap, s.m, s.idx, [w |-> wst, r |-> wres, cb |-> <<>>, err |-> FALSE], FALSE)
  IN ReaderStep(conn, IF conn \in dead THEN <<>> ELSE buf[conn],
                [w |-> one.w, r |-> one.r, cb |-> one.cb, nerr |-> (IF one.err THEN 1 ELSE 0), arr |-> <<>>,
                 fin |-> {s.idx}, stop |-> 0], rest)

\* done-callback _remove_response_future: one slot after the future became done
Remove(c, rest) ==
  /\ lst' = SelectSeq(lst, LAMBDA x : x # c)
  /\ ready' = rest
  /\ UNCHANGED <<dueNow, buf, rsched, wst, wres, wspec, cpc, creq, mustc, expiring, armed, sfail, dead, susp, el, nfed, ncancel, ndue, nsf, nslow, nel>>
  /\ ObsSame

\* the caller resumes from `await future`
Wake(c, rest) ==
  IF cpc[c] # "waiting" THEN
    /\ ready' = rest
    /\ UNCHANGED <<dueNow, buf, rsched, lst, wst, wres, wspec, cpc, creq, mustc, expiring, armed, sfail, dead, susp, el, nfed, ncancel, ndue, nsf, nslow, nel>>
    /\ ObsSame
  ELSE
    /\ ready' = rest
    /\ UNCHANGED <<dueNow, buf, rsched, lst, wst, wres, wspec, creq, mustc, expiring, sfail, dead, susp, el, nfed, ncancel, ndue, nsf, nslow, nel>>
    /\ IF wst[c] = "cancelled" \/ mustc[c]
         THEN \* CancelledError at the await; asyncio.Timeout.__aexit__ turns it into TimeoutError iff the
              \* timeout's own cancel() is the only request (timeouts.py); wait_for_* then calls
              \* future.set_exception on a future that is cancelled or has a result (network.py:714-716)
              IF expiring[c] /\ creq[c] = 1
                THEN IF cspec[c].api = "wait" /\ ~GuardSetException
                       THEN Finish(c, [kind |-> "exc", j |-> 0, exc |-> "InvalidStateError"])
                       ELSE Finish(c, [kind |-> "exc", j |-> 0, exc |-> "TimeoutError"])
                ELSE Finish(c, [kind |-> "exc", j |-> 0, exc |-> "CancelledError"])
         ELSE Finish(c, [kind |-> "result", j |-> wres[c], exc |-> ""])

\* asyncio.Timeout._on_timeout: task.cancel()
TimerFires(c, rest) ==
  IF ~armed[c] THEN                 \* the handle was cancelled when the caller left the context
    /\ ready' = rest
    /\ UNCHANGED <<dueNow, buf, rsched, lst, wst, wres, wspec, cpc, creq, mustc, expiring, armed, sfail, dead, susp, el, nfed, ncancel, ndue, nsf, nslow, nel>>
    /\ ObsSame
  ELSE
    /\ armed' = [armed EXCEPT ![c] = FALSE]
    /\ expiring' = [expiring EXCEPT ![c] = TRUE]
    /\ TaskCancel(c, rest)
    /\ UNCHANGED <<dueNow, buf, rsched, lst, wres, wspec, sfail, dead, susp, el, nfed, ncancel, ndue, nsf, nslow, nel>>
    /\ ObsSame

Run ==
  /\ ready # <<>> /\ ~AtD
  /\ LET h == Head(ready)
         rest == Tail(ready) IN
       CASE h.k = "first" -> First(h.c, rest)
         [] h.k = "hop"   -> Hop(h.c, h.n, rest)
         [] h.k = "feed"  -> FeedData(h.conn, h.ms, rest)
         [] h.k = "read"  -> Read(h.conn, rest)
         [] h.k = "resume" -> Resume(h.conn, rest)
         [] h.k = "rm"    -> Remove(h.c, rest)
         [] h.k = "wake"  -> Wake(h.c, rest)
         [] h.k = "tmo"   -> TimerFires(h.c, rest)

Next ==
  \/ \E c \in Callers, s \in Specs, api \in Apis, fails \in BOOLEAN, tm \in Timeouts : Reg(c, s, api, fails, tm)
  \/ \E b \in Batches, sl \in 0..MaxBatch : Feed(b, sl)
  \/ \E c \in Callers : Cancel(c) \/ Due(c) \/ Elapse(c)
  \/ \E conn \in Conns : Release(conn)
  \/ Observe
  \/ DStep
  \/ Run

Spec == Init /\ [][Next]_vars

\* ---------------------------------------------------------------------------
\* Properties (observation layer only)

Called(c) == mayAt[c] > 0
Asked(c) == regAt[c] > 0
\* the messages that answer c: those that came in after it asked ...
Must(c) == IF Asked(c) THEN {i \in regAt[c]..Len(hist) : Match(cspec[c], hist[i])} ELSE {}
\* ... and, possibly, one that came in after it entered the call but before its request was out, or
\* that was being handled when it entered the call (its waiters not yet completed)
May(c) == IF Called(c) THEN {i \in (mayAt[c]..Len(hist)) \cup infl[c] : Match(cspec[c], hist[i])} ELSE {}

\* a request completes only with a message of the expected type, from the expected
\* server/peer, carrying the expected field values, that was not finished before the request was made
OnlyMatchingOf(c) ==
  out[c].kind = "result" => out[c].j \in May(c)
OnlyMatching == \A c \in Callers : OnlyMatchingOf(c)

\* ... and with the first such message
FirstMatchingOf(c) ==
  (out[c].kind = "result" /\ out[c].j \in May(c)) => \A i \in Must(c) : i >= out[c].j
FirstMatching == \A c \in Callers : FirstMatchingOf(c)

\* every request pending when an answering message is handled is completed by it: once the loop is
\* quiescent no caller is still waiting although the handling of a message that came in after it
\* asked, and answers it, is finished
AnsweredOf(c) == (Asked(c) /\ out[c].kind = "none") => Must(c) \cap fin = {}
AllAnsweredCompleted == quiet => \A c \in Callers : AnsweredOf(c)

\* each at most once
AtMostOnce == \A c \in Callers : outN[c] <= 1

\* a caller's error is the one it was given: TimeoutError iff its timeout expired (never an
\* internal-state error), CancelledError only if it was cancelled, a send error only if its
\* send failed; and an expired / cancelled caller does get its error (seen at quiescence)
LegitError(c) ==
  out[c].kind = "exc" =>
    \/ out[c].exc = "TimeoutError" /\ stim[c] \cap {"due", "maydue"} # {}
    \/ out[c].exc = "CancelledError" /\ "cancel" \in stim[c]
    \/ out[c].exc = "SendError" /\ "sendfail" \in stim[c]
ErrorDelivered(c) == (Called(c) /\ stim[c] \cap {"due", "cancel"} # {} /\ quiet) => out[c].kind # "none"
TimeoutIsTimeoutOf(c) == LegitError(c) /\ ErrorDelivered(c)
TimeoutIsTimeout == \A c \in Callers : TimeoutIsTimeoutOf(c)

\* completed, timed-out or cancelled requests leave nothing registered: what is registered at a
\* quiescent moment are the requests that are still waiting, none of them done
Live == {c \in Callers : Asked(c) /\ out[c].kind = "none"}
NoResidue == quiet => (resid = 0 /\ regn = 0)

\* handling a message never raises because of waiter bookkeeping
DeliveryUnbroken == broken = 0

\* ---------------------------------------------------------------------------
\* Mechanism-level sanity
TypeOK ==
  /\ \A c \in Callers : wst[c] \in {"none", "pending", "result", "cancelled"}
  /\ \A c \in Callers : cpc[c] \in {"idle", "spawned", "sending", "cancelling", "waiting", "done"}
  /\ \A i \in 1..Len(lst) : wst[lst[i]] # "none"
  /\ Len(SelectSeq(ready, LAMBDA h : h = D)) = 1

\* a waiter is completed at most once: its status leaves "pending" once and then stays
WaiterOnce == [][\A c \in Callers : (wst[c] \notin {"none", "pending"}) => (wst'[c] = wst[c] /\ wres'[c] = wres[c])]_vars

=============================================================================

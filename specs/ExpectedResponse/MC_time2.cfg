\* quick: 2 callers wait_for_server/peer_message asking for a timeout below or above the library's 10 s; the clock is moved to just before and past each deadline, a reply on either side; exhaustive, graph dumped, edge cover replayed
SPECIFICATION Spec
CONSTANTS
  Callers = {1, 2}
  Specs <- SpecsT
  Msgs <- MsgsT
  Apis = {"wait"}
  Timeouts = {"short", "long"}
  MaxElapse = 1
  MaxFeeds = 1
  MaxBatch = 1
  MaxCancel = 0
  MaxDue = 1
  MaxSlow = 0
  MaxSendFail = 0
  SendHops = 4
  SkipDoneFutures = TRUE
  GuardSetException = TRUE
  AllFieldMatchers = TRUE
  TicketBeforeRegister = TRUE
  LiveListAtCompletion = TRUE
  ReleaseWhenSendCancelled = TRUE
  TimeoutForwarded = TRUE
  RegisterAfterSend = TRUE
INVARIANT TypeOK
INVARIANT OnlyMatching
INVARIANT FirstMatching
INVARIANT AllAnsweredCompleted
INVARIANT AtMostOnce
INVARIANT TimeoutIsTimeout
INVARIANT NoResidue
INVARIANT DeliveryUnbroken
PROPERTY WaiterOnce
CHECK_DEADLOCK FALSE

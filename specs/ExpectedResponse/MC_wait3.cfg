\* thorough: 3 callers through wait_for_*/create_*, 2 messages in batches <= 2, one cancel, one timeout; exhaustive (3.3e6 states)
SPECIFICATION Spec
CONSTANTS
  Callers = {1, 2, 3}
  Specs <- SpecsQ
  Msgs <- MsgsQ
  Apis = {"wait"}
  Timeouts = {"short"}
  MaxElapse = 0
  MaxFeeds = 2
  MaxBatch = 2
  MaxCancel = 1
  MaxDue = 1
  MaxSlow = 0
  MaxSendFail = 0
  SendHops = 4
  SkipDoneFutures = TRUE
  GuardSetException = TRUE
  AllFieldMatchers = TRUE
  TicketBeforeRegister = TRUE
  LiveListAtCompletion = TRUE
  ReleaseWhenSendCancelled = TRUE
  TimeoutForwarded = TRUE
  RegisterAfterSend = TRUE
INVARIANT TypeOK
INVARIANT OnlyMatching
INVARIANT FirstMatching
INVARIANT AllAnsweredCompleted
INVARIANT AtMostOnce
INVARIANT TimeoutIsTimeout
INVARIANT NoResidue
INVARIANT DeliveryUnbroken
PROPERTY WaiterOnce
CHECK_DEADLOCK FALSE

\* a design in which the negotiation creates its waiter before sending and does not release it when the send fails or is cancelled (seeded change C12-c2): expected to violate NoResidue
SPECIFICATION Spec
CONSTANTS
  Callers = {1}
  Specs <- SpecsN
  Msgs <- MsgsN
  Apis = {"place"}
  Timeouts = {"short"}
  MaxElapse = 0
  MaxFeeds = 1
  MaxBatch = 1
  MaxCancel = 1
  MaxDue = 0
  MaxSlow = 0
  MaxSendFail = 1
  SendHops = 4
  SkipDoneFutures = TRUE
  GuardSetException = TRUE
  AllFieldMatchers = TRUE
  TicketBeforeRegister = TRUE
  LiveListAtCompletion = TRUE
  ReleaseWhenSendCancelled = TRUE
  TimeoutForwarded = TRUE
  RegisterAfterSend = FALSE
INVARIANT TypeOK
INVARIANT OnlyMatching
INVARIANT FirstMatching
INVARIANT AllAnsweredCompleted
INVARIANT AtMostOnce
INVARIANT TimeoutIsTimeout
INVARIANT NoResidue
INVARIANT DeliveryUnbroken
PROPERTY WaiterOnce
CHECK_DEADLOCK FALSE

\* quick: 2 callers, the place-in-queue negotiation (send, then waiter + timeout) next to a plain wait; send failure, cancellation during the send, timeout; exhaustive, graph dumped, edge cover replayed
SPECIFICATION Spec
CONSTANTS
  Callers = {1, 2}
  Specs <- SpecsN
  Msgs <- MsgsN
  Apis = {"place", "wait"}
  Timeouts = {"short"}
  MaxElapse = 0
  MaxFeeds = 1
  MaxBatch = 1
  MaxCancel = 1
  MaxDue = 1
  MaxSlow = 0
  MaxSendFail = 1
  SendHops = 4
  SkipDoneFutures = TRUE
  GuardSetException = TRUE
  AllFieldMatchers = TRUE
  TicketBeforeRegister = TRUE
  LiveListAtCompletion = TRUE
  ReleaseWhenSendCancelled = TRUE
  TimeoutForwarded = TRUE
  RegisterAfterSend = TRUE
INVARIANT TypeOK
INVARIANT OnlyMatching
INVARIANT FirstMatching
INVARIANT AllAnsweredCompleted
INVARIANT AtMostOnce
INVARIANT TimeoutIsTimeout
INVARIANT NoResidue
INVARIANT DeliveryUnbroken
PROPERTY WaiterOnce
CHECK_DEADLOCK FALSE

SPECIFICATION TSpec
CONSTANTS
  Callers = {1, 2, 3, 4}
  Specs = {}
  Msgs = {}
  Apis = {}
  Timeouts = {"short"}
  MaxElapse = 0
  MaxFeeds = 0
  MaxBatch = 0
  MaxCancel = 0
  MaxDue = 0
  MaxSlow = 0
  MaxSendFail = 0
  SendHops = 4
  SkipDoneFutures = TRUE
  GuardSetException = TRUE
  AllFieldMatchers = TRUE
  TicketBeforeRegister = TRUE
  LiveListAtCompletion = TRUE
  ReleaseWhenSendCancelled = TRUE
  TimeoutForwarded = TRUE
  RegisterAfterSend = TRUE
CHECK_DEADLOCK FALSE

---------------------- MODULE ExpectedResponseTrace ----------------------
(***************************************************************************)
(* Trace validation for C12: executions of the real SoulSeekClient /       *)
(* Network recorded by harness/props/c12.py are judged by the properties   *)
(* of ExpectedResponse.                                                    *)
(*                                                                         *)
(* Only the OBSERVATION layer of the design spec is bound (its Obs*        *)
(* update operators are re-used verbatim); the mechanism layer - ready     *)
(* queue, waiter list, task flags - is not observable at the public        *)
(* surfaces and is frozen, so a change of the implementation that keeps    *)
(* the contract keeps passing.                                             *)
(*                                                                         *)
(* Event records (JSON):                                                   *)
(*   call : c, conn, cls, m1, m2, api, late, tm, site, fails, deferred     *)
(*          caller c enters wait_for_*_message / create_*_response_future  *)
(*          / execute (registration happens in that same loop slot)        *)
(*   msg  : conn, cls, f1, f2   MessageReceivedEvent reaches the harness'    *)
(*          listener (the last one): message #(number of msg events) came in *)
(*   hdl  : j                   that listener returns for message #j - at    *)
(*          once, or after it was suspended until the harness released it;  *)
(*          the completion loop follows in the same slot                    *)
(*   err  : exc                 'error during callback' logged, or the loop *)
(*          exception handler was reached                                   *)
(*   sent : c                   the loop has quiesced and c's negotiation is *)
(*          still going on: its send is over, its request is made           *)
(*   stim : c, what             the harness cancels c's task ("cancel"),    *)
(*          moves the clock past the deadline c asked for ("due"; "maydue"  *)
(*          when only the earliest possible deadline of a request whose     *)
(*          timeout starts after its send is passed), or makes writes on    *)
(*          the connection c is sending on fail ("sendfail")                *)
(*   out  : c, kind, j, exc     c's call returned message #j of the msg     *)
(*          events (0: not a handled message) / raised exc                  *)
(*   q    : n, ndone            nothing is ready: length of                 *)
(*          Network._expected_response_futures, done entries in it          *)
(* Every event is consumed by exactly one action: no silent steps.          *)
(* `marks` names the violated properties by site (classification run,       *)
(* TraceClassify.cfg); under Trace.cfg the properties are constraints and   *)
(* a violating trace is simply not accepted.                                *)
(***************************************************************************)
EXTENDS ExpectedResponse, Json, IOUtils

Traces == JsonDeserialize(IOEnv.TRACE_FILE)

VARIABLES tid, l, site, errs, marks

tvars == <<vars, tid, l, site, errs, marks>>

T == Traces[tid]
Rec == T[l]

MechFrozen ==
  /\ ready = <<>> /\ dueNow = <<>>
  /\ buf = <<>> /\ rsched = <<>> /\ lst = <<>>
  /\ wst = <<>> /\ wres = <<>> /\ wspec = <<>> /\ cpc = <<>> /\ creq = <<>> /\ mustc = <<>>
  /\ expiring = <<>> /\ armed = <<>> /\ sfail = <<>> /\ dead = {} /\ susp = <<>> /\ el = <<>>
  /\ nfed = 0 /\ ncancel = 0 /\ ndue = 0 /\ nsf = 0 /\ nslow = 0 /\ nel = 0

TInit ==
  /\ tid \in 1..Len(Traces)
  /\ l = 1
  /\ MechFrozen
  /\ ObsInit
  /\ site = [c \in Callers |-> "?"]
  /\ errs = {}
  /\ marks = {}

IsEv(e) == l <= Len(T) /\ Rec.ev = e

\* ---- classification: which property is violated where (evaluated on the new state) -------
HasPred(c) == IsPred(cspec[c].m1) \/ IsPred(cspec[c].m2)
StimTag(c) == IF "due" \in stim[c] THEN "timeout" ELSE IF "cancel" \in stim[c] THEN "cancel"
              ELSE IF "sendfail" \in stim[c] THEN "sendfail" ELSE "nothing"
ErrTag == IF "InvalidStateError" \in errs THEN "set_result-on-done-future" ELSE "raised"
\* consequences of a broken delivery (waiters after the raising one are skipped) are named as such
Where(c) == IF broken > 0 THEN "after-broken-delivery" ELSE site[c]

MarksOf(c) ==
     (IF ~OnlyMatchingOf(c)
        THEN {IF HasPred(c) THEN "OnlyMatching:ExpectedResponse.matches:callable-field-matcher"
                            ELSE "OnlyMatching:" \o site[c] \o ":literal-matchers"} ELSE {})
  \cup (IF ~FirstMatchingOf(c) THEN {"FirstMatching:" \o Where(c)} ELSE {})
  \cup (IF quiet /\ ~AnsweredOf(c) THEN {"AllAnsweredCompleted:" \o Where(c)} ELSE {})
  \cup (IF ~LegitError(c) THEN {"TimeoutIsTimeout:" \o site[c] \o ":" \o StimTag(c) \o "-raises-" \o out[c].exc} ELSE {})
  \cup (IF ~ErrorDelivered(c) THEN {"TimeoutIsTimeout:" \o site[c] \o ":" \o StimTag(c) \o "-never-raised"} ELSE {})
  \cup (IF outN[c] > 1 THEN {"AtMostOnce:" \o site[c]} ELSE {})

\* whose waiter may be the one left behind: the callers that are finished, by how they ended
GoneOf(c) == IF out[c].kind = "result" THEN "completed" ELSE IF "sendfail" \in stim[c] THEN "send-failed"
             ELSE IF "cancel" \in stim[c] THEN "cancelled" ELSE "timed-out"
Gone == LET S == {c \in Callers : Called(c) /\ out[c].kind # "none"}
            A == {c \in S : GoneOf(c) \in {"send-failed", "cancelled"}}       \* the unusual ways out first
            B == {c \in A : cspec[c].api \in {"exec", "place"}}              \* ... of the requests that send first
            P == IF B # {} THEN B ELSE IF A # {} THEN A ELSE S
        IN IF S = {} THEN "nobody"
           ELSE LET c == CHOOSE x \in P : \A d \in P : x <= d IN site[c] \o ":" \o GoneOf(c)

MarksNow ==
     UNION {MarksOf(c) : c \in Callers}
  \cup (IF ~DeliveryUnbroken THEN {"DeliveryUnbroken:on_message_received:" \o ErrTag} ELSE {})
  \cup (IF quiet /\ resid > 0 THEN {"NoResidue:done-waiter-still-registered"} ELSE {})
  \cup (IF quiet /\ regn > 0
         THEN {"NoResidue:waiter-of-finished-request-still-registered:" \o Gone} ELSE {})
  \cup (IF quiet /\ regn < 0 THEN {"NoResidue:waiting-request-not-registered"} ELSE {})

Step == l' = l + 1 /\ UNCHANGED <<tid, mech>> /\ marks' = marks \cup MarksNow'

\* ---- events -----------------------------------------------------------------------------
TCall ==
  /\ IsEv("call")
  /\ Rec.c \in Callers
  /\ ObsAsk(Rec.c, [conn |-> Rec.conn, cls |-> Rec.cls, m1 |-> Rec.m1, m2 |-> Rec.m2, api |-> Rec.api,
                    late |-> Rec.late, tm |-> Rec.tm], Rec.fails, Rec.deferred)
  /\ site' = [site EXCEPT ![Rec.c] = Rec.site]
  /\ UNCHANGED errs
  /\ Step

\* a message comes in: its handlers and listeners start
TMsg ==
  /\ IsEv("msg")
  /\ ObsHandled(<<[conn |-> Rec.conn, cls |-> Rec.cls, f1 |-> Rec.f1, f2 |-> Rec.f2]>>, {}, 0)
  /\ UNCHANGED <<site, errs>>
  /\ Step

\* the last listener of message #j returned: the completion of its waiters follows in the same slot
THandled ==
  /\ IsEv("hdl")
  /\ Rec.j \in 1..Len(hist) /\ Rec.j \notin fin
  /\ ObsHandled(<<>>, {Rec.j}, 0)
  /\ UNCHANGED <<site, errs>>
  /\ Step

TErr ==
  /\ IsEv("err")
  /\ ObsHandled(<<>>, {}, 1)
  /\ errs' = errs \cup {Rec.exc}
  /\ UNCHANGED site
  /\ Step

\* the loop has quiesced with caller c's negotiation still going on: its request is made
TSent ==
  /\ IsEv("sent")
  /\ Rec.c \in Callers
  /\ ObsSent(Rec.c)
  /\ UNCHANGED <<site, errs>>
  /\ Step

TStim ==
  /\ IsEv("stim")
  /\ Rec.c \in Callers
  /\ Rec.what \in {"due", "maydue", "cancel", "sendfail"}
  /\ ObsStim(Rec.c, Rec.what)
  /\ UNCHANGED <<site, errs>>
  /\ Step

TOut ==
  /\ IsEv("out")
  /\ Rec.c \in Callers
  /\ ObsOutcome(Rec.c, [kind |-> Rec.kind, j |-> Rec.j, exc |-> Rec.exc])
  /\ UNCHANGED <<site, errs>>
  /\ Step

TQuiet ==
  /\ IsEv("q")
  /\ ObsQuiet(Rec.ndone, Rec.n)
  /\ UNCHANGED <<site, errs>>
  /\ Step

Done ==
  /\ l = Len(T) + 1
  /\ PrintT(<<"ACCEPT", tid, marks>>)
  /\ l' = l + 1
  /\ UNCHANGED <<vars, tid, site, errs, marks>>

Finished == l = Len(T) + 2 /\ UNCHANGED tvars

TNext == TCall \/ TSent \/ TMsg \/ THandled \/ TErr \/ TStim \/ TOut \/ TQuiet \/ Done \/ Finished

TSpec == TInit /\ [][TNext]_tvars
=============================================================================

\* the pinned code (F5_waiter_kept_when_send_cancelled): execute() cancelled during command.send() keeps its waiter registered; expected to violate NoResidue
SPECIFICATION Spec
CONSTANTS
  Callers = {1}
  Specs <- SpecsC
  Msgs <- MsgsC
  Apis = {"wait", "exec"}
  Timeouts = {"short"}
  MaxElapse = 0
  MaxFeeds = 2
  MaxBatch = 2
  MaxCancel = 1
  MaxDue = 1
  MaxSlow = 0
  MaxSendFail = 0
  SendHops = 4
  SkipDoneFutures = TRUE
  GuardSetException = TRUE
  AllFieldMatchers = TRUE
  TicketBeforeRegister = TRUE
  LiveListAtCompletion = TRUE
  ReleaseWhenSendCancelled = FALSE
  TimeoutForwarded = TRUE
  RegisterAfterSend = TRUE
INVARIANT TypeOK
INVARIANT OnlyMatching
INVARIANT FirstMatching
INVARIANT AllAnsweredCompleted
INVARIANT AtMostOnce
INVARIANT TimeoutIsTimeout
INVARIANT NoResidue
INVARIANT DeliveryUnbroken
PROPERTY WaiterOnce
CHECK_DEADLOCK FALSE

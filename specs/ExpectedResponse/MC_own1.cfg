\* quick: 1 caller through execute() with a command that expects its own user name in the reply, the echo and the same text from somebody else in either order; exhaustive, graph dumped, edge cover replayed
SPECIFICATION Spec
CONSTANTS
  Callers = {1}
  Specs <- SpecsO
  Msgs <- MsgsO
  Apis = {"exec"}
  Timeouts = {"short"}
  MaxElapse = 0
  MaxFeeds = 2
  MaxBatch = 1
  MaxCancel = 0
  MaxDue = 0
  MaxSlow = 0
  MaxSendFail = 0
  SendHops = 4
  SkipDoneFutures = TRUE
  GuardSetException = TRUE
  AllFieldMatchers = TRUE
  TicketBeforeRegister = TRUE
  LiveListAtCompletion = TRUE
  ReleaseWhenSendCancelled = TRUE
  TimeoutForwarded = TRUE
  RegisterAfterSend = TRUE
INVARIANT TypeOK
INVARIANT OnlyMatching
INVARIANT FirstMatching
INVARIANT AllAnsweredCompleted
INVARIANT AtMostOnce
INVARIANT TimeoutIsTimeout
INVARIANT NoResidue
INVARIANT DeliveryUnbroken
PROPERTY WaiterOnce
CHECK_DEADLOCK FALSE

\* quick+thorough: every spec x every message, 1 caller (matching relation); graph dumped, edge cover replayed
SPECIFICATION Spec
CONSTANTS
  Callers = {1}
  Specs <- SpecsAll
  Msgs <- MsgsAll
  Apis = {"wait"}
  Timeouts = {"short"}
  MaxElapse = 0
  MaxFeeds = 1
  MaxBatch = 1
  MaxCancel = 0
  MaxDue = 0
  MaxSlow = 0
  MaxSendFail = 0
  SendHops = 4
  SkipDoneFutures = TRUE
  GuardSetException = TRUE
  AllFieldMatchers = TRUE
  TicketBeforeRegister = TRUE
  LiveListAtCompletion = TRUE
  ReleaseWhenSendCancelled = TRUE
  TimeoutForwarded = TRUE
  RegisterAfterSend = TRUE
INVARIANT TypeOK
INVARIANT OnlyMatching
INVARIANT FirstMatching
INVARIANT AllAnsweredCompleted
INVARIANT AtMostOnce
INVARIANT TimeoutIsTimeout
INVARIANT NoResidue
INVARIANT DeliveryUnbroken
PROPERTY WaiterOnce
CHECK_DEADLOCK FALSE

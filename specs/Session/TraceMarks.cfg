SPECIFICATION TSpec
CONSTANTS
  SettingsSpace <- TinySpace
  LossKinds = {"eof", "reset", "wfail", "timeout"}
  LoginModes = {"ok", "rejected", "garbled"}
  BgKinds = {"pparent", "ctp", "stimer", "retry", "sreply", "xfer"}
  MaxBg = 99
  MaxLosses = 99
  MaxLogins = 99
  Env = {"exec", "peerin", "userdisc", "midburst"}
  MaxConnFail = 99
  FixAutoJoin = TRUE
  FixDistStopped = TRUE
  FixWatchdogStopped = TRUE
  FixTimersStopped = TRUE
  FixStaleInit = TRUE
  FixSelfAwait = TRUE
  MarksMode = TRUE
  FixQueueOnce = TRUE
CHECK_DEADLOCK FALSE

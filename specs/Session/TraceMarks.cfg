SPECIFICATION TSpec
CONSTANTS
  SettingsSpace <- TinySpace
  LossKinds = {"eof", "reset", "wfail", "timeout"}
  LoginModes = {"ok", "rejected", "garbled"}
  BgKinds = {"pparent", "ctp", "stimer", "retry", "sreply", "xfer"}
  MaxBg = 99
  MaxLosses = 99
  MaxLogins = 99
  SlowScan = {TRUE, FALSE}
  Env = {"exec", "peerin", "userdisc", "midburst", "parent"}
  MaxConnFail = 99
  FixAutoJoin = TRUE
  FixDistStopped = TRUE
  FixWatchdogStopped = TRUE
  FixCancelFirst = TRUE
  FixTimersStopped = TRUE
  FixStaleInit = TRUE
  FixSelfAwait = TRUE
  MarksMode = TRUE
  FixQueueOnce = TRUE
  FixScanStopped = TRUE
CHECK_DEADLOCK FALSE

SPECIFICATION FairSpec
CONSTANTS
  SettingsSpace <- TinySpace
  LossKinds = {"eof", "reset"}
  LoginModes = {"ok", "rejected"}
  BgKinds = {"pparent"}
  MaxBg = 1
  MaxLosses = 2
  MaxLogins = 1
  MaxConnFail = 1
  FixAutoJoin = TRUE
  FixDistStopped = TRUE
  FixWatchdogStopped = TRUE
  FixTimersStopped = TRUE
  FixSelfAwait = TRUE
  FixQueueOnce = TRUE
INVARIANT TypeOK
INVARIANT AdvertisedOnly
INVARIANT AdvertisedExactly
INVARIANT NoCommandWithoutSession
INVARIANT SessionOnConnection
INVARIANT DestroyedOncePerLoss
INVARIANT DerivedCleared
INVARIANT ReconnectArmed
INVARIANT ReconnectOnlyIf
INVARIANT StopIsFinal
PROPERTY ReconnectStep
PROPERTY ReconnectHappens
CHECK_DEADLOCK FALSE

SPECIFICATION FairSpec
CONSTANTS
  SettingsSpace <- TinySpace
  LossKinds = {"eof", "reset"}
  LoginModes = {"ok", "rejected"}
  BgKinds = {"pparent"}
  MaxBg = 1
  MaxLosses = 2
  MaxLogins = 1
  Env = {"exec", "peerin", "userdisc", "midburst"}
  MaxConnFail = 1
  FixAutoJoin = TRUE
  FixDistStopped = TRUE
  FixWatchdogStopped = TRUE
  FixTimersStopped = TRUE
  FixStaleInit = TRUE
  FixSelfAwait = TRUE
  FixQueueOnce = TRUE
INVARIANT TypeOK
INVARIANT AdvertisedOnly
INVARIANT AdvertisedExactly
INVARIANT NoCommandWithoutSession
INVARIANT SessionOnConnection
INVARIANT DestroyedOncePerLoss
INVARIANT DerivedCleared
INVARIANT ReconnectArmed
INVARIANT ReconnectOnlyIf
INVARIANT StopIsFinal
PROPERTY ReconnectStep
PROPERTY ReconnectHappens
CHECK_DEADLOCK FALSE

SPECIFICATION TSpec
CONSTANTS
  SettingsSpace <- TinySpace
  LossKinds = {"eof", "reset", "wfail", "timeout"}
  LoginModes = {"ok", "rejected", "garbled"}
  BgKinds = {"pparent", "ctp", "stimer", "retry", "sreply", "xfer"}
  MaxBg = 99
  MaxLosses = 99
  MaxLogins = 99
  SlowScan = {TRUE, FALSE}
  Env = {"exec", "peerin", "userdisc", "midburst", "parent"}
  MaxConnFail = 99
  FixAutoJoin = TRUE
  FixDistStopped = TRUE
  FixWatchdogStopped = TRUE
  FixCancelFirst = TRUE
  FixTimersStopped = TRUE
  FixStaleInit = TRUE
  FixSelfAwait = TRUE
  MarksMode = FALSE
  FixQueueOnce = TRUE
  FixScanStopped = TRUE
CONSTRAINT AdvertisedExactlyT
CONSTRAINT NoCommandWithoutSession
CONSTRAINT ExecWire
CONSTRAINT SessionOnConnection
CONSTRAINT DestroyedOncePerLossT
CONSTRAINT SessionField
CONSTRAINT DerivedClearedT
CONSTRAINT ReconnectOnlyIf
CONSTRAINT ReconnectInTime
CONSTRAINT LoginFollows
CONSTRAINT StopIsFinalT
CHECK_DEADLOCK FALSE

------------------------------ MODULE Session ------------------------------
(***************************************************************************)
(* C16 - session life cycle: login advertises the settings, a server loss  *)
(* resets, stop() is final.                                                *)
(*                                                                         *)
(* Mirrors src/aioslsk/client.py (start / login / stop / execute /         *)
(* _on_connection_state_changed / _on_server_reconnected), the watchdog    *)
(* and disconnect() of network/network.py, the SessionInitialized /        *)
(* SessionDestroyed / ConnectionStateChanged handlers and stop() of the    *)
(* managers (user, room, interest, shares, distributed, server, search,    *)
(* transfer, peer).                                                        *)
(*                                                                         *)
(* The settings vector `cfg` is chosen in Init from SettingsSpace, so one  *)
(* TLC run quantifies over the settings matrix.  The model is the          *)
(* *documented* design (docs/source/SETTINGS.rst, USAGE.rst, the property  *)
(* statement).  Four CONSTANT switches put the model in the position of    *)
(* the pinned code where it deviates (DESIGN.md 2.2 rule 4):               *)
(*   FixAutoJoin        FALSE: favourites are joined iff auto_join = FALSE *)
(*   FixDistStopped     FALSE: DistributedNetwork is not a stopped service *)
(*   FixWatchdogStopped FALSE: stop() cancels the watchdog only through a  *)
(*                             REQUESTED close of a not-yet-closed server  *)
(*                             connection                                  *)
(*   FixCancelFirst     FALSE: disconnect() cancels its tasks (watchdog)    *)
(*                             only after the connections are closed: a    *)
(*                             watchdog that wakes inside a slow stop()    *)
(*                             reconnects (not the pinned code: a seeded   *)
(*                             regression the model must be able to show)  *)
(*   FixTimersStopped   FALSE: search-request timers survive stop()        *)
(*   FixStaleInit       FALSE: a session closed inside its login burst     *)
(*                             still gets its tracking workers: they outlive*)
(*                             a stop(), and after a reconnect the friends  *)
(*                             are not requested again                      *)
(*   FixSelfAwait       FALSE: a loss detected by a tracking worker's own  *)
(*                             write makes the tracking manager await the  *)
(*                             task it runs in; CLOSED never reaches the   *)
(*                             client, the session is not destroyed        *)
(*   FixQueueOnce       FALSE: a superseded queue-remotely task of a       *)
(*                             download is not cancelled by stop() (C06)   *)
(*   FixScanStopped     FALSE: the start-up scan task (client.py:128) is   *)
(*                             not kept, stop() leaves it running          *)
(* (FixSelfAwait / FixQueueOnce are repaired by fixes/C15-2 and C06-1, the *)
(*  others by fixes/C16-1 .. C16-6)                                        *)
(* With all of them TRUE every property below holds; with one FALSE TLC    *)
(* gives the counterexample (MC_asCode_*.cfg).                             *)
(*                                                                         *)
(* Every action is written as  X == XCore /\ XObs : XCore changes the      *)
(* variables the model decides (mvars), XObs the ones that the trace spec  *)
(* binds from snapshots of the real client (ovars: bg, open, derived).     *)
(***************************************************************************)
EXTENDS Naturals, Sequences, FiniteSets, TLC

CONSTANTS
  SettingsSpace,       \* set of settings records (see FullSpace / QuickSpace / TinySpace)
  LossKinds,           \* subset of {"eof", "reset", "wfail", "timeout"}
  LoginModes,          \* subset of {"ok", "rejected", "garbled"}
  BgKinds,             \* background activities the environment can cause (see AllBgKinds)
  MaxBg,               \* at most this many of them alive at once
  MaxLosses,           \* fault budget: server losses per behaviour
  MaxLogins,           \* login() calls by the user per behaviour
  MaxConnFail,         \* failed reconnect attempts per behaviour
  SlowScan,            \* subset of BOOLEAN: may the start-up share scan (shares.scan_on_start) be slow,
                       \* i.e. still in flight when the application goes on (login, stop)
  Env,                 \* which optional environment actions are on: subset of
                       \* {"exec", "peerin", "userdisc", "midburst", "parent"} (midburst = stop / disconnect
                       \* inside the burst; parent = a distributed parent may be found and lost)
  FixAutoJoin, FixDistStopped, FixWatchdogStopped, FixCancelFirst, FixTimersStopped, FixStaleInit, FixSelfAwait,
  FixQueueOnce, FixScanStopped

----------------------------------------------------------------------------
\* The settings matrix

AllPorts == {"clear", "obf"}

FullSpace ==
  [ports: SUBSET AllPorts,
   friends: {{}, {"f1"}, {"f1", "f2"}},
   liked: {{}, {"l1"}}, hated: {{}, {"h1"}, {"h1", "l1"}},   \* the lists are independent: "l1" may be in both
   favs: {{}, {"r1"}, {"r1", "r2"}},
   autoJoin: BOOLEAN, invites: BOOLEAN, reconnect: BOOLEAN,
   shares: {<<"0", "0">>, <<"2", "2">>, <<"4", "4">>}]      \* 0, 1, 2 shared directories

V(p, fr, li, ha, fa, aj, inv, rc, sh) ==
  [ports |-> p, friends |-> fr, liked |-> li, hated |-> ha, favs |-> fa,
   autoJoin |-> aj, invites |-> inv, reconnect |-> rc, shares |-> sh]

\* every setting takes each of its values at least once, favourites x autoJoin all four ways
QuickSpace == {
  V({"clear", "obf"}, {"f1", "f2"}, {"l1"}, {"h1", "l1"}, {"r1", "r2"}, TRUE,  TRUE,  TRUE,  <<"2", "2">>),
  V({"clear"},        {"f1"},       {},     {"h1"}, {"r1"},       FALSE, FALSE, TRUE,  <<"0", "0">>),
  V({"obf"},          {},           {"l1"}, {},     {},           TRUE,  FALSE, FALSE, <<"4", "4">>),
  V({},               {"f1"},       {},     {},     {"r1"},       TRUE,  TRUE,  FALSE, <<"2", "2">>),
  V({"clear", "obf"}, {},           {},     {},     {},           FALSE, TRUE,  TRUE,  <<"0", "0">>),
  V({"clear"},        {"f1", "f2"}, {"l1"}, {"h1"}, {"r1", "r2"}, FALSE, FALSE, FALSE, <<"4", "4">>) }

TinySpace == {
  V({"clear", "obf"}, {"f1"}, {"l1"}, {"h1", "l1"}, {"r1"}, TRUE,  TRUE,  TRUE, <<"2", "2">>),
  V({"clear"},        {"f1"}, {},     {},     {"r1"}, FALSE, FALSE, TRUE, <<"0", "0">>) }

----------------------------------------------------------------------------
\* Advertisement frames: sequences of strings (what the trace records use, too)

B(b) == IF b THEN "1" ELSE "0"

FListen(c)  == <<"listen", B("clear" \in c.ports), B("obf" \in c.ports)>>
FStatus     == <<"status", "online">>
FShares(c)  == <<"shares", c.shares[1], c.shares[2]>>
FInvites(c) == <<"invites", B(c.invites)>>
FLevel      == <<"level", "0">>
FRoot       == <<"root", "me">>
FPSearch    == <<"psearch", "1">>

\* the branch position with a live parent (the scripted parent is a branch root: level 0, root itself)
PLevel   == <<"level", "1">>
PRoot    == <<"root", "pp">>
PPSearch == <<"psearch", "0">>
WithParent(f) == CASE f = FLevel -> PLevel [] f = FRoot -> PRoot [] f = FPSearch -> PPSearch [] OTHER -> f

\* What the statement says the server must have been told after a successful login.
Expected(c) ==
  {FListen(c), FStatus, FShares(c), FInvites(c), FLevel, FRoot, FPSearch}
    \cup {<<"adduser", f>> : f \in c.friends}
    \cup {<<"like", i>> : i \in c.liked}
    \cup {<<"hate", i>> : i \in c.hated}
    \cup (IF c.autoJoin THEN {<<"join", r>> : r \in c.favs} ELSE {})

\* frame kinds the property talks about (everything else on the wire is not an advertisement)
AdvertKinds == {"listen", "status", "shares", "invites", "level", "root", "psearch",
                "adduser", "like", "hate", "join"}

RECURSIVE SeqOf(_)
SeqOf(S) == IF S = {} THEN <<>> ELSE LET x == CHOOSE y \in S : TRUE IN <<x>> \o SeqOf(S \ {x})

Tagged(tag, S) == LET s == SeqOf(S) IN [i \in 1..Len(s) |-> <<tag, s[i]>>]

\* The burst as the handlers produce it, in registration order: network.py:1167 (listening
\* ports), distributed.py:581 (branch values), user/manager.py:467 (status, friends),
\* room/manager.py:533 (invites, favourites), interest/manager.py:157, shares/manager.py:945.
JoinsSent(c) == IF FixAutoJoin THEN c.autoJoin ELSE ~c.autoJoin
Burst(c) ==
  <<FListen(c), FLevel, FRoot, FPSearch, FStatus>>
    \o Tagged("adduser", c.friends)
    \o <<FInvites(c)>>
    \o (IF JoinsSent(c) THEN Tagged("join", c.favs) ELSE <<>>)
    \o Tagged("like", c.liked) \o Tagged("hate", c.hated)
    \o <<FShares(c)>>

----------------------------------------------------------------------------
\* Background activities

AllBgKinds == {"pparent",   \* potential-parent connect  (distributed.py:380-394)
               "ctp",       \* connect-to-peer task      (network.py:795-804)
               "stimer",    \* search-request timer      (search/manager.py:300-308, tasks.py Timer)
               "retry",     \* tracking retry            (user/manager.py:666-668)
               "sreply",    \* search-reply delivery     (search/manager.py:213-229)
               "xfer"}      \* a transfer's task         (transfer/manager.py)
\* kinds the library runs by itself
CoreKinds  == {"core",      \* user / transfer management, progress reporting (started in start())
               "ping",      \* server.py: started on CONNECTED, cancelled on CLOSING
               "reader",    \* server reader loop, started after a successful login
               "scan",      \* the start-up share scan (client.py:127-128), while its executor jobs run
               "track",     \* tracking workers of self + friends
               "strack",    \* as-code only: workers started for a session that was lost inside its burst
               "ztrack"}    \* as-code only: ... that was stopped inside its burst (after users.stop())
ConnectKinds == {"pparent", "ctp"}      \* activities that end by opening a peer connection
DerivedKinds == {"users", "rooms", "tracking", "distparams"}

\* cancelled when the server connection goes CLOSING / CLOSED (server.py:61, user/manager.py:712)
DiesWithServer == {"ping", "reader", "track", "retry", "strack"}
\* cancelled by Network.disconnect() (network.py:1183)
DiesWithNetwork == DiesWithServer \cup {"ctp"}
\* cancelled by the services' stop() (client.py:148-150)
DiesWithServices ==
  {"core", "track", "strack", "retry", "sreply"}
    \cup (IF FixQueueOnce THEN {"xfer"} ELSE {})
    \cup (IF FixScanStopped THEN {"scan"} ELSE {})
    \cup (IF FixDistStopped THEN {"pparent"} ELSE {})
    \cup (IF FixTimersStopped THEN {"stimer"} ELSE {})

----------------------------------------------------------------------------
VARIABLES
  cfg,        \* the settings vector
  plan,       \* [burst |-> Burst(cfg), exp |-> Expected(cfg), slow |-> slow start-up scan], fixed in Init
  phase,      \* "new" | "started" | "stopping" | "stopped"
  spc,        \* stop(): "none" | "net" | "netslow" | "svc" | "ret" | "done"
  srv,        \* server connection: "none" | "connecting" | "connected" | "closed"
  reason,     \* why it closed last: "none" | "requested" | "eof" | "error" | "timeout" | "connect_failed"
  session,    \* a session exists
  lpc,        \* login: "idle" | "auto" (reconnected, login owed) | "burst"
  sent,       \* advertisement frames the server has seen since the last successful login
  epi,        \* last loss episode: [had |-> a session existed, n |-> SessionDestroyed events]
  watchdog,   \* "off" | "idle" | "sleeping" | "connecting"
  losses, logins, cfails,     \* budgets
  parent,     \* a live distributed parent link exists (a peer accepted as parent, its connection open)
  lparent,    \* ... at the moment of the last successful login
  lastExec,   \* last execute(): [res |-> "none" | "sent" | "refused", sess |-> session at the call]
  bg,         \* live background activities (kinds)
  open,       \* open connections: "server", "clear", "obf" (listeners), "peer"
  derived     \* server-derived state that is not empty (subset of DerivedKinds)

mvars == <<cfg, plan, parent, lparent, phase, spc, srv, reason, session, lpc, sent, epi, watchdog, losses, logins, cfails, lastExec>>
ovars == <<bg, open, derived>>
vars  == <<mvars, ovars>>

ReasonOf(kind) == CASE kind = "eof" -> "eof" [] kind = "timeout" -> "timeout" [] OTHER -> "error"
Unrequested(r) == r \notin {"none", "requested", "eof"}

Init ==
  /\ cfg \in SettingsSpace
  /\ \E sl \in SlowScan : plan = [burst |-> Burst(cfg), exp |-> Expected(cfg), slow |-> sl]
  /\ phase = "new" /\ spc = "none" /\ srv = "none" /\ reason = "none"
  /\ session = FALSE /\ lpc = "idle" /\ sent = {}
  /\ epi = [had |-> FALSE, n |-> 0]
  /\ watchdog = "off"
  /\ losses = 0 /\ logins = 0 /\ cfails = 0
  /\ lastExec = [res |-> "none", sess |-> FALSE]
  /\ parent = FALSE /\ lparent = FALSE
  /\ bg = {} /\ open = {} /\ derived = {}

----------------------------------------------------------------------------
\* client.py:107-136 start(): services started, listening ports opened, server connected.
\* network.py:1046-1056: the watchdog starts on CONNECTED iff reconnect.auto.
StartCore ==
  /\ phase = "new"
  /\ phase' = "started" /\ srv' = "connected"
  /\ watchdog' = IF cfg.reconnect THEN "idle" ELSE "off"
  /\ UNCHANGED <<cfg, plan, parent, lparent, spc, reason, session, lpc, sent, epi, losses, logins, cfails, lastExec>>
Start ==
  /\ StartCore
  /\ open' = cfg.ports \cup {"server"} /\ UNCHANGED derived
  /\ bg' = {"core", "ping"} \cup (IF plan.slow THEN {"scan"} ELSE {})

\* client.py:164-212 login(): request, synchronous read of the reply, session, SessionInitialized.
\* who = "user": the application calls login(); who = "auto": _on_server_reconnected (client.py:376),
\* which runs in the watchdog's own stretch right after the connect: nothing of the environment is
\* modelled between ReconnectOk and that login (lpc = "auto").
\* A rejected / garbled reply raises out of login(); nothing else changes.
LoginCore(who, mode) ==
  /\ phase = "started" /\ srv = "connected" /\ ~session
  /\ mode \in LoginModes
  /\ \/ who = "user" /\ lpc = "idle" /\ logins < MaxLogins /\ logins' = logins + 1
     \/ who = "auto" /\ lpc = "auto" /\ UNCHANGED logins
  /\ IF mode = "ok"
       THEN session' = TRUE /\ lpc' = "burst" /\ sent' = {} /\ lparent' = parent
       ELSE UNCHANGED <<session, sent, lparent>> /\ lpc' = "idle"
  /\ UNCHANGED <<cfg, plan, parent, phase, spc, srv, reason, epi, watchdog, losses, cfails, lastExec>>
Login(who, mode) == LoginCore(who, mode) /\ UNCHANGED ovars

\* one send of the post-login burst reaches the server
AdvertiseCore(f) ==
  /\ lpc = "burst" /\ session /\ srv = "connected"
  /\ sent' = sent \cup {f}
  /\ UNCHANGED <<cfg, plan, parent, lparent, phase, spc, srv, reason, session, lpc, epi, watchdog, losses, logins, cfails, lastExec>>
\* user/manager.py:467-482 as pinned (FixStaleInit = FALSE): workers left by a session that was lost
\* inside its burst already carry the friend flags, track_friends() requests nothing
Todo0 == SelectSeq(plan.burst, LAMBDA f : ~("strack" \in bg /\ f[1] = "adduser"))
\* distributed.py:255-272: the branch values told are those of the parent the client has at the login
Todo == [i \in 1..Len(Todo0) |-> IF lparent THEN WithParent(Todo0[i]) ELSE Todo0[i]]
BurstLeft == Cardinality(sent) < Len(Todo)
Advertise == BurstLeft /\ AdvertiseCore(Todo[Cardinality(sent) + 1]) /\ UNCHANGED ovars

\* the burst is over (first quiescence after the login); the reader runs, the tracking workers
\* exist, the server's own post-login information has been taken in
BurstEndCore ==
  /\ lpc = "burst" /\ session /\ srv = "connected"
  /\ lpc' = "idle"
  /\ UNCHANGED <<cfg, plan, parent, lparent, phase, spc, srv, reason, session, sent, epi, watchdog, losses, logins, cfails, lastExec>>
BurstEnd ==
  /\ ~BurstLeft /\ BurstEndCore
  /\ bg' = (bg \ {"strack"}) \cup {"reader", "track"} /\ derived' = DerivedKinds /\ UNCHANGED open

\* The server connection is lost (connection.py _read/_send -> disconnect(reason), CLOSING then
\* CLOSED).  client.py:368-374: the session is destroyed (emitted = events seen so far);
\* network.py:1058-1076: REQUESTED / EOF stop the watchdog, anything else leaves it running and
\* it finds the CLOSED connection at its next 0.5 s poll.
CloseCore(r, emitted) ==
  /\ srv' = "closed" /\ reason' = r
  /\ session' = FALSE /\ lpc' = "idle"
  /\ epi' = [had |-> session, n |-> emitted]
  /\ watchdog' = IF watchdog = "off" \/ ~Unrequested(r) THEN "off" ELSE "sleeping"
\* the rest of the SessionInitialized dispatch runs on the dead connection (see FixStaleInit)
StaleInit == ~FixStaleInit /\ lpc = "burst"
CloseObs ==
  /\ open' = open \ {"server"} /\ derived' = {}
  /\ bg' = (bg \ DiesWithServer) \cup (IF StaleInit THEN {"strack"} ELSE {})

ServerLossCore(kind, emitted) ==
  /\ phase = "started" /\ srv = "connected" /\ lpc # "auto"
  /\ kind \in LossKinds /\ losses < MaxLosses /\ losses' = losses + 1
  /\ CloseCore(ReasonOf(kind), emitted)
  /\ UNCHANGED <<cfg, plan, parent, lparent, phase, spc, sent, logins, cfails, lastExec>>
ServerLoss(kind) == ServerLossCore(kind, IF session THEN 1 ELSE 0) /\ CloseObs

\* user/manager.py:712-719 as pinned: the tracking manager's CLOSED handler awaits the tracking
\* workers; when the loss is detected by a worker's own write (AddUser) it awaits the task it runs
\* in, the CLOSED notification never reaches client.py:368 and the session is not destroyed.
ServerLossStuck(kind) ==
  /\ ~FixSelfAwait /\ "track" \in bg /\ kind \in {"wfail", "timeout"} /\ session
  /\ phase = "started" /\ srv = "connected" /\ lpc # "auto"
  /\ kind \in LossKinds /\ losses < MaxLosses /\ losses' = losses + 1
  /\ srv' = "closed" /\ reason' = ReasonOf(kind)
  /\ epi' = [had |-> TRUE, n |-> 0]
  /\ watchdog' = IF watchdog = "off" THEN "off" ELSE "sleeping"
  /\ UNCHANGED <<cfg, plan, parent, lparent, phase, spc, session, lpc, sent, logins, cfails, lastExec>>
  /\ open' = open \ {"server"} /\ UNCHANGED <<bg, derived>>

\* the application disconnects from the server itself (network.py:292 disconnect_server)
UserDisconnectCore(emitted) ==
  /\ phase = "started" /\ srv = "connected" /\ lpc # "auto"
  /\ "userdisc" \in Env /\ (lpc = "burst" => "midburst" \in Env)
  /\ CloseCore("requested", emitted)
  /\ UNCHANGED <<cfg, plan, parent, lparent, phase, spc, sent, losses, logins, cfails, lastExec>>
UserDisconnect == UserDisconnectCore(IF session THEN 1 ELSE 0) /\ CloseObs

\* network.py:377-403 the watchdog: sleep(reconnect.timeout), connect_server()
WatchdogWakeCore ==
  /\ watchdog = "sleeping" /\ srv = "closed"
  /\ watchdog' = "connecting" /\ srv' = "connecting"
  /\ UNCHANGED <<cfg, plan, parent, lparent, phase, spc, reason, session, lpc, sent, epi, losses, logins, cfails, lastExec>>
WatchdogWake == WatchdogWakeCore /\ UNCHANGED ovars

ReconnectOkCore ==
  /\ watchdog = "connecting" /\ srv = "connecting"
  /\ srv' = "connected" /\ watchdog' = "idle" /\ lpc' = "auto"
  /\ UNCHANGED <<cfg, plan, parent, lparent, phase, spc, reason, session, sent, epi, losses, logins, cfails, lastExec>>
ReconnectOk == ReconnectOkCore /\ open' = open \cup {"server"} /\ bg' = bg \cup {"ping"} /\ UNCHANGED derived

ReconnectFailCore ==
  /\ watchdog = "connecting" /\ srv = "connecting"
  /\ cfails < MaxConnFail /\ cfails' = cfails + 1
  /\ srv' = "closed" /\ reason' = "connect_failed" /\ watchdog' = "sleeping"
  /\ UNCHANGED <<cfg, plan, parent, lparent, phase, spc, session, lpc, sent, epi, losses, logins, lastExec>>
ReconnectFail == ReconnectFailCore /\ UNCHANGED ovars

\* client.py:268-283 execute(): refused iff there is no session
ExecuteCore ==
  /\ phase = "started" /\ lastExec.res = "none" /\ lpc = "idle" /\ "exec" \in Env
  /\ lastExec' = [res |-> IF session THEN "sent" ELSE "refused", sess |-> session]
  /\ UNCHANGED <<cfg, plan, parent, lparent, phase, spc, srv, reason, session, lpc, sent, epi, watchdog, losses, logins, cfails>>
Execute == ExecuteCore /\ UNCHANGED ovars

\* client.py:138-156 stop() spans time.  First stretch: network.disconnect() cancels its tasks
\* (connect-to-peer tasks, the watchdog - network.py _cancel_all_tasks) and begins to close the
\* server connection (unless already closed), the listeners and the peer connections with REQUESTED.
\* Design: the watchdog is off from here on whatever the connection state was.
StopBeginCore(emitted) ==
  /\ phase = "started" /\ lpc # "auto" /\ (lpc = "burst" => "midburst" \in Env)
  /\ phase' = "stopping" /\ spc' = "net"
  /\ IF srv \in {"connected", "connecting"}
       THEN /\ srv' = "closed" /\ reason' = "requested"
            /\ epi' = [had |-> session, n |-> emitted]
       ELSE UNCHANGED <<srv, reason, epi>>
  /\ session' = FALSE /\ lpc' = "idle"
  /\ watchdog' = IF (FixWatchdogStopped /\ FixCancelFirst) \/ srv \in {"connected", "connecting"}
                  THEN "off" ELSE watchdog
  /\ parent' = FALSE
  /\ UNCHANGED <<cfg, plan, lparent, sent, losses, logins, cfails, lastExec>>
StopBegin ==
  /\ StopBeginCore(IF session THEN 1 ELSE 0)
  /\ open' = open \ {"server"} /\ derived' = {}
  /\ bg' = (bg \ DiesWithNetwork) \cup (IF StaleInit THEN {"ztrack"} ELSE {})

\* environment: closing the connections takes long (a ConnectionStateChangedEvent listener of the
\* application that suspends - the event bus awaits listeners inline -, a close that waits for its
\* write buffer): timers of the library come due inside stop()
StopStallCore ==
  /\ spc = "net" /\ spc' = "netslow"
  /\ UNCHANGED <<cfg, plan, parent, lparent, phase, srv, reason, session, lpc, sent, epi, watchdog, losses, logins, cfails, lastExec>>
StopStall == StopStallCore /\ UNCHANGED ovars

\* the connections are closed, network.disconnect() returns
StopNetDoneCore ==
  /\ spc \in {"net", "netslow"} /\ spc' = "svc"
  /\ watchdog' = IF FixWatchdogStopped /\ ~FixCancelFirst THEN "off" ELSE watchdog   \* the late cancel
  /\ UNCHANGED <<cfg, plan, parent, lparent, phase, srv, reason, session, lpc, sent, epi, losses, logins, cfails, lastExec>>
StopNetDone ==
  /\ StopNetDoneCore
  /\ open' = (IF srv = "connected" THEN {"server"} ELSE {}) /\ UNCHANGED <<bg, derived>>

\* second stretch: every service's stop(), gather of the cancelled tasks, store_data()
StopServicesCore ==
  /\ spc = "svc" /\ spc' = "ret"
  /\ UNCHANGED <<cfg, plan, parent, lparent, phase, srv, reason, session, lpc, sent, epi, watchdog, losses, logins, cfails, lastExec>>
StopServices == StopServicesCore /\ bg' = bg \ DiesWithServices /\ UNCHANGED <<open, derived>>

StopReturnCore ==
  /\ spc = "ret" /\ spc' = "done" /\ phase' = "stopped"
  /\ UNCHANGED <<cfg, plan, parent, lparent, srv, reason, session, lpc, sent, epi, watchdog, losses, logins, cfails, lastExec>>
StopReturn == StopReturnCore /\ UNCHANGED ovars

\* environment: something makes the library start a background activity
Spawn(k) ==
  /\ phase = "started" /\ session /\ srv = "connected" /\ lpc = "idle"
  /\ k \in BgKinds \ bg /\ Cardinality(bg \cap BgKinds) < MaxBg
  /\ bg' = bg \cup {k}
  /\ UNCHANGED <<mvars, open, derived>>

\* it ends by itself (timeout, failure, timer fired)
Finish(k) ==
  /\ k \in bg \cap (BgKinds \cup {"scan"})
  /\ bg' = bg \ {k}
  /\ UNCHANGED <<mvars, open, derived>>

\* a pending connect completes: a peer connection is open.  Not inside stop(): a connection
\* that is being closed with REQUESTED does not come up afterwards (that contract is C10 / C11's).
PeerOpens(k) ==
  /\ k \in bg \cap ConnectKinds /\ spc \notin {"net", "netslow", "svc", "ret"}
  /\ bg' = bg \ {k} /\ open' = open \cup {"peer"}
  /\ UNCHANGED <<mvars, derived>>

\* a peer connects to one of our listening ports
PeerIn ==
  /\ phase = "started" /\ lpc = "idle" /\ cfg.ports # {} /\ "peer" \notin open /\ "peerin" \in Env
  /\ open' = open \cup {"peer"}
  /\ UNCHANGED <<mvars, bg, derived>>

\* environment: a potential parent proposed by the server is connected and announces its branch
\* level / root: the client has a parent (distributed.py:176-203) and tells the server so
GetParentCore ==
  /\ "parent" \in Env /\ phase = "started" /\ session /\ srv = "connected" /\ lpc = "idle" /\ ~parent
  /\ parent' = TRUE
  /\ UNCHANGED <<cfg, plan, lparent, phase, spc, srv, reason, session, lpc, sent, epi, watchdog, losses, logins, cfails,
                 lastExec>>
GetParent == GetParentCore /\ open' = open \cup {"peer"} /\ UNCHANGED <<bg, derived>>

\* environment: the parent's connection closes - with or without a session (distributed.py:231-250)
ParentDropsCore ==
  /\ phase = "started" /\ parent /\ lpc = "idle"
  /\ parent' = FALSE
  /\ UNCHANGED <<cfg, plan, lparent, phase, spc, srv, reason, session, lpc, sent, epi, watchdog, losses, logins, cfails,
                 lastExec>>
ParentDrops == ParentDropsCore /\ UNCHANGED ovars

Next ==
  \/ GetParent \/ ParentDrops
  \/ Start
  \/ \E m \in LoginModes : Login("user", m) \/ Login("auto", m)
  \/ Advertise \/ BurstEnd
  \/ \E k \in LossKinds : ServerLoss(k) \/ ServerLossStuck(k)
  \/ UserDisconnect
  \/ WatchdogWake \/ ReconnectOk \/ ReconnectFail
  \/ Execute
  \/ StopBegin \/ StopStall \/ StopNetDone \/ StopServices \/ StopReturn
  \/ \E k \in BgKinds : Spawn(k) \/ Finish(k) \/ PeerOpens(k)
  \/ Finish("scan")
  \/ PeerIn

Spec == Init /\ [][Next]_vars
\* for the "eventually reconnects" half of ReconnectIff
FairSpec == Spec /\ WF_vars(WatchdogWake) /\ WF_vars(ReconnectOk \/ ReconnectFail)

----------------------------------------------------------------------------
\* Properties (one line each in the cfg files)

TypeOK ==
  /\ cfg \in SettingsSpace
  /\ phase \in {"new", "started", "stopping", "stopped"} /\ spc \in {"none", "net", "netslow", "svc", "ret", "done"}
  /\ srv \in {"none", "connecting", "connected", "closed"}
  /\ reason \in {"none", "requested", "eof", "error", "timeout", "connect_failed"}
  /\ parent \in BOOLEAN /\ lparent \in BOOLEAN
  /\ session \in BOOLEAN /\ lpc \in {"idle", "auto", "burst"}
  /\ watchdog \in {"off", "idle", "sleeping", "connecting"}
  /\ bg \subseteq (AllBgKinds \cup CoreKinds) /\ open \subseteq (AllPorts \cup {"server", "peer"})
  /\ derived \subseteq DerivedKinds

\* With a slow start-up scan the share counts told at login are those of the moment (0/0, or the
\* real ones if the scan ended first): that one advertisement is then not judged.
Judged(S) == IF plan.slow THEN {f \in S : f[1] # "shares"} ELSE S
\* never told something the settings do not say ...
ExpNow == IF lparent THEN {WithParent(f) : f \in plan.exp} ELSE plan.exp
AdvertisedOnly == Judged(sent) \subseteq Judged(ExpNow)
\* ... and at the first quiescence after a successful login told everything
AdvertisedExactly == (session /\ lpc = "idle" /\ srv = "connected") => Judged(sent) = Judged(ExpNow)

NoCommandWithoutSession == lastExec.res # "none" => ((lastExec.res = "refused") <=> ~lastExec.sess)

\* the session lives on the current server connection only
SessionOnConnection == session => srv = "connected"

DestroyedOncePerLoss == epi.n = (IF epi.had THEN 1 ELSE 0)

DerivedCleared == srv # "connected" => derived = {}

\* ReconnectIff, state half: a reconnect is pending exactly when the settings ask for it, the
\* loss was not requested / EOF, and the client has not been stopped
ReconnectArmed ==
  (srv = "closed" /\ phase = "started" /\ cfg.reconnect /\ Unrequested(reason)) => watchdog = "sleeping"
ReconnectOnlyIf ==
  watchdog \in {"sleeping", "connecting"} => (cfg.reconnect /\ Unrequested(reason) /\ phase = "started")
\* action half: a closed connection is re-opened only by an armed watchdog
ReconnectStep ==
  [][(srv = "closed" /\ srv' = "connecting") =>
       (cfg.reconnect /\ Unrequested(reason) /\ phase = "started")]_vars
\* liveness half (FairSpec): an armed reconnect happens unless the client is stopped / budget
ReconnectHappens ==
  (watchdog = "sleeping") ~> (srv = "connected" \/ phase # "started")

StopIsFinal ==
  phase = "stopped" => (open = {} /\ bg = {} /\ watchdog = "off" /\ srv \in {"closed"} /\ ~session)
=============================================================================

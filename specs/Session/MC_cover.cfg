SPECIFICATION Spec
CONSTANTS
  SettingsSpace <- TinySpace
  LossKinds = {"eof", "reset", "wfail", "timeout"}
  LoginModes = {"ok", "rejected", "garbled"}
  BgKinds = {"pparent", "ctp", "stimer", "retry", "sreply", "xfer"}
  MaxBg = 1
  MaxLosses = 1
  MaxLogins = 1
  SlowScan = {FALSE}
  Env = {"exec", "peerin", "userdisc", "midburst"}
  MaxConnFail = 1
  FixAutoJoin = TRUE
  FixDistStopped = TRUE
  FixWatchdogStopped = TRUE
  FixCancelFirst = TRUE
  FixTimersStopped = TRUE
  FixStaleInit = TRUE
  FixSelfAwait = TRUE
  FixQueueOnce = TRUE
  FixScanStopped = TRUE
INVARIANT TypeOK
INVARIANT AdvertisedOnly
INVARIANT AdvertisedExactly
INVARIANT NoCommandWithoutSession
INVARIANT SessionOnConnection
INVARIANT DestroyedOncePerLoss
INVARIANT DerivedCleared
INVARIANT ReconnectArmed
INVARIANT ReconnectOnlyIf
INVARIANT StopIsFinal
PROPERTY ReconnectStep
CHECK_DEADLOCK FALSE

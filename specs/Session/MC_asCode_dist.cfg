SPECIFICATION Spec
CONSTANTS
  SettingsSpace <- TinySpace
  LossKinds = {"reset", "eof", "wfail"}
  LoginModes = {"ok"}
  BgKinds = {"pparent", "stimer", "xfer"}
  MaxBg = 1
  MaxLosses = 1
  MaxLogins = 1
  SlowScan = {FALSE}
  Env = {"exec", "peerin", "userdisc", "midburst"}
  MaxConnFail = 0
  FixAutoJoin = TRUE
  FixDistStopped = FALSE
  FixWatchdogStopped = TRUE
  FixCancelFirst = TRUE
  FixTimersStopped = TRUE
  FixStaleInit = TRUE
  FixSelfAwait = TRUE
  FixQueueOnce = TRUE
  FixScanStopped = TRUE
INVARIANT TypeOK
INVARIANT AdvertisedOnly
INVARIANT AdvertisedExactly
INVARIANT NoCommandWithoutSession
INVARIANT SessionOnConnection
INVARIANT DestroyedOncePerLoss
INVARIANT DerivedCleared
INVARIANT ReconnectArmed
INVARIANT ReconnectOnlyIf
INVARIANT StopIsFinal
PROPERTY ReconnectStep
CHECK_DEADLOCK FALSE

SPECIFICATION TSpec
CONSTANTS
  SettingsSpace <- TinySpace
  LossKinds = {"eof", "reset", "wfail", "timeout"}
  LoginModes = {"ok", "rejected", "garbled"}
  BgKinds = {"pparent", "ctp", "stimer", "retry", "sreply", "xfer"}
  MaxBg = 99
  MaxLosses = 99
  MaxLogins = 99
  SlowScan = {TRUE, FALSE}
  Env = {"exec", "peerin", "userdisc", "midburst", "parent"}
  MaxConnFail = 99
  FixAutoJoin = TRUE
  FixDistStopped = TRUE
  FixWatchdogStopped = TRUE
  FixCancelFirst = TRUE
  FixTimersStopped = TRUE
  FixStaleInit = TRUE
  FixSelfAwait = TRUE
  MarksMode = FALSE
  FixQueueOnce = TRUE
  FixScanStopped = TRUE
INVARIANT Adv_listen
INVARIANT Adv_status
INVARIANT Adv_shares
INVARIANT Adv_friends
INVARIANT Adv_liked
INVARIANT Adv_hated
INVARIANT Adv_invites
INVARIANT Adv_join
INVARIANT Adv_branch
INVARIANT NoCommandWithoutSession
INVARIANT ExecWire
INVARIANT SessionOnConnection
INVARIANT DestroyedOncePerLossT
INVARIANT SessionField
INVARIANT DerivedClearedT
INVARIANT ReconnectOnlyIf
INVARIANT ReconnectInTime
INVARIANT LoginFollows
INVARIANT StopIsFinalT
CHECK_DEADLOCK TRUE

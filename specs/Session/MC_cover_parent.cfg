SPECIFICATION Spec
CONSTANTS
  SettingsSpace <- TinySpace
  LossKinds = {"reset", "eof"}
  LoginModes = {"ok", "rejected"}
  BgKinds = {}
  MaxBg = 1
  MaxLosses = 2
  MaxLogins = 1
  SlowScan = {FALSE}
  Env = {"parent"}
  MaxConnFail = 0
  FixAutoJoin = TRUE
  FixDistStopped = TRUE
  FixWatchdogStopped = TRUE
  FixCancelFirst = TRUE
  FixTimersStopped = TRUE
  FixStaleInit = TRUE
  FixSelfAwait = TRUE
  FixQueueOnce = TRUE
  FixScanStopped = TRUE
INVARIANT TypeOK
INVARIANT AdvertisedOnly
INVARIANT AdvertisedExactly
INVARIANT NoCommandWithoutSession
INVARIANT SessionOnConnection
INVARIANT DestroyedOncePerLoss
INVARIANT DerivedCleared
INVARIANT ReconnectArmed
INVARIANT ReconnectOnlyIf
INVARIANT StopIsFinal
PROPERTY ReconnectStep
CHECK_DEADLOCK FALSE

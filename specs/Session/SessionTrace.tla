---------------------------- MODULE SessionTrace ----------------------------
(***************************************************************************)
(* Trace validation for C16: executions of a real SoulSeekClient on the    *)
(* simulated network (harness/props/c16.py) are checked against Session.   *)
(*                                                                         *)
(* Records (JSON, every record has ev and t = virtual ms since the start): *)
(*   init      settings vector (abstract names), shares = counts on disk,  *)
(*             slowscan = the start-up scan is held by the harness,        *)
(*             T = reconnect timeout (ms), slack                           *)
(*   conn      st, reason      ConnectionStateChangedEvent of the server   *)
(*                             connection                                  *)
(*   link      to              a simulated socket was opened               *)
(*                             (server | peer | in = dialled by harness)   *)
(*   frame     f [, mode]      request frame seen by the scripted server;  *)
(*                             f[1] = "login" carries the reply mode       *)
(*   sinit / sdestroy          SessionInitialized / SessionDestroyed event *)
(*   login_call / login_ret    res = ok | auth | exc                       *)
(*   inject    kind            the harness broke the server connection     *)
(*   userdisc_call / userdisc_ret                                          *)
(*   exec_call / exec          execute(): res = sent | refused | exc,      *)
(*                             arr = the frame was seen by the server      *)
(*   spawn     kind            the harness caused a background activity    *)
(*   stop_call / stop_ret      stop_ret carries a snapshot                 *)
(*   stall     on, st, d       inside stop(): a close is being held for d  *)
(*                             ms (records of what happens meanwhile follow)*)
(*   start                     start() returned, with snapshot             *)
(*   q                         quiescent snapshot: session, srvst,         *)
(*                             derived, tasks, open                        *)
(*   note                      free text, ignored                          *)
(*                                                                         *)
(* Model variables (mvars) move by the Core actions of Session; bg / open /*)
(* derived are bound from the snapshots.  The properties are CONSTRAINTs   *)
(* in Trace.cfg and INVARIANTs in TraceDiag.cfg.                           *)
(***************************************************************************)
EXTENDS Session, Json, IOUtils

CONSTANT MarksMode   \* FALSE: Trace.cfg / TraceDiag.cfg (properties cut / are checked);
                     \* TRUE: TraceMarks.cfg - nothing is cut, Done reports `viol` (used to name
                     \* everything that is wrong with a trace Trace.cfg has rejected)

Traces == JsonDeserialize(IOEnv.TRACE_FILE)

VARIABLES tid, l,
          now,      \* time of the last consumed record
          wdDue,    \* a reconnect attempt must have begun by then (0 = none owed)
          pend,     \* loss injected by the harness, not yet seen as CLOSED by the client
          atq,      \* the last record was a quiescent snapshot
          lst,      \* "none" | "called": a login() call of the application is in progress
          lmode,    \* reply mode of the login request the server saw last ("none" = consumed)
          gotS,     \* a session was initialised during the current login() call
          udc,      \* disconnect_server() of the application is in progress
          clsg,     \* CLOSING of the connected server connection seen, CLOSED not yet
          early,    \* SessionDestroyed events seen between that CLOSING and CLOSED
          xc,       \* execute() in progress: [on, sess = a session existed at the call, clean = no loss pending]
          obsS,     \* SoulSeekClient.session was set at the last snapshot
          viol,     \* names of the property instances that were false in some state of the path
          told      \* MarksMode: the part of viol already reported

tvars == <<vars, tid, l, now, wdDue, pend, atq, lst, lmode, gotS, udc, clsg, early, xc, obsS, viol, told>>
xvars == <<wdDue, pend, lst, lmode, gotS, udc, clsg, early, xc>>

T == Traces[tid]
Rec == T[l]
I0 == Traces[tid][1]

ToSet(s) == {s[i] : i \in 1..Len(s)}

TInit ==
  /\ tid \in 1..Len(Traces)
  /\ l = 2
  /\ Len(Traces[tid]) >= 1 /\ Traces[tid][1].ev = "init"
  /\ cfg = [ports |-> ToSet(I0.ports), friends |-> ToSet(I0.friends), liked |-> ToSet(I0.liked),
            hated |-> ToSet(I0.hated), favs |-> ToSet(I0.favs), autoJoin |-> I0.autoJoin,
            invites |-> I0.invites, reconnect |-> I0.reconnect, shares |-> I0.shares]
  /\ plan = [burst |-> <<>>, exp |-> Expected(cfg), slow |-> I0.slowscan]
  /\ parent = FALSE /\ lparent = FALSE
  /\ phase = "new" /\ spc = "none" /\ srv = "none" /\ reason = "none"
  /\ session = FALSE /\ lpc = "idle" /\ sent = {}
  /\ epi = [had |-> FALSE, n |-> 0]
  /\ watchdog = "off"
  /\ losses = 0 /\ logins = 0 /\ cfails = 0
  /\ lastExec = [res |-> "none", sess |-> FALSE, arr |-> FALSE, clean |-> TRUE]
  /\ bg = {} /\ open = {} /\ derived = {}
  /\ now = 0 /\ wdDue = 0 /\ pend = "none" /\ atq = FALSE
  /\ lst = "none" /\ lmode = "none" /\ gotS = FALSE /\ udc = FALSE /\ obsS = FALSE
  /\ xc = [on |-> FALSE, sess |-> FALSE, clean |-> TRUE]
  /\ clsg = FALSE /\ early = 0
  /\ viol = {} /\ told = {}

\* The two silent steps are urgent: no record is consumed while one of them is enabled, so a
\* trace has one path through the spec and a rejection names the real reason.
AutoFailPending == lpc = "auto" /\ lmode \in {"rejected", "garbled"}
\* stop() is about to return: the connections are closed, then the services are stopped
NetDonePending == spc \in {"net", "netslow"} /\ l <= Len(T) /\ Rec.ev = "stop_ret"
SilentPending == AutoFailPending \/ spc = "svc" \/ NetDonePending
IsEv(e) == l <= Len(T) /\ Rec.ev = e /\ ~SilentPending
Consume == l' = l + 1 /\ now' = Rec.t /\ UNCHANGED tid
NotQ == atq' = FALSE /\ obsS' = obsS
Snap == /\ bg' = ToSet(Rec.tasks) /\ open' = ToSet(Rec.open) /\ derived' = ToSet(Rec.derived)
        /\ obsS' = Rec.session /\ atq' = TRUE

\* the watchdog polls every 0.5 s and then sleeps reconnect.timeout
Due == Rec.t + I0.T + 500 + I0.slack

----------------------------------------------------------------------------
\* start(): the connection events before it returns are part of Start
TPreStart ==
  /\ phase = "new" /\ (IsEv("conn") \/ IsEv("link"))
  /\ UNCHANGED <<vars, xvars>> /\ NotQ /\ Consume

TStart ==
  /\ IsEv("start") /\ Rec.res = "ok" /\ Rec.srvst = "connected"
  /\ StartCore /\ Snap
  /\ UNCHANGED xvars /\ Consume

\* login() of the application
TLoginCall ==
  /\ IsEv("login_call") /\ phase = "started" /\ lst = "none"
  /\ lst' = "called" /\ gotS' = FALSE /\ lmode' = "none"
  /\ UNCHANGED <<vars, wdDue, pend, udc, clsg, early, xc>> /\ NotQ /\ Consume

\* the server saw a login request and answered in mode Rec.mode
TFrameLogin ==
  /\ IsEv("frame") /\ Rec.f[1] = "login"
  /\ srv = "connected" /\ (lst = "called" \/ lpc = "auto")
  /\ lmode' = Rec.mode
  /\ UNCHANGED <<vars, wdDue, pend, lst, gotS, udc, clsg, early, xc>> /\ NotQ /\ Consume

\* a session exists only after the server accepted the login on this connection
TSinit ==
  /\ IsEv("sinit") /\ lmode = "ok"
  /\ \/ lst = "called" /\ lpc = "idle" /\ LoginCore("user", "ok")
     \/ lpc = "auto" /\ LoginCore("auto", "ok")
  /\ lmode' = "none" /\ gotS' = TRUE
  /\ UNCHANGED <<ovars, wdDue, pend, lst, udc, clsg, early, xc>> /\ NotQ /\ Consume

TLoginRet ==
  /\ IsEv("login_ret") /\ lst = "called"
  /\ \/ /\ Rec.res = "ok" /\ gotS                       \* returned normally: a session was created
        /\ UNCHANGED vars /\ lmode' = lmode
     \/ /\ Rec.res = "auth" /\ lmode = "rejected" /\ ~gotS
        /\ LoginCore("user", "rejected") /\ UNCHANGED ovars /\ lmode' = "none"
     \/ /\ Rec.res = "exc" /\ lmode = "garbled" /\ ~gotS
        /\ LoginCore("user", "garbled") /\ UNCHANGED ovars /\ lmode' = "none"
     \/ /\ Rec.res = "exc" /\ ~gotS /\ (srv # "connected" \/ pend # "none")   \* the connection broke under it
        /\ UNCHANGED vars /\ lmode' = "none"
  /\ lst' = "none" /\ gotS' = FALSE
  /\ UNCHANGED <<wdDue, pend, udc, clsg, early, xc>> /\ NotQ /\ Consume

\* the automatic login after a reconnect was answered with a refusal / garbage: it raises inside
\* the event handler, nothing to see (silent, finite: lpc leaves "auto")
AutoLoginFails ==
  /\ l <= Len(T) + 1 /\ AutoFailPending
  /\ LoginCore("auto", lmode) /\ lmode' = "none"
  /\ UNCHANGED <<ovars, tid, l, now, wdDue, pend, atq, lst, gotS, udc, clsg, early, xc, obsS>>

\* an advertisement frame: counts for the burst of the current session, up to its first quiescence
TFrameAdvert ==
  /\ IsEv("frame") /\ Rec.f[1] \in AdvertKinds
  /\ IF lpc = "burst" /\ session /\ srv = "connected"
       THEN AdvertiseCore(Rec.f)
       ELSE UNCHANGED mvars
  /\ UNCHANGED <<ovars, xvars>> /\ NotQ /\ Consume

TFrameOther ==
  /\ IsEv("frame") /\ Rec.f[1] = "other"
  /\ UNCHANGED <<vars, xvars>> /\ NotQ /\ Consume

TInject ==
  /\ IsEv("inject") /\ pend = "none" /\ srv = "connected"
  /\ pend' = Rec.kind
  /\ UNCHANGED <<vars, wdDue, lst, lmode, gotS, udc, clsg, early, xc>> /\ NotQ /\ Consume

KindOfReason(r) == CASE r = "eof" -> "eof" [] r = "timeout" -> "timeout" [] OTHER -> "reset"

\* CLOSING: the reason comes again with CLOSED; remembered so that a SessionDestroyed emitted
\* already now (the statement does not say at which of the two notifications) is counted
TConnClosing ==
  /\ IsEv("conn") /\ Rec.st = "closing" /\ phase # "new"
  /\ clsg' = (clsg \/ (phase = "started" /\ srv = "connected"))
  /\ UNCHANGED <<vars, wdDue, pend, lst, lmode, gotS, udc, early, xc>> /\ NotQ /\ Consume

\* CLOSED of a connected server connection: a loss (of the injected kind if the harness injected
\* one, else of the kind the client reports) or the application's own disconnect
TConnClosed ==
  /\ IsEv("conn") /\ Rec.st = "closed" /\ phase = "started" /\ srv = "connected"
  /\ IF udc /\ Rec.reason = "requested"
       THEN UserDisconnectCore(early) /\ UNCHANGED pend
       ELSE /\ Rec.reason # "requested"
            /\ ServerLossCore(IF pend # "none" THEN pend ELSE KindOfReason(Rec.reason), early)
            /\ pend' = "none"
  /\ wdDue' = IF watchdog' = "sleeping" THEN Due ELSE 0
  /\ clsg' = FALSE /\ early' = 0
  /\ UNCHANGED <<ovars, lst, lmode, gotS, udc, xc>> /\ NotQ /\ Consume

\* the watchdog's connect attempt begins / succeeds / fails
TConnConnecting ==
  /\ IsEv("conn") /\ Rec.st = "connecting" /\ phase # "new"
  /\ WatchdogWakeCore /\ wdDue' = 0
  /\ UNCHANGED <<ovars, pend, lst, lmode, gotS, udc, clsg, early, xc>> /\ NotQ /\ Consume

\* the socket of a reconnect attempt (whether it is opened before or after CONNECTING is reported)
TLinkServer ==
  /\ IsEv("link") /\ Rec.to = "server" /\ phase # "new"
  /\ srv = "connecting" \/ (srv = "closed" /\ watchdog = "sleeping")
  /\ UNCHANGED <<vars, xvars>> /\ NotQ /\ Consume

TConnConnected ==
  /\ IsEv("conn") /\ Rec.st = "connected" /\ phase # "new"
  /\ ReconnectOkCore /\ lmode' = "none"
  /\ UNCHANGED <<ovars, wdDue, pend, lst, gotS, udc, clsg, early, xc>> /\ NotQ /\ Consume

TConnFailed ==
  /\ IsEv("conn") /\ Rec.st = "closed" /\ phase = "started" /\ srv = "connecting"
  /\ Rec.reason = "connect_failed"
  /\ ReconnectFailCore /\ wdDue' = Due
  /\ UNCHANGED <<ovars, pend, lst, lmode, gotS, udc, clsg, early, xc>> /\ NotQ /\ Consume

\* CLOSED events while stop() runs, or after it, change nothing (stop_call closed the model's
\* connection already)
TConnClosedLate ==
  /\ IsEv("conn") /\ Rec.st = "closed" /\ phase \in {"stopping", "stopped"}
  /\ UNCHANGED <<vars, xvars>> /\ NotQ /\ Consume

TSdestroy ==
  /\ IsEv("sdestroy")
  /\ \/ /\ srv = "closed"
        /\ epi' = [epi EXCEPT !.n = @ + 1] /\ early' = early
     \/ /\ srv = "connected" /\ clsg /\ session
        /\ early' = early + 1 /\ epi' = epi
  /\ UNCHANGED <<cfg, plan, parent, lparent, phase, spc, srv, reason, session, lpc, sent, watchdog, losses, logins, cfails, lastExec,
                 ovars, wdDue, pend, lst, lmode, gotS, udc, clsg, xc>>
  /\ NotQ /\ Consume

\* a peer socket was opened (by the library, or by the harness dialling a listening port)
TLinkPeer ==
  /\ IsEv("link") /\ Rec.to \in {"peer", "in"} /\ phase # "new"
  /\ open' = open \cup {"peer"}
  /\ UNCHANGED <<mvars, bg, derived, xvars>> /\ NotQ /\ Consume

TUserDiscCall ==
  /\ IsEv("userdisc_call") /\ phase = "started" /\ ~udc /\ udc' = TRUE
  /\ UNCHANGED <<vars, wdDue, pend, lst, lmode, gotS, clsg, early, xc>> /\ NotQ /\ Consume
TUserDiscRet ==
  /\ IsEv("userdisc_ret") /\ udc /\ Rec.res = "ok" /\ udc' = FALSE
  /\ UNCHANGED <<vars, wdDue, pend, lst, lmode, gotS, clsg, early, xc>> /\ NotQ /\ Consume

\* execute(): the model supplies whether a session exists when it is called, the record of the
\* return what happened
TExecCall ==
  /\ IsEv("exec_call") /\ phase = "started" /\ ~xc.on
  /\ xc' = [on |-> TRUE, sess |-> session, clean |-> (pend = "none" /\ srv = "connected")]
  /\ UNCHANGED <<vars, wdDue, pend, lst, lmode, gotS, udc, clsg, early>> /\ NotQ /\ Consume
TExec ==
  /\ IsEv("exec") /\ xc.on
  /\ lastExec' = [res |-> Rec.res, sess |-> xc.sess, arr |-> Rec.arr, clean |-> xc.clean]
  /\ xc' = [xc EXCEPT !.on = FALSE]
  /\ UNCHANGED <<cfg, plan, parent, lparent, phase, spc, srv, reason, session, lpc, sent, epi, watchdog, losses, logins, cfails,
                 ovars, wdDue, pend, lst, lmode, gotS, udc, clsg, early>>
  /\ NotQ /\ Consume

\* the harness saw the client take its scripted peer as parent / the link to that peer close
TParentUp ==
  /\ IsEv("parent_up") /\ ~parent /\ parent' = TRUE
  /\ UNCHANGED <<cfg, plan, lparent, phase, spc, srv, reason, session, lpc, sent, epi, watchdog, losses, logins, cfails,
                 lastExec, ovars, xvars>>
  /\ NotQ /\ Consume
TParentDown ==
  /\ IsEv("parent_down") /\ parent' = FALSE
  /\ UNCHANGED <<cfg, plan, lparent, phase, spc, srv, reason, session, lpc, sent, epi, watchdog, losses, logins, cfails,
                 lastExec, ovars, xvars>>
  /\ NotQ /\ Consume

TSpawn ==
  /\ IsEv("spawn") /\ UNCHANGED <<vars, xvars>> /\ NotQ /\ Consume
TNote ==
  /\ IsEv("note") /\ UNCHANGED <<vars, xvars, atq, obsS>> /\ Consume

TStopCall ==
  /\ IsEv("stop_call")
  /\ StopBeginCore(0)
  /\ wdDue' = 0 /\ pend' = "none"
  /\ UNCHANGED <<ovars, lst, lmode, gotS, udc, clsg, early, xc>> /\ NotQ /\ Consume

\* closing the connections takes long (the harness' slow listener suspended on a report)
TStall ==
  /\ IsEv("stall") /\ StopStallCore
  /\ UNCHANGED <<ovars, xvars>> /\ NotQ /\ Consume

StopNetDoneSilent ==
  /\ NetDonePending /\ StopNetDoneCore
  /\ UNCHANGED <<ovars, tid, l, now, atq, obsS, xvars>>

StopServicesSilent ==
  /\ l <= Len(T) + 1 /\ StopServicesCore
  /\ UNCHANGED <<ovars, tid, l, now, atq, obsS, xvars>>

TStopRet ==
  /\ IsEv("stop_ret") /\ Rec.res = "ok"
  /\ StopReturnCore /\ Snap
  /\ UNCHANGED xvars /\ Consume

\* quiescence: a burst that ran to quiescence is over
TQ ==
  /\ IsEv("q") /\ phase # "new"
  /\ IF lpc = "burst" /\ session /\ srv = "connected" /\ pend = "none" /\ lst = "none"
       THEN BurstEndCore ELSE UNCHANGED mvars
  /\ Snap
  /\ UNCHANGED xvars /\ Consume

Done ==
  /\ l = Len(T) + 1 /\ ~SilentPending
  /\ PrintT(<<"ACCEPT", tid, viol>>)
  /\ l' = Len(T) + 2
  /\ UNCHANGED <<vars, tid, now, atq, obsS, xvars>>

\* MarksMode: say what is wrong as soon as it is known (a trace that later contains a record no
\* action explains would otherwise take its findings with it)
Report ==
  /\ MarksMode /\ viol # told
  /\ PrintT(<<"ACCEPT", tid, viol>>)
  /\ UNCHANGED <<vars, tid, l, now, atq, obsS, xvars>>

Finished == l = Len(T) + 2 /\ UNCHANGED tvars

TStep ==
  \/ TPreStart \/ TStart
  \/ TLoginCall \/ TFrameLogin \/ TSinit \/ TLoginRet \/ AutoLoginFails
  \/ TFrameAdvert \/ TFrameOther
  \/ TInject \/ TConnClosing \/ TConnClosed \/ TConnConnecting \/ TLinkServer \/ TConnConnected
  \/ TConnFailed \/ TConnClosedLate \/ TSdestroy \/ TLinkPeer
  \/ TUserDiscCall \/ TUserDiscRet \/ TExecCall \/ TExec \/ TParentUp \/ TParentDown \/ TSpawn \/ TNote
  \/ TStopCall \/ TStall \/ StopNetDoneSilent \/ StopServicesSilent \/ TStopRet \/ TQ
  \/ Done

----------------------------------------------------------------------------
\* The properties on traces.  AdvertisedOnly, NoCommandWithoutSession and SessionOnConnection are
\* Session's formulas as they stand.

\* first quiescence after a successful login (TQ ended the burst): everything was told.  One
\* formula per advertisement kind so that a rejection names what is wrong.
AtFirstQ == session /\ lpc = "idle" /\ srv = "connected"
Of(S, k) == {f \in S : f[1] = k}
AdvKind(k) == \/ k = "shares" /\ plan.slow      \* not judged while the start-up scan may be in flight
              \/ /\ Of(sent, k) \subseteq Of(ExpNow, k)
                 /\ AtFirstQ => Of(sent, k) = Of(ExpNow, k)
Adv_listen  == AdvKind("listen")
Adv_status  == AdvKind("status")
Adv_shares  == AdvKind("shares")
Adv_friends == AdvKind("adduser")
Adv_liked   == AdvKind("like")
Adv_hated   == AdvKind("hate")
Adv_invites == AdvKind("invites")
Adv_join    == AdvKind("join")
Adv_branch  == AdvKind("level") /\ AdvKind("root") /\ AdvKind("psearch")
AdvertisedExactlyT == \A k \in AdvertKinds : AdvKind(k)

\* the refused command did not reach the server; a command with a session on a healthy
\* connection did
ExecWire ==
  lastExec.res # "none" =>
     /\ lastExec.res = "refused" => ~lastExec.arr
     /\ (lastExec.sess /\ lastExec.clean) => (lastExec.res = "sent" /\ lastExec.arr)

\* SoulSeekClient.session is set iff a session exists (client.py:64: "present iff logged in on the
\* current server connection")
SessionField == atq => (obsS <=> session)

DestroyedOncePerLossT ==
  /\ epi.n <= (IF epi.had THEN 1 ELSE 0)
  /\ atq => DestroyedOncePerLoss

DerivedClearedT == atq => DerivedCleared

\* ReconnectIff, "if" half as a bounded wait: the armed watchdog begins to connect in time
ReconnectInTime == wdDue # 0 => now <= wdDue
\* the login follows the new connection
LoginFollows == atq => lpc # "auto"
\* ("only if" half: TConnConnecting is the only way to a new connection, and needs the armed
\*  watchdog - ReconnectOnlyIf says when it may be armed)

StopIsFinalT ==
  phase = "stopped" => (open = {} /\ (atq => bg = {}) /\ watchdog = "off" /\ ~session /\ (atq => ~obsS))

\* every property instance that is false in the current state, by name
Violated ==
  {"AdvertisedExactly:" \o k : k \in {x \in AdvertKinds : ~AdvKind(x)}}
    \cup (IF NoCommandWithoutSession /\ ExecWire THEN {} ELSE {"NoCommandWithoutSession"})
    \cup (IF SessionOnConnection THEN {} ELSE {"SessionOnConnection"})
    \cup (IF SessionField THEN {} ELSE {"SessionField"})
    \cup (IF epi.n > (IF epi.had THEN 1 ELSE 0) THEN {"DestroyedOncePerLoss:repeated"} ELSE {})
    \cup (IF atq /\ epi.n < (IF epi.had THEN 1 ELSE 0) THEN {"DestroyedOncePerLoss:missing"} ELSE {})
    \cup (IF DerivedClearedT THEN {} ELSE {"DerivedCleared:" \o k : k \in derived})
    \cup (IF ReconnectOnlyIf THEN {} ELSE {"ReconnectIff:armed-when-it-must-not"})
    \cup (IF ReconnectInTime THEN {} ELSE {"ReconnectIff:no-reconnect-in-time"})
    \cup (IF LoginFollows THEN {} ELSE {"ReconnectIff:no-login-after-reconnect"})
    \cup (IF phase = "stopped" /\ atq THEN {"StopIsFinal:pending:" \o k : k \in bg} ELSE {})
    \cup (IF phase = "stopped" THEN {"StopIsFinal:open-after-stop:" \o k : k \in open} ELSE {})
    \cup (IF phase = "stopped" /\ atq /\ obsS THEN {"StopIsFinal:session-after-stop"} ELSE {})

TNext ==
  \/ TStep /\ viol' = viol \cup Violated' /\ told' = told
  \/ Report /\ viol' = viol /\ told' = viol
  \/ Finished

TSpec == TInit /\ [][TNext]_tvars
=============================================================================

------------------------------ MODULE EventBus ------------------------------
(***************************************************************************)
(* X01 (beyond the listed properties) - the event bus every manager hangs   *)
(* off: src/aioslsk/events.py EventBus.register / unregister / emit.        *)
(*                                                                         *)
(* Listeners are held weakly and kept sorted by priority (stable).  emit    *)
(* takes a snapshot of the live listeners, then calls them in order; an     *)
(* exception in one listener does not stop the others.  A listener body may *)
(* itself register or unregister listeners (managers do this while          *)
(* handling session events); that affects later emissions only.             *)
(***************************************************************************)
EXTENDS Naturals, Sequences, FiniteSets, TLC

CONSTANTS Listeners,   \* listener ids
          Prios,       \* priorities
          MaxEmits

Behaviours == {<<"ok">>, <<"raise">>} \cup {<<"reg", x, p>> : x \in Listeners, p \in Prios} \cup {<<"unreg", x>> : x \in Listeners}

VARIABLES reg,      \* registered entries, a sequence of [id, prio], sorted by prio, stable
          alive,    \* listeners still strongly referenced by their owner
          beh,      \* what each listener's body does when called
          snap,     \* snapshot of the emission in progress (sequence of ids), <<>> if none
          idx,      \* next snapshot position to call
          calls,    \* calls made in the emission in progress / last emission
          emits     \* number of emissions started

vars == <<reg, alive, beh, snap, idx, calls, emits>>

Ids(s) == {s[i].id : i \in DOMAIN s}

\* insert keeping the sequence sorted by priority, after all entries with priority <= p
Insert(s, e) ==
  LET k == Cardinality({i \in DOMAIN s : s[i].prio <= e.prio})
  IN SubSeq(s, 1, k) \o <<e>> \o SubSeq(s, k + 1, Len(s))

Remove(s, x) == SelectSeq(s, LAMBDA e : e.id # x)

Init ==
  /\ reg = <<>> /\ alive = Listeners /\ snap = <<>> /\ idx = 1 /\ calls = <<>> /\ emits = 0
  \* at most one listener whose body (un)registers another one; the others return or raise
  /\ \E sp \in Listeners : beh \in [Listeners -> Behaviours] /\ \A x \in Listeners \ {sp} : beh[x] \in {<<"ok">>, <<"raise">>}

Idle == snap = <<>>

\* events.py:126-143
Register(x, p) ==
  /\ Idle /\ x \in alive /\ x \notin Ids(reg)
  /\ reg' = Insert(reg, [id |-> x, prio |-> p])
  /\ UNCHANGED <<alive, beh, snap, idx, calls, emits>>

\* events.py:145-155
Unregister(x) ==
  /\ Idle /\ x \in Ids(reg)
  /\ reg' = Remove(reg, x)
  /\ UNCHANGED <<alive, beh, snap, idx, calls, emits>>

\* the owner drops its last strong reference: the weakref callback removes the entry
Kill(x) ==
  /\ Idle /\ x \in alive
  /\ alive' = alive \ {x}
  /\ reg' = Remove(reg, x)
  /\ UNCHANGED <<beh, snap, idx, calls, emits>>

\* events.py:157-173  snapshot = the live registered listeners, in order
EmitBegin ==
  /\ Idle /\ emits < MaxEmits /\ reg # <<>>
  /\ snap' = [i \in DOMAIN reg |-> reg[i].id]
  /\ idx' = 1 /\ calls' = <<>> /\ emits' = emits + 1
  /\ UNCHANGED <<reg, alive, beh>>

\* one listener is called; whatever it does, the emission goes on
CallNext ==
  /\ ~Idle /\ idx <= Len(snap)
  /\ LET x == snap[idx] b == beh[x] IN
       /\ calls' = Append(calls, x)
       /\ reg' = IF b[1] \in {"ok", "raise"} THEN reg
                 ELSE IF b[1] = "reg" THEN (IF b[2] \in alive /\ b[2] \notin Ids(reg)
                                            THEN Insert(reg, [id |-> b[2], prio |-> b[3]]) ELSE reg)
                 ELSE Remove(reg, b[2])
  /\ idx' = idx + 1
  /\ UNCHANGED <<alive, beh, snap, emits>>

EmitEnd ==
  /\ ~Idle /\ idx > Len(snap)
  /\ snap' = <<>> /\ idx' = 1
  /\ UNCHANGED <<reg, alive, beh, calls, emits>>

Next ==
  \/ \E x \in Listeners, p \in Prios : Register(x, p)
  \/ \E x \in Listeners : Unregister(x) \/ Kill(x)
  \/ EmitBegin \/ CallNext \/ EmitEnd

Spec == Init /\ [][Next]_vars

----------------------------------------------------------------------------
Sorted == \A i, j \in DOMAIN reg : i < j => reg[i].prio <= reg[j].prio
NoDuplicates == \A i, j \in DOMAIN reg : i # j => reg[i].id # reg[j].id
OnlyLive == Ids(reg) \subseteq alive

\* during an emission the calls made so far are exactly the snapshot prefix: nobody skipped
\* (exception isolation), nobody added (late registrations wait for the next emission)
CallsFollowSnapshot == ~Idle => calls = SubSeq(snap, 1, idx - 1)
\* a finished emission called the whole snapshot
CompleteEmission == [][(~Idle /\ Idle') => calls = snap]_vars
=============================================================================

SPECIFICATION TSpec
CONSTANTS
  Listeners = {1, 2, 3}
  Prios = {1, 2}
  MaxEmits = 1000
CONSTRAINT Sorted
CONSTRAINT NoDuplicates
CONSTRAINT OnlyLive
CONSTRAINT CallsFollowSnapshot
CHECK_DEADLOCK FALSE

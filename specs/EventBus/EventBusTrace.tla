--------------------------- MODULE EventBusTrace ---------------------------
(* Trace validation of the real aioslsk.events.EventBus against EventBus.   *)
(* Records: init(beh), register(x,p), unregister(x), kill(x), emit_begin,   *)
(* call(x), emit_end - written by harness/props/x01.py.                     *)
EXTENDS EventBus, Json, IOUtils

Traces == JsonDeserialize(IOEnv.TRACE_FILE)
VARIABLES tid, l
tvars == <<vars, tid, l>>
T == Traces[tid]
Rec == T[l]

\* behaviours are logged as sequences: <<"ok">>, <<"raise">>, <<"reg", x, p>>, <<"unreg", x>>
TInit ==
  /\ tid \in 1..Len(Traces)
  /\ l = 2
  /\ Traces[tid][1].ev = "init"
  /\ reg = <<>> /\ alive = Listeners /\ snap = <<>> /\ idx = 1 /\ calls = <<>> /\ emits = 0
  /\ beh = [x \in Listeners |-> Traces[tid][1].beh[x]]

IsEv(e) == l <= Len(T) /\ Rec.ev = e
Consume == l' = l + 1 /\ UNCHANGED tid

TRegister == IsEv("register") /\ Register(Rec.x, Rec.p) /\ Consume
TUnregister == IsEv("unregister") /\ Unregister(Rec.x) /\ Consume
TKill == IsEv("kill") /\ Kill(Rec.x) /\ Consume
TEmitBegin ==
  /\ IsEv("emit_begin")
  /\ IF reg = <<>> THEN Idle /\ UNCHANGED vars ELSE EmitBegin
  /\ Consume
TCall == IsEv("call") /\ ~Idle /\ idx <= Len(snap) /\ Rec.x = snap[idx] /\ CallNext /\ Consume
TEmitEnd ==
  /\ IsEv("emit_end")
  /\ IF Idle THEN UNCHANGED vars ELSE EmitEnd
  /\ Consume

Done == l = Len(T) + 1 /\ PrintT(<<"ACCEPT", tid, {}>>) /\ l' = l + 1 /\ UNCHANGED <<vars, tid>>
Finished == l = Len(T) + 2 /\ UNCHANGED tvars

TNext == TRegister \/ TUnregister \/ TKill \/ TEmitBegin \/ TCall \/ TEmitEnd \/ Done \/ Finished
TSpec == TInit /\ [][TNext]_tvars
=============================================================================

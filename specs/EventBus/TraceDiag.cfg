SPECIFICATION TSpec
CONSTANTS
  Listeners = {1, 2, 3}
  Prios = {1, 2}
  MaxEmits = 1000
INVARIANT Sorted
INVARIANT NoDuplicates
INVARIANT OnlyLive
INVARIANT CallsFollowSnapshot
CHECK_DEADLOCK TRUE

SPECIFICATION Spec
CONSTANTS
  Listeners = {1, 2, 3}
  Prios = {1, 2}
  MaxEmits = 2
INVARIANT Sorted
INVARIANT NoDuplicates
INVARIANT OnlyLive
INVARIANT CallsFollowSnapshot
PROPERTY CompleteEmission
CHECK_DEADLOCK FALSE

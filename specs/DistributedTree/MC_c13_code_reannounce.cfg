SPECIFICATION Spec
CONSTANTS
  P = {"p1", "p2", "p3"}
  Me = "me"
  ExtRoots = {"r1"}
  MaxLevel = 1
  AcceptMax <- MC_AcceptMax
  InitMax = 5
  AllowSlow = TRUE
  ParamKinds = {}
  Disabled = {}
  MaxEvents = 5
  Askers = {"me", "u1"}
  Queries = {"qhit", "qmiss"}
  Hits <- MC_Hits
  HitsX <- MC_HitsX
  MaxSearches = 0
  FixReannounce = FALSE
  FixChildParent = TRUE
  FixAddChild = TRUE
  FixSessionInit = TRUE
  FixOwnReply = TRUE
  FixOwnForward = TRUE
CHECK_DEADLOCK FALSE
INVARIANT TypeOK
INVARIANT ParentNotChild
INVARIANT ParentAttached
INVARIANT ChildrenAttached
INVARIANT ParentLive
INVARIANT ChildrenLive
INVARIANT ParentComplete
INVARIANT ToldServerTruthful
INVARIANT ToldChildrenTruthful
PROPERTY ChildAdmission

SPECIFICATION GenSpec
CONSTANTS
  P = {"p1", "p2", "p3", "p4"}
  Me = "me"
  ExtRoots = {"r1"}
  MaxLevel = 1
  AcceptMax <- MC_AcceptMax
  InitMax = 5
  AllowSlow = TRUE
  ParamKinds = {}
  Disabled = {"SessionLost", "ChildAnnounce"}
  MaxEvents = 9
  Askers = {"me", "u1"}
  Queries = {"qhit", "qmiss", "qphr", "qgone"}
  Hits <- MC_Hits
  HitsX <- MC_HitsX
  MaxSearches = 4
  FixReannounce = TRUE
  FixChildParent = TRUE
  FixAddChild = TRUE
  FixSessionInit = TRUE
  FixOwnReply = TRUE
  FixOwnForward = TRUE
CHECK_DEADLOCK FALSE

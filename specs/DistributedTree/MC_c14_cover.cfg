SPECIFICATION GenSpec
CONSTANTS
  P = {"p1", "p2"}
  Me = "me"
  ExtRoots = {"r1"}
  MaxLevel = 0
  AcceptMax <- MC_AcceptMax
  InitMax = 5
  AllowSlow = FALSE
  ParamKinds = {}
  Disabled = {"UserStats", "SessionLost", "ChildAnnounce"}
  MaxEvents = 3
  Askers = {"me", "u1"}
  Queries = {"qhit", "qmiss"}
  Hits <- MC_Hits
  MaxSearches = 1
  FixReannounce = TRUE
  FixChildParent = TRUE
  FixAddChild = TRUE
  FixSessionInit = TRUE
  FixOwnReply = TRUE
  FixOwnForward = TRUE
CHECK_DEADLOCK FALSE

SPECIFICATION GenSpec
CONSTANTS
  P = {"p1", "p2"}
  Me = "me"
  ExtRoots = {"r1"}
  MaxLevel = 0
  AcceptMax <- MC_AcceptMax
  InitMax = 5
  AllowSlow = FALSE
  ParamKinds = {}
  Disabled = {"UserStats", "SessionLost", "ChildAnnounce"}
  MaxEvents = 2
  Askers = {"me", "u1"}
  Queries = {"qhit", "qmiss", "qphr", "qgone"}
  Hits <- MC_Hits
  HitsX <- MC_HitsX
  MaxSearches = 1
  FixReannounce = TRUE
  FixChildParent = TRUE
  FixAddChild = TRUE
  FixSessionInit = TRUE
  FixOwnReply = TRUE
  FixOwnForward = TRUE
CHECK_DEADLOCK FALSE

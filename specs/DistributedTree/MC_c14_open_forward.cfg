SPECIFICATION Spec
CONSTANTS
  P = {"p1", "p2"}
  Me = "me"
  ExtRoots = {"r1"}
  MaxLevel = 0
  AcceptMax <- MC_AcceptMax
  InitMax = 5
  AllowSlow = FALSE
  ParamKinds = {}
  Disabled = {"UserStats"}
  MaxEvents = 4
  Askers = {"me", "u1"}
  Queries = {"qhit", "qmiss", "qgone"}
  Hits <- MC_Hits
  HitsX <- MC_HitsX
  MaxSearches = 2
  FixReannounce = TRUE
  FixChildParent = TRUE
  FixAddChild = TRUE
  FixSessionInit = TRUE
  FixOwnReply = TRUE
  FixOwnForward = FALSE
CHECK_DEADLOCK FALSE
INVARIANT TypeOK
INVARIANT ForwardExactlyOnce
INVARIANT ForwardOnlyToChildren
INVARIANT OwnSearchSilent
INVARIANT ReplyIffMatches

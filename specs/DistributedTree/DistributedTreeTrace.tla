------------------------ MODULE DistributedTreeTrace ------------------------
(***************************************************************************)
(* Trace validation for C13 and C14: executions of the real                *)
(* DistributedNetwork / Network / SearchManager / SharesManager (inside a  *)
(* logged-in SoulSeekClient on the simulated network), recorded by         *)
(* harness/lib_disttree.py, are judged against DistributedTree.            *)
(*                                                                         *)
(* What is bound from the log and what is computed by the spec:            *)
(*  - the environment's side (which links exist, what every peer announced,*)
(*    which peers the server proposed, the GetUserStats outcome, session)  *)
(*    is computed from the logged stimuli with DistributedTree's own       *)
(*    reference operators (EnvLevel, EnvRoot, FoldLevel, FoldRoot, Pos..); *)
(*  - what the client chose (parent, children) is *bound* from the         *)
(*    snapshot record taken after every stimulus - the properties say      *)
(*    which choices are acceptable, not how the choice is made;            *)
(*  - toldServer / toldChild / fwd / replies are folded from the frames    *)
(*    the scripted server, peers and askers received.                      *)
(* The properties of DistributedTree are then evaluated on that state, the *)
(* "at quiescence" ones on snapshots the recorder flagged quiescent (no    *)
(* wait_closed() or drain() of a distributed link pending, loop drained).  *)
(* The recorder sends server messages only while the client's server       *)
(* reader is free (not inside a ResetDistributed that still awaits its     *)
(* disconnects), so the effect of a logged server stimulus starts at its   *)
(* record.  An event no action explains, or a state that breaks a          *)
(* CONSTRAINT of the .cfg, ends the path: the trace is rejected.           *)
(*                                                                         *)
(* Records (JSON; every record has "ev"):                                  *)
(*   init     peers, files [name, words, mode], friends                    *)
(*   pp S | attempt p ok | incoming p slow | level p l | root p r | close p *)
(*   wcdone p | drained p | flush | reset | sesslost | sessinit            *)
(*   ustats speed who | param k v                                          *)
(*   search carrier frm u t q terms excl code                              *)
(*   srv kind (level l | root r | search b | accept b)   frame at server   *)
(*   pf p kind (level l | root r | srch u t q)           frame at peer p   *)
(*   reply to t user vis lock                            frame at asker    *)
(*   snap q parent children links req session                              *)
(***************************************************************************)
EXTENDS DistributedTree, Json, IOUtils

CONSTANT PropSet     \* "C13" | "C14": which property set the judge names (see Judge below)

Traces == JsonDeserialize(IOEnv.TRACE_FILE)

VARIABLES tid, l,
          quiet,     \* the state is a snapshot the recorder flagged quiescent
          settled,   \* the state is a snapshot (the loop was drained after the last stimulus)
          spar,      \* [minspeed, ratio] sent by the server in this session, -1 = not sent
          adopted,   \* peers that appeared in `children` on a connection that has not been closed since: the
                     \* current children of the statement are the adopted peers whose link is open, whatever
                     \* the client's list says later (a child leaves only by its connection closing)
          xfiles,    \* names of the shared files whose path contains a server-excluded phrase (bound from the log)
          marks,     \* tolerated deviation actions taken (open findings)
          unexpl,    \* <<>> or <<what, l>>: first search frame / reply that belongs to no search request
          bad        \* <<>> or <<property, l>>: first property found false on this path.  Always <<>> on
                     \* a path that survives the CONSTRAINTs of Trace.cfg; TraceJudge.cfg has no
                     \* CONSTRAINTs and uses it to name the violated property of every rejected trace
                     \* in one run (fingerprints only - the verdict comes from Trace.cfg)

tvars == <<vars, tid, l, quiet, settled, spar, adopted, xfiles, marks, unexpl, bad>>

T == Traces[tid]
Rec == T[l]
Range(s) == {s[i] : i \in DOMAIN s}

TInit ==
  /\ tid \in 1..Len(Traces)
  /\ Len(Traces[tid]) >= 1 /\ Traces[tid][1].ev = "init"
  /\ l = 2
  /\ conn = [p \in P |-> "none"]
  /\ lvl = [p \in P |-> NoLvl]
  /\ root = [p \in P |-> None]
  /\ parent = None /\ children = {} /\ potential = {}
  /\ accept = TRUE /\ maxc = InitMax
  /\ session = TRUE /\ params = {}
  /\ toldServer = NoServer                 \* the frames of the login follow in the trace
  /\ toldChild = [p \in P |-> NoTold]
  /\ pc = [p \in P |-> "idle"] /\ wait = [p \in P |-> {}]
  /\ addPend = [p \in P |-> None] /\ slow = [p \in P |-> FALSE]
  /\ spc = "idle" /\ rwait = {} /\ nev = 0
  /\ slog = <<>> /\ fwd = [p \in P |-> <<>>] /\ replies = <<>> /\ phr = FALSE
  /\ adopted = {} /\ xfiles = {}
  /\ quiet = FALSE /\ settled = FALSE
  /\ spar = [minspeed |-> -1, ratio |-> -1]
  /\ marks = {}
  /\ unexpl = <<>>
  /\ bad = <<>>

----------------------------------------------------------------------------
\* C14 reference: what matches, from the share recorded in the init record
Files == Traces[tid][1].files
Friends == Range(Traces[tid][1].friends)
LockedFor(f, u) == f.mode = "friends" /\ u \notin Friends
\* every included word occurs in the path, no excluded word does (whole words, case-insensitive)
\* and - "search results containing at least one of the phrases should be filtered out" - the path does
\* not contain a phrase the server excluded (xf: the files that do)
MatchesOf(u, terms, excl, xf) ==
  LET hit == {i \in DOMAIN Files : /\ terms \subseteq Range(Files[i].words)
                                    /\ excl \cap Range(Files[i].words) = {}
                                    /\ Files[i].name \notin xf} IN
    [visible |-> {Files[i].name : i \in {j \in hit : ~LockedFor(Files[j], u)}},
     locked |-> {Files[i].name : i \in {j \in hit : LockedFor(Files[j], u)}}]
NonEmpty(m) == m.visible # {} \/ m.locked # {}

----------------------------------------------------------------------------
\* C13: the properties of DistributedTree, "at quiescence" = on quiescent snapshots
TParentLive == ParentLiveAt(quiet)
TChildrenLive == ChildrenLiveAt(quiet)
TToldServerTruthful == ToldServerTruthfulAt(quiet)
TToldChildrenTruthful == ToldChildrenTruthfulAt(quiet)
\* attachment is judged where the links were observed
TParentAttached == settled => ParentAttached
TChildrenAttached == settled => ChildrenAttached
TChildAdmission == [][AdmissionStep]_tvars

\* C14
TExpectedReply(k) == slog[k].search /\ slog[k].u # Me /\ slog[k].sess
                     /\ slog[k].terms # {} /\ NonEmpty(MatchesOf(slog[k].u, slog[k].terms, slog[k].excl, slog[k].xf))
TForwardAtMostOnce ==
  \A k \in DOMAIN slog : \A p \in P : Count(fwd[p], k) <= IF p \in ExpectedFan(k) THEN 1 ELSE 0
\* a handler that is held up by the environment (wait_closed of a closing link, a server reader busy in
\* reset()) delays forwards and replies legitimately: exactness is judged on quiescent snapshots
TForwardExactlyOnce ==
  quiet => \A k \in DOMAIN slog : \A p \in P : Count(fwd[p], k) = IF p \in ExpectedFan(k) THEN 1 ELSE 0
\* every search frame at a peer and every reply at an asker belongs to a delivered request, unchanged
EveryEventExplained == unexpl = <<>>
TOwnSearchSilent == OwnSearchSilent
TReplyIffMatches ==
  /\ \A k \in DOMAIN slog : Count(replies, k) <= IF TExpectedReply(k) THEN 1 ELSE 0
  /\ quiet => \A k \in DOMAIN slog : Count(replies, k) = IF TExpectedReply(k) THEN 1 ELSE 0

\* first false property of the selected set on the (primed) state reached by the current step,
\* with a word about the shape of the violation (used in fingerprints)
VerdictC13 ==
  CASE ~ParentNotChild -> <<"ParentNotChild", "parent-in-children">>
    [] ~TParentAttached \/ ~TParentLive -> <<"ParentLive", "parent-link-gone">>
    [] ~TChildrenAttached \/ ~TChildrenLive -> <<"ChildrenLive", "child-link-gone">>
    [] ~TToldServerTruthful ->
         <<"ToldServerTruthful",
           IF parent = None THEN (IF toldServer = NoServer THEN "no-parent-server-never-told" ELSE "no-parent-server-stale")
           ELSE IF toldServer.search = "off" THEN "parent-values-stale" ELSE "parent-not-announced">>
    [] ~TToldChildrenTruthful ->
         <<"ToldChildrenTruthful",
           IF \E c \in children : toldChild[c] = NoTold THEN "child-never-told"
           ELSE IF \E c \in children : toldChild[c].level = Position.level /\ toldChild[c].root # Position.root
                THEN "child-root-stale" ELSE "child-position-stale">>
    [] OTHER -> <<"ok", "">>
VerdictC14 ==
  CASE ~TOwnSearchSilent -> <<"OwnSearchSilent", "own-search-answered-or-forwarded">>
    [] ~TForwardAtMostOnce -> <<"ForwardExactlyOnce", "forwarded-twice-or-to-a-non-child">>
    [] ~TForwardExactlyOnce -> <<"ForwardExactlyOnce", "child-missed-a-search">>
    [] ~TReplyIffMatches -> <<"ReplyIffMatches", "reply-count">>
    [] OTHER -> <<"ok", "">>
AdmissionDetail ==
  IF ~accept THEN "while-not-accepting"
  ELSE IF (children' \ children) \cap potential # {} THEN "potential-parent-taken" ELSE "over-the-maximum"
\* must be the last conjunct of an action (all other primed variables are determined)
Judge ==
  bad' = IF bad # <<>> THEN bad
         ELSE IF PropSet = "C13"
              THEN (IF ~AdmissionStep THEN <<"ChildAdmission", l, AdmissionDetail>>
                    ELSE IF VerdictC13'[1] # "ok" THEN <<VerdictC13'[1], l, VerdictC13'[2]>> ELSE <<>>)
              ELSE (IF VerdictC14'[1] # "ok" THEN <<VerdictC14'[1], l, VerdictC14'[2]>> ELSE <<>>)

----------------------------------------------------------------------------
IsEv(e) == l <= Len(T) /\ Rec.ev = e
\* a non-snapshot record: consumed, the state is "in flight" until the next snapshot
Step == l' = l + 1 /\ quiet' = FALSE /\ settled' = FALSE /\ UNCHANGED <<tid, marks, unexpl>> /\ Judge
Unused == UNCHANGED <<pc, wait, addPend, spc, rwait, nev, params, xfiles>>
Kept == UNCHANGED adopted

NewLink(p, st) ==
  /\ conn' = [conn EXCEPT ![p] = st]
  /\ lvl' = [lvl EXCEPT ![p] = NoLvl]
  /\ root' = [root EXCEPT ![p] = None]
  /\ toldChild' = [toldChild EXCEPT ![p] = NoTold]
  /\ adopted' = adopted \ {p}

----------------------------------------------------------------------------
\* stimuli

TPotential ==
  /\ IsEv("pp")
  /\ potential' = potential \cup Range(Rec.S)
  /\ conn' = [p \in P |-> IF p \in Range(Rec.S) /\ conn[p] = "none" THEN "pending" ELSE conn[p]]
  /\ UNCHANGED <<lvl, root, parent, children, accept, maxc, session, toldServer, toldChild, slow, srchvars, spar>>
  /\ Unused /\ Kept /\ Step

TAttempt ==
  /\ IsEv("attempt")
  /\ IF Rec.ok THEN NewLink(Rec.p, "openReq")
               ELSE conn' = [conn EXCEPT ![Rec.p] = "none"] /\ UNCHANGED <<lvl, root, toldChild, adopted>>
  /\ UNCHANGED <<parent, children, potential, accept, maxc, session, toldServer, slow, srchvars, spar>>
  /\ Unused /\ Step

TIncoming ==
  /\ IsEv("incoming")
  /\ NewLink(Rec.p, "openUnreq")
  /\ slow' = [slow EXCEPT ![Rec.p] = Rec.slow]
  /\ UNCHANGED <<parent, children, potential, accept, maxc, session, toldServer, srchvars, spar>>
  /\ Unused /\ Step

TLevel ==
  /\ IsEv("level")
  /\ LET e == EnvLevel(lvl, root, Rec.p, Rec.l) IN lvl' = e[1] /\ root' = e[2]
  /\ UNCHANGED <<conn, parent, children, potential, accept, maxc, session, toldServer, toldChild, slow, srchvars, spar>>
  /\ Unused /\ Kept /\ Step

TRoot ==
  /\ IsEv("root")
  /\ root' = EnvRoot(root, Rec.p, Rec.r)
  /\ UNCHANGED <<conn, lvl, parent, children, potential, accept, maxc, session, toldServer, toldChild, slow, srchvars, spar>>
  /\ Unused /\ Kept /\ Step

TClose ==
  /\ IsEv("close")
  /\ conn' = [conn EXCEPT ![Rec.p] = "closing"]
  /\ UNCHANGED <<lvl, root, parent, children, potential, accept, maxc, session, toldServer, toldChild, slow, srchvars, spar>>
  /\ Unused /\ Kept /\ Step

\* gate releases and server messages whose effect shows in later frames / snapshots only
TGate ==
  /\ \/ IsEv("wcdone") \/ IsEv("drained") \/ IsEv("flush") \/ IsEv("reset")
     \/ IsEv("srvpause") \/ IsEv("srvresume")      \* the server connection stops / resumes draining
     \/ IsEv("bystander") \/ IsEv("bygone")        \* an unrelated peer connection comes and goes
  /\ UNCHANGED <<conn, lvl, root, parent, children, potential, accept, maxc, session, toldServer, toldChild, slow, srchvars, spar>>
  /\ Unused /\ Kept /\ Step

\* SOULSEEK.rst "Max children": accept iff avg_speed >= ParentMinSpeed * 1024,
\* max children = floor(avg_speed / ((ParentSpeedRatio / 10) * 1024)); server defaults 1 and 50
TUserStats ==
  /\ IsEv("ustats")
  /\ LET ms == IF spar.minspeed = -1 THEN 1 ELSE spar.minspeed
         ra == IF spar.ratio = -1 THEN 50 ELSE spar.ratio
         acc == Rec.speed >= ms * 1024 IN
       IF Rec.who = "me" /\ session
       THEN /\ accept' = acc
            /\ maxc' = IF acc THEN (Rec.speed * 10) \div (ra * 1024) ELSE 0
       ELSE UNCHANGED <<accept, maxc>>
  /\ UNCHANGED <<conn, lvl, root, parent, children, potential, session, toldServer, toldChild, slow, srchvars, spar>>
  /\ Unused /\ Kept /\ Step

TParam ==
  /\ IsEv("param")
  /\ spar' = IF Rec.k = "minspeed" THEN [spar EXCEPT !.minspeed = Rec.v] ELSE [spar EXCEPT !.ratio = Rec.v]
  /\ UNCHANGED <<conn, lvl, root, parent, children, potential, accept, maxc, session, toldServer, toldChild, slow, srchvars>>
  /\ Unused /\ Kept /\ Step

TSessionLost ==
  /\ IsEv("sesslost")
  /\ session' = FALSE
  /\ toldServer' = NoServer
  /\ spar' = [minspeed |-> -1, ratio |-> -1]
  /\ UNCHANGED <<conn, lvl, root, parent, children, potential, accept, maxc, toldChild, slow, srchvars>>
  /\ Unused /\ Kept /\ Step

TSessionInit ==
  /\ IsEv("sessinit")
  /\ session' = TRUE
  /\ UNCHANGED <<conn, lvl, root, parent, children, potential, accept, maxc, toldServer, toldChild, slow, srchvars, spar>>
  /\ Unused /\ Kept /\ Step

\* ExcludedSearchPhrases from the server; the record names the files that contain one of the phrases
TExcluded ==
  /\ IsEv("xphr")
  /\ xfiles' = Range(Rec.xfiles)
  /\ phr' = (Len(Rec.phrases) > 0)
  /\ UNCHANGED <<treevars, slog, fwd, replies, spar>>
  /\ Kept /\ Step

----------------------------------------------------------------------------
\* frames seen by the counterparts

TSrvFrame ==
  /\ IsEv("srv")
  /\ toldServer' = CASE Rec.kind = "level" -> [toldServer EXCEPT !.level = Rec.l]
                     [] Rec.kind = "root" -> [toldServer EXCEPT !.root = Rec.r]
                     [] Rec.kind = "search" -> [toldServer EXCEPT !.search = IF Rec.b THEN "on" ELSE "off"]
                     [] OTHER -> toldServer
  /\ UNCHANGED <<conn, lvl, root, parent, children, potential, accept, maxc, session, toldChild, slow, srchvars, spar>>
  /\ Unused /\ Kept /\ Step

TPeerTold ==
  /\ IsEv("pf") /\ Rec.kind \in {"level", "root"}
  /\ toldChild' = [toldChild EXCEPT ![Rec.p] =
                     IF Rec.kind = "level" THEN FoldLevel(toldChild[Rec.p], Rec.l, Me) ELSE FoldRoot(toldChild[Rec.p], Rec.r)]
  /\ UNCHANGED <<conn, lvl, root, parent, children, potential, accept, maxc, session, toldServer, slow, srchvars, spar>>
  /\ Unused /\ Kept /\ Step

----------------------------------------------------------------------------
\* C14

\* a search request reaches the client: from the server, from the parent, or wrapped
TSearch ==
  /\ IsEv("search")
  /\ slog' = Append(slog, [src |-> Rec.frm, carrier |-> Rec.carrier, u |-> Rec.u, q |-> Rec.q,
                           kids |-> {c \in adopted : Open(c)}, sess |-> session, phr |-> phr, xf |-> xfiles,
                           search |-> (Rec.carrier # "legacy" \/ Rec.code = 3),
                           t |-> Rec.t, terms |-> Range(Rec.terms), excl |-> Range(Rec.excl)])
  /\ UNCHANGED <<treevars, fwd, replies, phr, spar, xfiles>>
  /\ Kept /\ Step

\* a search frame arrives at peer p: it must be one of the searches, with user, ticket and query intact
FwdMatch(k) == slog[k].search /\ slog[k].u = Rec.u /\ slog[k].t = Rec.t /\ slog[k].q = Rec.q
TForward ==
  /\ IsEv("pf") /\ Rec.kind = "srch"
  /\ IF \E k \in DOMAIN slog : FwdMatch(k)
       THEN /\ \E k \in DOMAIN slog :
                 /\ FwdMatch(k)
                 /\ IF slog[k].u = Me /\ slog[k].carrier \in {"dist", "legacy"} /\ Rec.p \in slog[k].kids
                         /\ <<"fwd", k, Rec.p>> \notin marks
                      THEN \* open finding F14-1b: own search that came down the tree is passed on to the children
                           /\ marks' = marks \cup {<<"fwd", k, Rec.p>>}
                           /\ UNCHANGED fwd
                      ELSE /\ fwd' = [fwd EXCEPT ![Rec.p] = Append(fwd[Rec.p], k)]
                           /\ UNCHANGED marks
            /\ UNCHANGED unexpl
       ELSE \* no request with this user, ticket and query was ever delivered
            /\ unexpl' = IF unexpl = <<>> THEN <<"search-frame-at-peer-matches-no-request", l>> ELSE unexpl
            /\ UNCHANGED <<fwd, marks>>
  /\ UNCHANGED <<treevars, slog, replies, phr, spar, xfiles>> /\ Kept
  /\ l' = l + 1 /\ quiet' = FALSE /\ settled' = FALSE /\ UNCHANGED tid /\ Judge

\* a PeerSearchReply arrives at asker `to`: same ticket, our name, exactly the matching files
ReplyMatch(k) ==
  /\ slog[k].search /\ slog[k].u = Rec.to /\ slog[k].t = Rec.t
  /\ Rec.user = Me
  /\ LET m == MatchesOf(slog[k].u, slog[k].terms, slog[k].excl, slog[k].xf) IN
       /\ Range(Rec.vis) = m.visible /\ Range(Rec.lock) = m.locked
       /\ Len(Rec.vis) = Cardinality(m.visible) /\ Len(Rec.lock) = Cardinality(m.locked)
TReply ==
  /\ IsEv("reply")
  /\ IF \E k \in DOMAIN slog : ReplyMatch(k)
       THEN /\ \E k \in DOMAIN slog : ReplyMatch(k) /\ replies' = Append(replies, k)
            /\ UNCHANGED unexpl
       ELSE \* wrong ticket / name / file lists, or no such request
            /\ unexpl' = IF unexpl = <<>> THEN <<"reply-matches-no-request", l>> ELSE unexpl
            /\ UNCHANGED replies
  /\ UNCHANGED <<treevars, slog, fwd, phr, spar, xfiles>> /\ Kept
  /\ l' = l + 1 /\ quiet' = FALSE /\ settled' = FALSE /\ UNCHANGED <<tid, marks>> /\ Judge

----------------------------------------------------------------------------
\* snapshot: bind what the client chose and what the links are

TSnap ==
  /\ IsEv("snap")
  /\ parent' = Rec.parent
  /\ children' = Range(Rec.children)
  /\ session' = Rec.session
  /\ conn' = [p \in P |->
       CASE Rec.links[p] = "open" -> IF Rec.req[p] THEN "openReq" ELSE "openUnreq"
         [] Rec.links[p] = "closing" -> "closing"
         [] OTHER -> IF conn[p] = "pending" THEN "pending" ELSE "none"]
  /\ lvl' = [p \in P |-> IF Rec.links[p] = "none" THEN NoLvl ELSE lvl[p]]
  /\ root' = [p \in P |-> IF Rec.links[p] = "none" THEN None ELSE root[p]]
  /\ toldChild' = [p \in P |-> IF Rec.links[p] = "none" THEN NoTold ELSE toldChild[p]]
  /\ adopted' = {p \in adopted \cup Range(Rec.children) : p \in P /\ Rec.links[p] # "none"}
  /\ quiet' = Rec.q
  /\ settled' = TRUE
  /\ UNCHANGED <<potential, accept, maxc, toldServer, slow, srchvars, spar>>
  /\ Unused
  /\ l' = l + 1 /\ UNCHANGED <<tid, marks, unexpl>> /\ Judge

MarkNames == {IF m[1] = "fwd" THEN "own-search-forwarded:distributed-path" ELSE m[1] : m \in marks}

Done ==
  /\ l = Len(T) + 1
  /\ IF bad = <<>> /\ unexpl = <<>> THEN PrintT(<<"ACCEPT", tid, MarkNames>>)
     ELSE IF unexpl # <<>> /\ (bad = <<>> \/ unexpl[2] <= bad[2])
          THEN PrintT(<<"JUDGE", tid, "EveryEventExplained", unexpl[2], unexpl[1]>>)
          ELSE PrintT(<<"JUDGE", tid, bad[1], bad[2], bad[3]>>)
  /\ l' = l + 1
  /\ UNCHANGED <<vars, tid, quiet, settled, spar, adopted, xfiles, marks, unexpl, bad>>

Finished == l = Len(T) + 2 /\ UNCHANGED tvars

TNext ==
  \/ TPotential \/ TAttempt \/ TIncoming \/ TLevel \/ TRoot \/ TClose \/ TGate
  \/ TUserStats \/ TParam \/ TSessionLost \/ TSessionInit \/ TExcluded
  \/ TSrvFrame \/ TPeerTold \/ TSearch \/ TForward \/ TReply \/ TSnap
  \/ Done \/ Finished

TSpec == TInit /\ [][TNext]_tvars
=============================================================================

SPECIFICATION GenSpec
CONSTANTS
  P = {"p1", "p2", "p3"}
  Me = "me"
  ExtRoots = {"r1"}
  MaxLevel = 2
  AcceptMax <- MC_AcceptMax
  InitMax = 5
  AllowSlow = FALSE
  ParamKinds = {}
  Disabled = {"UserStats", "SessionLost", "ResetDistributed", "PotentialParents"}
  MaxEvents = 5
  Askers = {"me", "u1"}
  Queries = {"qhit", "qmiss"}
  Hits <- MC_Hits
  HitsX <- MC_HitsX
  MaxSearches = 0
  FixReannounce = TRUE
  FixChildParent = TRUE
  FixAddChild = TRUE
  FixSessionInit = TRUE
  FixOwnReply = TRUE
  FixOwnForward = TRUE
CHECK_DEADLOCK FALSE
INVARIANT ProbeCandidateTakesOverInTwo

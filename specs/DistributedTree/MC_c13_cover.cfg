SPECIFICATION GenSpec
CONSTANTS
  P = {"p1", "p2"}
  Me = "me"
  ExtRoots = {"r1"}
  MaxLevel = 1
  AcceptMax <- MC_AcceptMax
  InitMax = 5
  AllowSlow = FALSE
  ParamKinds = {"minspeed", "ratio"}
  Disabled = {}
  MaxEvents = 4
  Askers = {"me", "u1"}
  Queries = {"qhit", "qmiss"}
  Hits <- MC_Hits
  HitsX <- MC_HitsX
  MaxSearches = 0
  FixReannounce = TRUE
  FixChildParent = TRUE
  FixAddChild = TRUE
  FixSessionInit = TRUE
  FixOwnReply = TRUE
  FixOwnForward = TRUE
CHECK_DEADLOCK FALSE

SPECIFICATION TSpec
CONSTANTS
  P = {"p1", "p2", "p3", "p4"}
  Me = "me"
  ExtRoots = {"r1", "r2"}
  MaxLevel = 3
  AcceptMax = {}
  InitMax = 5
  AllowSlow = TRUE
  ParamKinds = {"minspeed", "ratio"}
  Disabled = {}
  MaxEvents = 0
  Askers = {}
  Queries = {}
  Hits = {}
  HitsX = {}
  MaxSearches = 0
  FixReannounce = TRUE
  FixChildParent = TRUE
  FixAddChild = TRUE
  FixSessionInit = TRUE
  FixOwnReply = TRUE
  FixOwnForward = TRUE
  PropSet = "C13"
CONSTRAINT ParentNotChild
CONSTRAINT TParentAttached
CONSTRAINT TChildrenAttached
CONSTRAINT TParentLive
CONSTRAINT TChildrenLive
CONSTRAINT TToldServerTruthful
CONSTRAINT TToldChildrenTruthful
ACTION_CONSTRAINT AdmissionStep
CHECK_DEADLOCK FALSE

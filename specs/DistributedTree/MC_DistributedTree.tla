------------------------ MODULE MC_DistributedTree ------------------------
(* Model-checking instance of DistributedTree: constant values that a .cfg cannot express. *)
EXTENDS DistributedTree

MC_AcceptMax == {<<FALSE, 0>>, <<TRUE, 1>>}
MC_AcceptMaxBig == {<<FALSE, 0>>, <<TRUE, 0>>, <<TRUE, 1>>, <<TRUE, 2>>}
MC_NoHits == {}
\* u1 finds something with query "qhit", so does Me (own search); nobody finds anything with "qmiss"
\* "qphr": a query that contains an excluded phrase and still has matches that do not; "qgone": a query
\* whose matches all contain an excluded phrase
MC_Hits == {<<"u1", "qhit">>, <<"me", "qhit">>, <<"u1", "qphr">>, <<"me", "qphr">>, <<"u1", "qgone">>, <<"me", "qgone">>}
MC_HitsX == {<<"u1", "qhit">>, <<"me", "qhit">>, <<"u1", "qphr">>, <<"me", "qphr">>}

\* Generator configurations (simulation, edge cover) start from a small tree instead of the empty
\* state, so that the bounded behaviours spend their events on the interesting part.  Every such
\* initial state is reachable from Init by the prefix the harness executes first:
\*   PotentialParents({par}), AttemptOk(par), Level(par, 0), then Incoming(c, FALSE) for every c in kids.
ShapeInit(par, kids) ==
  LET lv == [p \in P |-> IF p = par THEN 0 ELSE NoLvl]
      rt == [p \in P |-> IF p = par THEN p ELSE None] IN
    /\ conn = [p \in P |-> IF p = par THEN "openReq" ELSE IF p \in kids THEN "openUnreq" ELSE "none"]
    /\ lvl = lv /\ root = rt
    /\ parent = par /\ children = kids
    /\ potential = IF par = None THEN {} ELSE {par}
    /\ accept = TRUE /\ maxc = InitMax /\ session = TRUE /\ params = {}
    /\ toldServer = SrvTold(par, lv, rt)
    /\ toldChild = [p \in P |-> IF p \in kids THEN Pos(par, lv, rt) ELSE NoTold]
    /\ pc = [p \in P |-> "idle"] /\ wait = [p \in P |-> {}]
    /\ addPend = [p \in P |-> None] /\ slow = [p \in P |-> FALSE]
    /\ spc = "idle" /\ rwait = {} /\ nev = 0
    /\ slog = <<>> /\ fwd = [p \in P |-> <<>>] /\ replies = <<>> /\ phr = FALSE
GenInit == \E par \in {None, "p1"}, kids \in SUBSET (P \ {"p1"}) : ShapeInit(par, kids)
GenSpec == GenInit /\ [][Next]_vars
=============================================================================

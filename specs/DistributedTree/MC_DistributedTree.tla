------------------------ MODULE MC_DistributedTree ------------------------
(* Model-checking instance of DistributedTree: constant values that a .cfg cannot express. *)
EXTENDS DistributedTree

MC_AcceptMax == {<<FALSE, 0>>, <<TRUE, 1>>}
MC_AcceptMaxBig == {<<FALSE, 0>>, <<TRUE, 0>>, <<TRUE, 1>>, <<TRUE, 2>>}
MC_NoHits == {}
\* u1 finds something with query "qhit", so does Me (own search); nobody finds anything with "qmiss"
\* "qphr": a query that contains an excluded phrase and still has matches that do not; "qgone": a query
\* whose matches all contain an excluded phrase
MC_Hits == {<<"u1", "qhit">>, <<"me", "qhit">>, <<"u1", "qphr">>, <<"me", "qphr">>, <<"u1", "qgone">>, <<"me", "qgone">>}
MC_HitsX == {<<"u1", "qhit">>, <<"me", "qhit">>, <<"u1", "qphr">>, <<"me", "qphr">>}

\* Generator configurations (simulation, edge cover) start from a small tree instead of the empty
\* state, so that the bounded behaviours spend their events on the interesting part.  Every such
\* initial state is reachable from Init by the prefix the harness executes first:
\*   PotentialParents({par}), AttemptOk(par), Level(par, 0), PotentialParents({cand}), AttemptOk(cand),
\*   then Incoming(c, FALSE) for every c in kids.
ShapeInit(par, kids, cand) ==
  LET lv == [p \in P |-> IF p = par THEN 0 ELSE NoLvl]
      rt == [p \in P |-> IF p = par THEN p ELSE None] IN
    /\ conn = [p \in P |-> IF p = par \/ p = cand THEN "openReq" ELSE IF p \in kids THEN "openUnreq" ELSE "none"]
    /\ lvl = lv /\ root = rt
    /\ parent = par /\ children = kids
    /\ potential = ({par} \cup {cand}) \ {None}
    /\ accept = TRUE /\ maxc = InitMax /\ session = TRUE /\ params = {}
    /\ toldServer = SrvTold(par, lv, rt)
    /\ toldChild = [p \in P |-> IF p \in kids THEN Pos(par, lv, rt) ELSE NoTold]
    /\ pc = [p \in P |-> "idle"] /\ wait = [p \in P |-> {}]
    /\ addPend = [p \in P |-> None] /\ slow = [p \in P |-> FALSE]
    /\ spc = "idle" /\ rwait = {} /\ nev = 0
    /\ slog = <<>> /\ fwd = [p \in P |-> <<>>] /\ replies = <<>> /\ phr = FALSE
\* cand: a candidate the server proposed after the parent was chosen; it is connected and has not announced
\* anything yet (prefix: PotentialParents({cand}), AttemptOk(cand) after the parent's Level)
GenInit == \E par \in {None, "p1"}, cand \in {None} \cup ({"p3"} \cap P), kids \in SUBSET (P \ {"p1", "p3"}) \cup SUBSET (P \ {"p1"}) :
             /\ cand \notin kids
             /\ ShapeInit(par, kids, cand)
\* Scenario probes: "invariants" whose shortest counterexample from GenInit is a behaviour of a wanted
\* shape (the harness replays it with the server connection back-pressured from the first Close on).
\* A: the parent is lost and the already connected candidate becomes the parent while children listen
ProbeCandidateTakesOver == ~(parent = "p3" /\ children # {} /\ "p1" \in potential)
\* B: the same, the candidate completing its values with two announcements (level 1, then a root)
ProbeCandidateTakesOverInTwo == ~(parent = "p3" /\ children # {} /\ "p1" \in potential /\ root["p3"] = "r1")
GenSpec == GenInit /\ [][Next]_vars
=============================================================================

--------------------------- MODULE DistributedTree ---------------------------
(***************************************************************************)
(* C13 - distributed tree: one parent, bounded live children, truthful     *)
(*       advertised place.                                                 *)
(* C14 - searches flow down the tree exactly once and are answered to the  *)
(*       asker (second property set, same module).                         *)
(*                                                                         *)
(* Mirrors src/aioslsk/distributed.py (DistributedNetwork) and the search  *)
(* handlers of src/aioslsk/search/manager.py.  The client ("Me") talks to  *)
(* the server and to remote peers p \in P over distributed connections.    *)
(*                                                                         *)
(* Concurrency.  Every connection has its own reader task that handles one *)
(* message at a time, the server connection likewise.  A handler runs      *)
(* atomically from one *suspending* await to the next; the suspension      *)
(* points that an environment can stretch are                              *)
(*   - the wait_closed() inside every PeerConnection.disconnect(): the     *)
(*     connection is "closing" until WaitClosedDone(q), whose nested       *)
(*     CLOSED handler (_on_state_changed: _unset_parent / _remove_child)   *)
(*     runs inline before the awaiting coroutine (_set_parent, reset)      *)
(*     continues;                                                          *)
(*   - the drain() of a send on a back-pressured child link inside         *)
(*     _add_child (two sends, values computed before the first).           *)
(* Sends to the server and queued sends to children complete in FIFO       *)
(* order a bounded number of loop iterations later without an external     *)
(* gate; cancelling the potential-parent attempts likewise.  They are      *)
(* folded into the step that issues them (see DESIGN.md 2.2 rule 2).       *)
(*                                                                         *)
(* Repair switches (the Fix... CONSTANTS): FALSE = what the code at the     *)
(* pinned commit does, TRUE = the repaired design.  With every switch TRUE *)
(* all properties hold; a FALSE switch makes TLC produce the counterexample *)
(* that the harness then replays on the real code.                         *)
(***************************************************************************)
EXTENDS Integers, Sequences, FiniteSets, TLC

CONSTANTS
  P,              \* remote peers (strings)
  Me,             \* our own user name
  ExtRoots,       \* branch-root names that are not peers (never Me: stated assumption)
  MaxLevel,       \* peers announce levels 0..MaxLevel
  AcceptMax,      \* possible outcomes <<accept, max children>> of a GetUserStats reply
  InitMax,        \* child limit before the first GetUserStats reply (code default 5)
  AllowSlow,      \* BOOLEAN: back-pressured child links are part of the environment
  ParamKinds,     \* subset of {"minspeed","ratio"}: server parameters the environment sends
  Disabled,       \* names of environment actions left out of a configuration
  MaxEvents,      \* bound on environment events
  Askers,         \* C14: user names that appear as searcher (may contain Me)
  Queries,        \* C14: abstract queries
  Hits,           \* C14: pairs <<asker, query>> for which Matches(asker, query) is non-empty
  HitsX,          \* C14: the same while server-excluded search phrases are in force (a subset of Hits)
  MaxSearches,    \* C14: bound on search events (0 = C13 only)
  FixReannounce,  \* F13-1: parent announces new level/root -> server is told as well
  FixChildParent, \* F13-2: an accepted child that announces level/root never becomes the parent
  FixAddChild,    \* F13-3: level and root for a new child are written without a suspension between them
  FixSessionInit, \* F13-4: children are (re)told the position when a session starts
  FixOwnReply,    \* F14-1a: own search arriving on the distributed path is not answered
  FixOwnForward   \* F14-1b: own search arriving on the distributed path is not forwarded

NoLvl == -1
None == "none"
Roots == P \cup ExtRoots

VARIABLES
  conn,        \* [P -> {"none","pending","openReq","openUnreq","closing"}]
  lvl,         \* [P -> NoLvl | 0..MaxLevel]   last level announced on p's current connection
  root,        \* [P -> None | Roots]          last root announced (level 0 => the peer itself)
  parent,      \* None | p
  children,    \* SUBSET P
  potential,   \* SUBSET P   peers the server proposed as potential parents (cache; see assumption)
  accept,      \* BOOLEAN    child acceptance (GetUserStats outcome)
  maxc,        \* Nat        current maximum number of children
  session,     \* BOOLEAN    logged in
  params,      \* SUBSET {"minspeed","ratio"}  server-sent parameters known in this session
  toldServer,  \* [level, root, search]  last values that reached the server in this session
  toldChild,   \* [P -> [level, root]]   last values written to p's current connection
  pc,          \* [P -> {"idle","spWait"}]  reader task of p's connection (runs _set_parent(p))
  wait,        \* [P -> SUBSET P]  disconnects _set_parent(p) is still awaiting
  addPend,     \* [P -> None | Roots]  root _add_child(p) will still write once the link drains
  slow,        \* [P -> BOOLEAN]  our side of p's link is back-pressured
  spc,         \* "idle" | "resetKids" | "resetPar"   server reader task (runs reset())
  rwait,       \* SUBSET P  disconnects reset() is still awaiting
  nev,         \* number of environment events so far
  \* ---- C14
  slog,        \* Seq of [src, carrier, u, q, kids, sess, search]  search events in arrival order
  fwd,         \* [P -> Seq of indices into slog]  search messages written to p's connection
  replies,     \* Seq of indices into slog: search replies sent (to slog[k].u, ticket of k, our name, Matches)
  phr          \* BOOLEAN: the server sent a non-empty list of excluded search phrases (results whose path
               \* contains one are not reported: Matches shrinks from Hits to HitsX)

treevars == <<conn, lvl, root, parent, children, potential, accept, maxc, session, params,
              toldServer, toldChild, pc, wait, addPend, slow, spc, rwait, nev>>
srchvars == <<slog, fwd, replies, phr>>
vars == <<treevars, srchvars>>

NoTold == [level |-> NoLvl, root |-> None]
NoServer == [level |-> NoLvl, root |-> None, search |-> None]

Init ==
  /\ conn = [p \in P |-> "none"]
  /\ lvl = [p \in P |-> NoLvl]
  /\ root = [p \in P |-> None]
  /\ parent = None
  /\ children = {}
  /\ potential = {}
  /\ accept = TRUE
  /\ maxc = InitMax
  /\ session = TRUE
  /\ params = {}
  /\ toldServer = [level |-> 0, root |-> Me, search |-> "on"]    \* _on_session_initialized
  /\ toldChild = [p \in P |-> NoTold]
  /\ pc = [p \in P |-> "idle"]
  /\ wait = [p \in P |-> {}]
  /\ addPend = [p \in P |-> None]
  /\ slow = [p \in P |-> FALSE]
  /\ spc = "idle"
  /\ rwait = {}
  /\ nev = 0
  /\ slog = <<>>
  /\ fwd = [p \in P |-> <<>>]
  /\ replies = <<>>
  /\ phr = FALSE

----------------------------------------------------------------------------
\* Reference semantics shared with the trace spec

IsOpen(cn, p) == cn[p] \in {"openReq", "openUnreq"}
Open(p) == IsOpen(conn, p)

\* distributed.py:119-144 _get_advertised_branch_values (own name as root is assumed away)
Pos(par, lv, rt) == IF par = None THEN [level |-> 0, root |-> Me]
                    ELSE [level |-> lv[par] + 1, root |-> rt[par]]
Position == Pos(parent, lvl, root)

\* what _notify_server_of_parent writes: BranchLevel, BranchRoot, ToggleParentSearch
SrvTold(par, lv, rt) == [level |-> Pos(par, lv, rt).level, root |-> Pos(par, lv, rt).root,
                         search |-> IF par = None THEN "on" ELSE "off"]

\* DistributedBranchLevel(l) / DistributedBranchRoot(r) as folded by a receiver:
\* level 0 means "the sender is the root" (SOULSEEK.rst, Obtaining a parent)
FoldLevel(t, l, sender) == [level |-> l, root |-> IF l = 0 THEN sender ELSE t.root]
FoldRoot(t, r) == [t EXCEPT !.root = r]

\* announcements of peer p (distributed.py:420-465)
EnvLevel(lv, rt, p, l) == <<[lv EXCEPT ![p] = l], IF l = 0 THEN [rt EXCEPT ![p] = p] ELSE rt>>
EnvRoot(rt, p, r) == [rt EXCEPT ![p] = r]

\* send_messages_to_children(level, root): queued on every child whose connection is not closing
TellKids(tc, kids, cn, pos) == [c \in P |-> IF c \in kids /\ IsOpen(cn, c) THEN pos ELSE tc[c]]

Complete(lv, rt, p) == lv[p] # NoLvl /\ rt[p] # None

----------------------------------------------------------------------------
\* Tail of _set_parent (distributed.py:202-203) and of _unset_parent: both need a session,
\* otherwise _get_advertised_branch_values raises inside the handler and nothing is told.

\* The CLOSED handler of q's connection followed by the coroutines that awaited q's disconnect.
\* Returns the new values of <<parent, children, conn, lvl, root, toldServer, toldChild, pc, wait, spc, rwait>>.
AfterClosed(q) ==
  LET wasParent == parent = q
      par1 == IF wasParent THEN None ELSE parent
      \* _unset_parent: server told (0, Me, search on), children told Level 0 / Root Me
      ts1 == IF wasParent /\ session THEN SrvTold(None, lvl, root) ELSE toldServer
      tc1 == IF wasParent /\ session THEN TellKids(toldChild, children, conn, [level |-> 0, root |-> Me]) ELSE toldChild
      kids1 == children \ {q}
      cn1 == [conn EXCEPT ![q] = "none"]
      lv1 == [lvl EXCEPT ![q] = NoLvl]
      rt1 == [root EXCEPT ![q] = None]
      tc2 == [tc1 EXCEPT ![q] = NoTold]
      \* continuation of the _set_parent that awaited this disconnect
      spw == {r \in P : pc[r] = "spWait" /\ q \in wait[r]}
      fin == {r \in spw : wait[r] = {q}}
      ts2 == IF fin # {} /\ session THEN SrvTold(par1, lv1, rt1) ELSE ts1
      tc3 == IF fin # {} /\ session THEN TellKids(tc2, kids1, cn1, Pos(par1, lv1, rt1)) ELSE tc2
      pc1 == [r \in P |-> IF r \in fin THEN "idle" ELSE pc[r]]
      wt1 == [r \in P |-> wait[r] \ {q}]
      \* continuation of reset(): children done -> disconnect the parent; parent done -> finished
      rw1 == rwait \ {q}
      kidsDone == spc = "resetKids" /\ q \in rwait /\ rw1 = {}
      parClose == kidsDone /\ par1 # None /\ IsOpen(cn1, par1)
      cn2 == IF parClose THEN [cn1 EXCEPT ![par1] = "closing"] ELSE cn1
      spc1 == IF kidsDone THEN (IF parClose THEN "resetPar" ELSE "idle")
              ELSE IF spc = "resetPar" /\ q \in rwait THEN "idle" ELSE spc
      rw2 == IF parClose THEN {par1} ELSE rw1
  IN <<par1, kids1, cn2, lv1, rt1, ts2, tc3, pc1, wt1, spc1, rw2>>

\* environment / gate: wait_closed() of q's connection returns (connection.py:268-276)
WaitClosedDone(q) ==
  /\ conn[q] = "closing"
  /\ LET r == AfterClosed(q) IN
       /\ parent' = r[1] /\ children' = r[2] /\ conn' = r[3] /\ lvl' = r[4] /\ root' = r[5]
       /\ toldServer' = r[6] /\ toldChild' = r[7] /\ pc' = r[8] /\ wait' = r[9] /\ spc' = r[10] /\ rwait' = r[11]
  /\ addPend' = [addPend EXCEPT ![q] = None]
  /\ slow' = [slow EXCEPT ![q] = FALSE]
  /\ UNCHANGED <<potential, accept, maxc, session, params, nev, srchvars>>

----------------------------------------------------------------------------
\* Potential parents (distributed.py:369-393) and the attempts' outcomes

PotentialParents(S) ==
  /\ "PotentialParents" \notin Disabled /\ session /\ spc = "idle" /\ nev < MaxEvents
  /\ S # {} /\ \A p \in S : conn[p] = "none"
  /\ potential' = potential \cup S
  /\ conn' = [p \in P |-> IF p \in S THEN "pending" ELSE conn[p]]
  /\ nev' = nev + 1
  /\ UNCHANGED <<lvl, root, parent, children, accept, maxc, session, params, toldServer, toldChild,
                 pc, wait, addPend, slow, spc, rwait, srchvars>>

\* network.py:806-848 direct connection + PeerInit + PeerInitializedEvent(requested=True)
AttemptOk(p) ==
  /\ conn[p] = "pending" /\ nev < MaxEvents
  /\ conn' = [conn EXCEPT ![p] = "openReq"]
  /\ nev' = nev + 1
  /\ UNCHANGED <<lvl, root, parent, children, potential, accept, maxc, session, params, toldServer, toldChild,
                 pc, wait, addPend, slow, spc, rwait, srchvars>>

AttemptFail(p) ==
  /\ conn[p] = "pending" /\ nev < MaxEvents
  /\ conn' = [conn EXCEPT ![p] = "none"]
  /\ nev' = nev + 1
  /\ UNCHANGED <<lvl, root, parent, children, potential, accept, maxc, session, params, toldServer, toldChild,
                 pc, wait, addPend, slow, spc, rwait, srchvars>>

----------------------------------------------------------------------------
\* A peer connects to us: _on_peer_connection_initialized -> _check_if_new_child -> _add_child
\* (distributed.py:274-310, 566-574)
Incoming(p, s) ==
  /\ conn[p] = "none" /\ nev < MaxEvents
  /\ s => AllowSlow
  /\ nev' = nev + 1
  /\ slow' = [slow EXCEPT ![p] = s]
  /\ IF p \in potential
       THEN /\ conn' = [conn EXCEPT ![p] = "openUnreq"]
            /\ UNCHANGED <<children, toldChild, addPend>>
       ELSE IF ~accept \/ Cardinality(children) >= maxc
       THEN /\ conn' = [conn EXCEPT ![p] = "closing"]        \* rejected: disconnect(REQUESTED)
            /\ UNCHANGED <<children, toldChild, addPend>>
       ELSE /\ conn' = [conn EXCEPT ![p] = "openUnreq"]
            /\ children' = children \cup {p}
            /\ IF ~session
                 THEN UNCHANGED <<toldChild, addPend>>        \* _get_advertised_branch_values raises
                 ELSE LET pos == Position
                          split == s /\ ~FixAddChild /\ pos.level # 0 IN
                        /\ toldChild' = [toldChild EXCEPT ![p] =
                               IF split THEN FoldLevel(NoTold, pos.level, Me) ELSE pos]
                        /\ addPend' = [addPend EXCEPT ![p] = IF split THEN pos.root ELSE None]
  /\ UNCHANGED <<lvl, root, parent, potential, accept, maxc, session, params, toldServer,
                 pc, wait, spc, rwait, srchvars>>

\* gate: our side of p's link drains; _add_child writes the root it computed before suspending
Drained(p) ==
  /\ slow[p]
  /\ slow' = [slow EXCEPT ![p] = FALSE]
  /\ addPend' = [addPend EXCEPT ![p] = None]
  /\ toldChild' = IF addPend[p] # None /\ Open(p)
                    THEN [toldChild EXCEPT ![p] = FoldRoot(toldChild[p], addPend[p])]
                    ELSE toldChild
  /\ UNCHANGED <<conn, lvl, root, parent, children, potential, accept, maxc, session, params, toldServer,
                 pc, wait, spc, rwait, nev, srchvars>>

----------------------------------------------------------------------------
\* DistributedBranchLevel / DistributedBranchRoot from p (distributed.py:420-465, 174-215)

\* lv, rt: the values after the announcement has been stored
AfterAnnounce(p, lv, rt) ==
  IF p = parent
  THEN \* update from the current parent
       /\ toldChild' = IF session THEN TellKids(toldChild, children, conn, Pos(parent, lv, rt)) ELSE toldChild
       /\ toldServer' = IF session /\ FixReannounce THEN SrvTold(parent, lv, rt) ELSE toldServer
       /\ UNCHANGED <<conn, parent, pc, wait>>
  ELSE IF ~Complete(lv, rt, p)
  THEN UNCHANGED <<conn, parent, toldServer, toldChild, pc, wait>>
  ELSE IF parent = None /\ ~(FixChildParent /\ p \in children)
  THEN \* _set_parent(p): assign, cancel the attempts, disconnect every other distributed
       \* connection that is neither the parent nor a child
       LET cn1 == [q \in P |-> IF conn[q] = "pending" THEN "none" ELSE conn[q]]
           D == {q \in P \ ({p} \cup children) : IsOpen(cn1, q)}
           cn2 == [q \in P |-> IF q \in D THEN "closing" ELSE cn1[q]] IN
         /\ parent' = p
         /\ conn' = cn2
         /\ IF D = {}
              THEN /\ toldServer' = IF session THEN SrvTold(p, lv, rt) ELSE toldServer
                   /\ toldChild' = IF session THEN TellKids(toldChild, children, cn2, Pos(p, lv, rt)) ELSE toldChild
                   /\ UNCHANGED <<pc, wait>>
              ELSE /\ pc' = [pc EXCEPT ![p] = "spWait"]
                   /\ wait' = [wait EXCEPT ![p] = D]
                   /\ UNCHANGED <<toldServer, toldChild>>
  ELSE \* a complete announcement from somebody who cannot become the parent: disconnect
       /\ conn' = [conn EXCEPT ![p] = "closing"]
       /\ UNCHANGED <<parent, toldServer, toldChild, pc, wait>>

\* "ChildAnnounce" in Disabled: accepted children do not announce (not part of C14's quantifier)
Level(p, l) ==
  /\ ("ChildAnnounce" \in Disabled => p \notin children)
  /\ Open(p) /\ pc[p] = "idle" /\ nev < MaxEvents
  /\ l \in 0..MaxLevel /\ l # lvl[p]
  /\ LET e == EnvLevel(lvl, root, p, l) IN
       /\ lvl' = e[1] /\ root' = e[2]
       /\ AfterAnnounce(p, e[1], e[2])
  /\ nev' = nev + 1
  /\ UNCHANGED <<children, potential, accept, maxc, session, params, addPend, slow, spc, rwait, srchvars>>

Root(p, r) ==
  /\ ("ChildAnnounce" \in Disabled => p \notin children)
  /\ Open(p) /\ pc[p] = "idle" /\ nev < MaxEvents
  /\ r \in Roots /\ r # root[p]             \* an unchanged root is ignored (distributed.py:457-458)
  /\ root' = EnvRoot(root, p, r) /\ lvl' = lvl
  /\ AfterAnnounce(p, lvl, EnvRoot(root, p, r))
  /\ nev' = nev + 1
  /\ UNCHANGED <<children, potential, accept, maxc, session, params, addPend, slow, spc, rwait, srchvars>>

\* the peer closes / the link breaks: our reader sees EOF and disconnects (connection.py:344-365)
Close(p) ==
  /\ "Close" \notin Disabled /\ Open(p) /\ pc[p] = "idle" /\ nev < MaxEvents
  /\ conn' = [conn EXCEPT ![p] = "closing"]
  /\ nev' = nev + 1
  /\ UNCHANGED <<lvl, root, parent, children, potential, accept, maxc, session, params, toldServer, toldChild,
                 pc, wait, addPend, slow, spc, rwait, srchvars>>

----------------------------------------------------------------------------
\* Server messages

\* GetUserStats reply for our own name (distributed.py:508-539); am = <<accept, max children>>
UserStats(am) ==
  /\ "UserStats" \notin Disabled /\ session /\ spc = "idle" /\ nev < MaxEvents
  /\ am \in AcceptMax /\ <<accept, maxc>> # am
  /\ accept' = am[1] /\ maxc' = am[2]
  /\ nev' = nev + 1
  /\ UNCHANGED <<conn, lvl, root, parent, children, potential, session, params, toldServer, toldChild,
                 pc, wait, addPend, slow, spc, rwait, srchvars>>

\* ParentMinSpeed / ParentSpeedRatio (distributed.py:339-349)
ParamMsg(k) ==
  /\ session /\ spc = "idle" /\ nev < MaxEvents
  /\ k \in ParamKinds \ params
  /\ params' = params \cup {k}
  /\ nev' = nev + 1
  /\ UNCHANGED <<conn, lvl, root, parent, children, potential, accept, maxc, session, toldServer, toldChild,
                 pc, wait, addPend, slow, spc, rwait, srchvars>>

\* ResetDistributed (distributed.py:162-165, 414-416): children first, then the parent
ResetDistributed ==
  /\ "ResetDistributed" \notin Disabled /\ session /\ spc = "idle" /\ nev < MaxEvents
  /\ nev' = nev + 1
  /\ LET W == {c \in children : Open(c)} IN
       IF W # {}
       THEN /\ conn' = [q \in P |-> IF q \in W THEN "closing" ELSE conn[q]]
            /\ spc' = "resetKids" /\ rwait' = W
       ELSE IF parent # None /\ Open(parent)
       THEN /\ conn' = [conn EXCEPT ![parent] = "closing"]
            /\ spc' = "resetPar" /\ rwait' = {parent}
       ELSE UNCHANGED <<conn, spc, rwait>>
  /\ UNCHANGED <<lvl, root, parent, children, potential, accept, maxc, session, params, toldServer, toldChild,
                 pc, wait, addPend, slow, srchvars>>

\* server connection lost: session destroyed, server-sent values reset (distributed.py:585-586, 616-618)
SessionLost ==
  /\ "SessionLost" \notin Disabled /\ session /\ spc = "idle" /\ nev < MaxEvents
  /\ session' = FALSE
  /\ params' = {}
  /\ toldServer' = NoServer        \* a new server session knows nothing about us
  /\ nev' = nev + 1
  /\ UNCHANGED <<conn, lvl, root, parent, children, potential, accept, maxc, toldChild,
                 pc, wait, addPend, slow, spc, rwait, srchvars>>

\* re-login: _on_session_initialized (distributed.py:581-583)
SessionInit ==
  /\ ~session /\ nev < MaxEvents
  /\ session' = TRUE
  /\ toldServer' = SrvTold(parent, lvl, root)
  /\ toldChild' = IF FixSessionInit THEN TellKids(toldChild, children, conn, Position) ELSE toldChild
  /\ nev' = nev + 1
  /\ UNCHANGED <<conn, lvl, root, parent, children, potential, accept, maxc, params,
                 pc, wait, addPend, slow, spc, rwait, srchvars>>

----------------------------------------------------------------------------
\* C14: search requests (distributed.py:395-412, 486-506; search/manager.py:185-243, 340-366)

\* The current children of the statement are the peers whose distributed connection we accepted as
\* child and that is still open; in this design a child leaves `children` only through the CLOSED
\* handler of its connection, so that is `children` minus the connections already closing.
OpenKids == {c \in children : Open(c)}
CurHits(x) == IF x THEN HitsX ELSE Hits
Answered(u, q, own) == session /\ <<u, q>> \in CurHits(phr) /\ ~own

Handle(src, carrier, u, q, isSearch, forward, answer) ==
  LET k == Len(slog) + 1 IN
    /\ slog' = Append(slog, [src |-> src, carrier |-> carrier, u |-> u, q |-> q, kids |-> OpenKids,
                             sess |-> session, search |-> isSearch, phr |-> phr])
    /\ fwd' = [p \in P |-> IF forward /\ p \in OpenKids THEN Append(fwd[p], k) ELSE fwd[p]]
    /\ replies' = IF answer THEN Append(replies, k) ELSE replies
    /\ UNCHANGED <<treevars, phr>>

\* ExcludedSearchPhrases from the server (search/manager.py _on_excluded_search_phrases): b = the list is
\* not empty.  Which results remain is a matter of Matches (C07/C08); here it only moves Hits to HitsX.
ExcludedPhrases(b) ==
  /\ MaxSearches > 0 /\ "ExcludedPhrases" \notin Disabled
  /\ session /\ spc = "idle" /\ b # phr
  /\ phr' = b
  /\ UNCHANGED <<treevars, slog, fwd, replies>>

\* ServerSearchRequest while we are a branch root (no parent)
ServerSearch(u, q) ==
  /\ Len(slog) < MaxSearches /\ session /\ spc = "idle" /\ parent = None
  /\ Handle("server", "server", u, q, TRUE, u # Me, Answered(u, q, u = Me))

\* DistributedSearchRequest from the parent
DistSearch(from, u, q) ==
  /\ Len(slog) < MaxSearches /\ from = parent /\ Open(parent) /\ pc[parent] = "idle"
  /\ Handle(parent, "dist", u, q, TRUE, ~(FixOwnForward /\ u = Me), Answered(u, q, FixOwnReply /\ u = Me))

\* a server search request embedded as-is in a distributed message by the parent; only
\* distributed code 3 (search request) is a search
LegacyWrapped(from, code, u, q) ==
  /\ Len(slog) < MaxSearches /\ from = parent /\ Open(parent) /\ pc[parent] = "idle"
  /\ code \in {"search", "other"}
  /\ Handle(parent, "legacy", u, q, code = "search",
            code = "search" /\ ~(FixOwnForward /\ u = Me),
            code = "search" /\ Answered(u, q, FixOwnReply /\ u = Me))

----------------------------------------------------------------------------
Next ==
  \/ \E S \in SUBSET P : PotentialParents(S)
  \/ \E p \in P : AttemptOk(p) \/ AttemptFail(p) \/ Close(p) \/ WaitClosedDone(p) \/ Drained(p)
  \/ \E p \in P, s \in BOOLEAN : Incoming(p, s)
  \/ \E p \in P, l \in 0..MaxLevel : Level(p, l)
  \/ \E p \in P, r \in Roots : Root(p, r)
  \/ \E am \in AcceptMax : UserStats(am)
  \/ \E k \in {"minspeed", "ratio"} : ParamMsg(k)
  \/ ResetDistributed \/ SessionLost \/ SessionInit
  \/ \E b \in BOOLEAN : ExcludedPhrases(b)
  \/ \E u \in Askers, q \in Queries : ServerSearch(u, q)
  \/ \E p \in P, u \in Askers, q \in Queries : DistSearch(p, u, q)
  \/ \E p \in P, c \in {"search", "other"}, u \in Askers, q \in Queries : LegacyWrapped(p, c, u, q)

Spec == Init /\ [][Next]_vars

----------------------------------------------------------------------------
\* Properties of C13

TypeOK ==
  /\ conn \in [P -> {"none", "pending", "openReq", "openUnreq", "closing"}]
  /\ lvl \in [P -> {NoLvl} \cup 0..MaxLevel]
  /\ root \in [P -> {None} \cup Roots]
  /\ parent \in {None} \cup P
  /\ children \subseteq P /\ potential \subseteq P
  /\ pc \in [P -> {"idle", "spWait"}]
  /\ spc \in {"idle", "resetKids", "resetPar"}

\* no handler of the tree is in flight
Quiescent == /\ \A p \in P : pc[p] = "idle" /\ conn[p] # "closing" /\ addPend[p] = None
             /\ spc = "idle"

\* "at most one parent" is structural (parent is one value); the parent is never also a child
ParentNotChild == parent = None \/ parent \notin children

\* parent and children are live distributed connections.  A closure is learnt asynchronously:
\* while it is being processed the connection is "closing"; it is never absent.
ParentAttached == parent # None => conn[parent] \in {"openReq", "openUnreq", "closing"}
ChildrenAttached == \A c \in children : conn[c] \in {"openReq", "openUnreq", "closing"}
ParentLiveAt(quiet) == (quiet /\ parent # None) => Open(parent)
ChildrenLiveAt(quiet) == quiet => \A c \in children : Open(c)
ParentLive == ParentLiveAt(Quiescent)
ChildrenLive == ChildrenLiveAt(Quiescent)

\* a child is only taken while acceptance is on, below the maximum, and never a proposed parent
AdmissionStep ==
  LET new == children' \ children IN
    new # {} => /\ accept
                /\ Cardinality(children \cup new) <= maxc
                /\ new \cap potential = {}
ChildAdmission == [][AdmissionStep]_vars

\* what the server and every child were last told is the position derived from the parent
ExpectedServer == SrvTold(parent, lvl, root)
ToldServerTruthfulAt(quiet) == (quiet /\ session) => toldServer = ExpectedServer
ToldChildrenTruthfulAt(quiet) == (quiet /\ session) => \A c \in children : toldChild[c] = Position
ToldServerTruthful == ToldServerTruthfulAt(Quiescent)
ToldChildrenTruthful == ToldChildrenTruthfulAt(Quiescent)

\* a parent always has announced both values
ParentComplete == parent # None => Complete(lvl, root, parent)

----------------------------------------------------------------------------
\* Properties of C14

Count(s, x) == Cardinality({i \in DOMAIN s : s[i] = x})

\* who must receive search k: the live children at the time it was handled - unless it is our own
ExpectedFan(k) == IF slog[k].search /\ slog[k].u # Me THEN slog[k].kids ELSE {}
ExpectedReply(k) == slog[k].search /\ slog[k].u # Me /\ slog[k].sess
                    /\ <<slog[k].u, slog[k].q>> \in CurHits(slog[k].phr)

ForwardExactlyOnce ==
  \A k \in DOMAIN slog : \A p \in P : Count(fwd[p], k) = IF p \in ExpectedFan(k) THEN 1 ELSE 0
OwnSearchSilent ==
  \A k \in DOMAIN slog : slog[k].u = Me => (Count(replies, k) = 0 /\ \A p \in P : Count(fwd[p], k) = 0)
ReplyIffMatches ==
  \A k \in DOMAIN slog : Count(replies, k) = IF ExpectedReply(k) THEN 1 ELSE 0
\* never back to the parent, never to a connection that is not a child
ForwardOnlyToChildren ==
  \A k \in DOMAIN slog : \A p \in P : Count(fwd[p], k) > 0 => (p \in slog[k].kids /\ p # slog[k].src)
=============================================================================

SPECIFICATION Spec
CONSTANTS
  Downloads = {1, 2}
  Comps = {"n1", "n1#1"}
  MinLen = 2
  MaxLen = 2
  Chains = {"DN", "DKN"}
  RootPre = {{0}}
  SubPre = {{9}, {0}}
  EqualNames = FALSE
  SanitiseDots = TRUE
  Reserve = TRUE
  AllowAbort = FALSE
  ForeignRelease = FALSE
  OrderedArrival = FALSE
  AllowPause = FALSE
  AllowIoError = FALSE
  AllowResume = FALSE
  ForgetUncreated = TRUE
  LockPerName = TRUE
  MaxInterrupts = 0
INVARIANT TypeOK
INVARIANT Inside
INVARIANT RegularName
INVARIANT FreshWhenChosen
INVARIANT DistinctActivePaths
INVARIANT NothingOutside
INVARIANT LockHeld
CHECK_DEADLOCK FALSE

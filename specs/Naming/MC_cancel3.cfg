SPECIFICATION Spec
CONSTANTS
  Downloads = {1, 2, 3}
  Comps = {"n1"}
  MinLen = 2
  MaxLen = 2
  Chains = {"DN", "DKN"}
  RootPre = {{}, {0}}
  SubPre = {{9}}
  EqualNames = TRUE
  SanitiseDots = TRUE
  Reserve = TRUE
  AllowAbort = TRUE
  ForeignRelease = FALSE
  OrderedArrival = TRUE
  AllowPause = FALSE
  AllowIoError = FALSE
  AllowResume = FALSE
  ForgetUncreated = TRUE
  LockPerName = FALSE
  MaxInterrupts = 3
INVARIANT TypeOK
INVARIANT Inside
INVARIANT RegularName
INVARIANT FreshWhenChosen
INVARIANT DistinctActivePaths
INVARIANT NothingOutside
INVARIANT LockHeld
CHECK_DEADLOCK FALSE

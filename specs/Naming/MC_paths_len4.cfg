SPECIFICATION Spec
CONSTANTS
  Downloads = {1}
  Comps = {"..", ".", "", "@@x", "C:", "n1", "n2"}
  MinLen = 4
  MaxLen = 4
  Chains = {"D", "DK", "KD", "DN", "ND", "DKN", "DNK", "KDN", "KND", "NDK", "NKD"}
  RootPre = {{}, {0}, {0, 1}}
  SubPre = {{9}, {0}}
  EqualNames = FALSE
  SanitiseDots = TRUE
  Reserve = TRUE
  AllowAbort = FALSE
  ForeignRelease = FALSE
  OrderedArrival = FALSE
  AllowPause = FALSE
  AllowIoError = FALSE
  AllowResume = FALSE
  ForgetUncreated = TRUE
  LockPerName = FALSE
  MaxInterrupts = 3
INVARIANT TypeOK
INVARIANT Inside
INVARIANT RegularName
INVARIANT FreshWhenChosen
INVARIANT DistinctActivePaths
INVARIANT NothingOutside
CONSTRAINT ChoiceOnly
CHECK_DEADLOCK FALSE

SPECIFICATION Spec
CONSTANTS
  Downloads = {1, 2, 3}
  Comps = {"n1", "n2", "n3"}
  MinLen = 1
  MaxLen = 2
  Chains = {"DN", "DKN", "KDN"}
  RootPre = {{}, {0}}
  SubPre = {{9}}
  EqualNames = TRUE
  SanitiseDots = TRUE
  Reserve = FALSE
  AllowAbort = FALSE
  ForeignRelease = FALSE
  OrderedArrival = FALSE
  AllowPause = FALSE
  AllowIoError = FALSE
  AllowResume = FALSE
  ForgetUncreated = TRUE
  LockPerName = FALSE
  MaxInterrupts = 3
CHECK_DEADLOCK FALSE

SPECIFICATION TSpec
CONSTANTS
  Downloads = {1, 2, 3}
  Comps = {"n1"}
  MinLen = 0
  MaxLen = 0
  Chains = {"DN"}
  RootPre = {{}}
  SubPre = {{9}}
  EqualNames = FALSE
  SanitiseDots = TRUE
  Reserve = FALSE
  AllowAbort = FALSE
  ForeignRelease = FALSE
  OrderedArrival = FALSE
  AllowPause = FALSE
  AllowIoError = FALSE
  AllowResume = FALSE
  ForgetUncreated = FALSE
  LockPerName = FALSE
  MaxInterrupts = 3
INVARIANT Inside
INVARIANT RegularName
INVARIANT FreshWhenChosen
INVARIANT DistinctActivePathsX
INVARIANT NothingOutside
INVARIANT RealInside
INVARIANT RealFresh
CHECK_DEADLOCK TRUE

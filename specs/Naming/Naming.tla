------------------------------- MODULE Naming -------------------------------
(***************************************************************************)
(* C09 - peer-chosen names never escape the download directory or clobber  *)
(* a file.                                                                 *)
(*                                                                         *)
(* Part 1, path algebra.  Mirrors utils.split_remote_path (utils.py:29-31),*)
(* DefaultNamingStrategy / KeepDirectoryStrategy / NumberDuplicateStrategy *)
(* and chain_strategies (naming.py:27-105) and                             *)
(* SharesManager.calculate_download_path (shares/manager.py:774-786).      *)
(* A remote path is a sequence of components; the separators (\ and /,     *)
(* single, repeated, leading, trailing) are abstracted: a repeated,        *)
(* leading or trailing separator is an empty component "".  The download   *)
(* directory is the pair (files, dirs) of existing entries, each a         *)
(* sequence of names relative to the download directory.  A numbered       *)
(* duplicate "stem (i).ext" of the name b is written  b#i.                 *)
(*                                                                         *)
(* Part 2, start-up race.  Mirrors TransferManager._prepare_download_path  *)
(* (transfer/manager.py:677-683) and _download_file (1095-1120): the path  *)
(* is chosen from the directory contents *now* (Choose), the directory is  *)
(* created (Mkdir, suspends in the executor), the transfer is set to       *)
(* DOWNLOADING (Start) and only then is the file created by open(.., 'ab') *)
(* (Open).                                                                 *)
(*                                                                         *)
(* Deviation switches (DESIGN 2.2 rule 4):                                 *)
(*   SanitiseDots  FALSE = the code as found: '.' and '..' are ordinary    *)
(*                 components;  TRUE = repaired: the strategies ignore them*)
(*   Reserve       FALSE = the code as found: check-then-create;  TRUE =   *)
(*                 repaired: choose + mkdir + create run under one lock    *)
(*   ForeignRelease TRUE = a download cancelled while it WAITS for the     *)
(*                 lock releases the lock somebody else holds (acquire()   *)
(*                 inside try/finally: asyncio.Lock.release() does not     *)
(*                 check ownership);  FALSE = `async with`, the design     *)
(*                                                                         *)
(*   LockPerName   TRUE = one lock per remote file name instead of one     *)
(*                 lock ("only equally named files compete for a path":    *)
(*                 wrong, the duplicate strategy invents names);  FALSE =  *)
(*                 the design: a single lock                               *)
(*   ForgetUncreated FALSE = the code as found: a download that leaves the *)
(*                 prepare step (pause: task cancelled; OSError from the   *)
(*                 directory creation / open) after its path was chosen    *)
(*                 and before its file exists KEEPS the path;  TRUE =      *)
(*                 repaired: a path chosen in this call and not yet        *)
(*                 materialised is forgotten when the step is left         *)
(*                                                                         *)
(* Abort(d) (AllowAbort) is TransferManager.abort / remove: the download's *)
(* task is cancelled wherever it is - waiting for the lock, inside the     *)
(* reservation, downloading -, its file is removed and its path forgotten  *)
(* (transfer/state.py _cancel_transfer_tasks, _remove_local_file).         *)
(* Pause(d) (AllowPause) cancels the task the same way but removes nothing *)
(* (InitializingState.pause / DownloadingState.pause).  IoError(d)         *)
(* (AllowIoError) is an OSError raised by create_directory / open inside   *)
(* the prepare step: the transfer is FAILED.  Resume(d) (AllowResume) is   *)
(* the re-queue and restart of a paused / failed / aborted download: a     *)
(* download that still has a local path skips the choice                   *)
(* (transfer/manager.py `if transfer.local_path is None`).                 *)
(***************************************************************************)
EXTENDS Naturals, Sequences, FiniteSets, TLC

CONSTANTS
  Downloads,      \* set of download ids (1..n)
  Comps,          \* component alphabet of remote paths
  MinLen, MaxLen, \* remote paths have MinLen..MaxLen components
  Chains,         \* subset of ChainNames: the configured strategy chains
  RootPre,        \* set of index sets: which of f, f#1, f#2 pre-exist in the download directory
  SubPre,         \* set of index sets: which pre-exist in the kept directory; {9} = directory absent
  EqualNames,     \* TRUE: all downloads ask for the same file name (race configurations)
  SanitiseDots,
  Reserve,
  AllowAbort,     \* TRUE: downloads may be aborted by the user at any point of their start-up
  ForeignRelease,
  OrderedArrival, \* TRUE: download d+1 reaches the reservation after download d did (breaks the
                  \*       symmetry of equal downloads; bounds the cancellation configurations)
  AllowPause, AllowIoError, AllowResume,
  ForgetUncreated,
  LockPerName,
  MaxInterrupts   \* bound on the number of Abort / Pause / IoError steps of a behaviour

MaxIdx == 6

\* chains are named by the initials of their strategies, in order of application
ChainNames == {"D", "DK", "KD", "DN", "ND", "DKN", "DNK", "KDN", "KND", "NDK", "NKD"}
ChainSeq(c) ==
  CASE c = "D" -> <<"D">> [] c = "DK" -> <<"D", "K">> [] c = "KD" -> <<"K", "D">>
    [] c = "DN" -> <<"D", "N">> [] c = "ND" -> <<"N", "D">>
    [] c = "DKN" -> <<"D", "K", "N">> [] c = "DNK" -> <<"D", "N", "K">> [] c = "KDN" -> <<"K", "D", "N">>
    [] c = "KND" -> <<"K", "N", "D">> [] c = "NDK" -> <<"N", "D", "K">> [] c = "NKD" -> <<"N", "K", "D">>
\* a duplicate strategy is the last to look at the result: only then is freshness promised
DedupLast(c) == c \in {"DN", "DKN", "KDN"}

Paths == UNION {[1..n -> Comps] : n \in MinLen..MaxLen}

Last(s) == s[Len(s)]
Front(s) == SubSeq(s, 1, Len(s) - 1)

----------------------------------------------------------------------------
\* Names and the file system

IsDotName(c) == c \in {".", "..", ""}
IsAlias(c) == c = "@@x"                 \* naming.py:49  startswith('@@')
IsDrive(c) == c = "C:"                  \* naming.py:52  re.match('[a-zA-Z]{1}:')

NumName(b, i) == IF i = 0 THEN b ELSE b \o "#" \o ToString(i)

\* A position: `up` levels above the download directory (then `at` holds names that cannot
\* exist: outside the download directory only its ancestors exist), or inside it at `at`.
Root == [up |-> 0, at |-> <<>>]

Step(pos, c) ==
  IF c \in {".", ""} THEN pos
  ELSE IF c = ".." THEN (IF pos.at = <<>> THEN [up |-> pos.up + 1, at |-> <<>>]
                         ELSE [up |-> pos.up, at |-> Front(pos.at)])
  ELSE [up |-> pos.up, at |-> Append(pos.at, c)]

\* lexical normalisation of '.' and '..' (what the file system does when no symlink is involved)
RECURSIVE ResolveFrom(_, _)
ResolveFrom(pos, rel) == IF rel = <<>> THEN pos ELSE ResolveFrom(Step(pos, Head(rel)), Tail(rel))
Resolve(rel) == ResolveFrom(Root, rel)

InsidePos(pos) == pos.up = 0 /\ pos.at # <<>>       \* a strict descendant of the download directory

VARIABLES
  files,      \* existing files, sequences of names relative to the download directory
  dirs,       \* existing directories below the download directory
  chain,      \* the configured chain (a ChainNames element)
  remote,     \* per download: the remote path (sequence of components)
  pc,         \* per download: choose, wait, mkdir, touch, start, open, writing, done, refused,
              \* failed, aborted
  chosen,     \* per download: the chosen local path relative to the download directory
              \* (directory components as returned, then the file name), <<>> = none
  fresh,      \* per download: the chosen path did not exist when it was chosen
  lock,       \* per lock key: holder of the download-path lock (Reserve only), 0 = free
  made,       \* per download: its local file was created (reserved) by this download
  nint        \* number of interruptions (Abort / Pause / IoError) so far

vars == <<files, dirs, chain, remote, pc, chosen, fresh, lock, made, nint>>

IsDirPos(pos) == IF pos.up > 0 THEN pos.at = <<>> ELSE (pos.at = <<>> \/ pos.at \in dirs)
ExistsPos(pos) == IsDirPos(pos) \/ (pos.up = 0 /\ pos.at \in files)

\* os.path.exists(join(download, rel)): every prefix must be an existing directory
RECURSIVE ExistsFrom(_, _)
ExistsFrom(pos, rel) ==
  IF rel = <<>> THEN ExistsPos(pos)
  ELSE IsDirPos(pos) /\ ExistsFrom(Step(pos, Head(rel)), Tail(rel))
Exists(rel) == ExistsFrom(Root, rel)

----------------------------------------------------------------------------
\* The strategies.  A location is [dir |-> components below the download directory, file |-> name].

\* `san` is the position of the SanitiseDots switch the transcription is evaluated for
Split(p) == SelectSeq(p, LAMBDA c : c # "")                      \* utils.py:29-31
Parts(p, san) == IF san THEN SelectSeq(Split(p), LAMBDA c : c \notin {".", ".."}) ELSE Split(p)

\* naming.py:30-31   (IndexError on an empty component list: a refusal, see Choose)
ApplyD(p, loc, san) == [dir |-> loc.dir, file |-> Last(Parts(p, san))]

\* naming.py:37-56
ApplyK(p, loc, san) ==
  LET ps == Parts(p, san) IN
    IF Len(ps) = 1 THEN loc
    ELSE LET cd == ps[Len(ps) - 1] IN
           IF IsAlias(cd) \/ IsDrive(cd) THEN loc
           ELSE [dir |-> Append(loc.dir, cd), file |-> loc.file]

\* naming.py:61-62  should_be_applied
NeedsN(loc) == Exists(Append(loc.dir, loc.file))

\* naming.py:71-88: indices of the numbered siblings found by listdir(local_dir), next free one
IndicesAt(loc) ==
  LET pos == Resolve(loc.dir) IN
    IF pos.up > 0 THEN {}
    ELSE {i \in 1..MaxIdx : LET e == Append(pos.at, NumName(loc.file, i)) IN e \in files \/ e \in dirs}
SetMin(S) == CHOOSE x \in S : \A y \in S : x <= y
SetMax(S) == CHOOSE x \in S : \A y \in S : x >= y
NextIdx(S) == IF S = {} THEN 1 ELSE SetMin((SetMin(S)..(SetMax(S) + 1)) \ S)
ApplyN(loc) == [dir |-> loc.dir, file |-> NumName(loc.file, NextIdx(IndicesAt(loc)))]

\* naming.py:91-105
RECURSIVE RunChain(_, _, _, _)
RunChain(ch, p, loc, san) ==
  IF ch = <<>> THEN loc
  ELSE LET s == Head(ch)
           nxt == CASE s = "D" -> ApplyD(p, loc, san)
                    [] s = "K" -> ApplyK(p, loc, san)
                    [] s = "N" -> IF NeedsN(loc) THEN ApplyN(loc) ELSE loc
       IN RunChain(Tail(ch), p, nxt, san)

\* every chain of the domain contains D, so an empty component list raises (IndexError)
RefusesX(p, san) == Parts(p, san) = <<>>
PredictX(c, p, san) ==
  LET loc == RunChain(ChainSeq(c), p, [dir |-> <<>>, file |-> ""], san) IN Append(loc.dir, loc.file)
Refuses(p) == RefusesX(p, SanitiseDots)
Predict(c, p) == PredictX(c, p, SanitiseDots)

------------------------------------------------------------------------\* the lock a download competes for: the only one, or (LockPerName) the one of its remote file name
LockKeys == Comps \cup {"*"}
Key(d) == IF LockPerName /\ Split(remote[d]) # <<>> THEN Last(Split(remote[d])) ELSE "*"
Free(d) == lock[Key(d)] = 0
Holds(d) == lock[Key(d)] = d
Taken(d) == [lock EXCEPT ![Key(d)] = d]
Dropped(d) == [lock EXCEPT ![Key(d)] = 0]


----
\* Initial states: remote paths, chain, pre-existing contents derived from download 1's path

Regular(p) == SelectSeq(p, LAMBDA c : ~IsDotName(c))
PreFiles(p, P, Q) ==
  LET ps == Regular(p) IN
    IF ps = <<>> THEN {}
    ELSE LET f == Last(ps)
             root == {<<NumName(f, i)>> : i \in P}
         IN IF Len(ps) >= 2 /\ Q # {9} /\ <<ps[Len(ps) - 1]>> \notin root
              THEN root \cup {<<ps[Len(ps) - 1], NumName(f, i)>> : i \in Q}
              ELSE root
PreDirs(p, P, Q) ==
  LET ps == Regular(p) IN
    IF Len(ps) >= 2 /\ Q # {9} /\ <<ps[Len(ps) - 1]>> \notin {<<NumName(Last(ps), i)>> : i \in P}
      THEN {<<ps[Len(ps) - 1]>>} ELSE {}

\* pre-existing contents only matter to chains with the duplicate strategy; the others get two
HasN(c) == c \in {"DN", "ND", "DKN", "DNK", "KDN", "KND", "NDK", "NKD"}
PreChoices(c) == IF HasN(c) THEN RootPre \X SubPre ELSE {<<{}, {9}>>, <<{0}, {0}>>}

Init ==
  /\ chain \in Chains
  /\ remote \in [Downloads -> Paths]
  /\ EqualNames => \A d, e \in Downloads :
         /\ Regular(remote[d]) # <<>>
         /\ Last(Regular(remote[d])) = Last(Regular(remote[e]))
  /\ \E pq \in PreChoices(chain) :
       LET p1 == remote[CHOOSE d \in Downloads : \A e \in Downloads : d <= e] IN
         /\ files = PreFiles(p1, pq[1], pq[2])
         /\ dirs = PreDirs(p1, pq[1], pq[2])
  /\ pc = [d \in Downloads |-> "choose"]
  /\ chosen = [d \in Downloads |-> <<>>]
  /\ fresh = [d \in Downloads |-> TRUE]
  /\ lock = [k \in LockKeys |-> 0]
  /\ made = [d \in Downloads |-> FALSE]
  /\ nint = 0

----------------------------------------------------------------------------
\* Actions

Active(d) == pc[d] \in {"mkdir", "touch", "start", "open", "writing"}

\* transfer/manager.py:678-680: local_path := join(calculate_download_path(remote_path)).
\* `out` is the chosen path; the design uses the transcription of the strategies, the trace
\* spec binds it from the log (the property constrains the choice, not how it is computed).
Arrived(d) == pc[d] # "choose"
MayArrive(d) == OrderedArrival => \A e \in Downloads : e < d => Arrived(e)

\* repaired design: the lock is taken: the download waits in acquire() (a suspension point)
Wait(d) ==
  /\ pc[d] = "choose" /\ MayArrive(d)
  /\ Reserve /\ ~Free(d)
  /\ pc' = [pc EXCEPT ![d] = "wait"]
  /\ UNCHANGED <<files, dirs, chain, remote, chosen, fresh, lock, made, nint>>

ChooseAs(d, out) ==
  /\ pc[d] \in {"choose", "wait"} /\ (pc[d] = "choose" => MayArrive(d))
  /\ Reserve => Free(d)
  /\ chosen' = [chosen EXCEPT ![d] = out]
  /\ fresh' = [fresh EXCEPT ![d] = ~Exists(out)]
  /\ pc' = [pc EXCEPT ![d] = "mkdir"]
  /\ lock' = IF Reserve THEN Taken(d) ELSE lock
  /\ made' = [made EXCEPT ![d] = FALSE]
  /\ UNCHANGED <<files, dirs, chain, remote, nint>>

\* the code raises instead of choosing: nothing is chosen, nothing is created
Refuse(d) ==
  /\ pc[d] \in {"choose", "wait"} /\ (pc[d] = "choose" => MayArrive(d))
  /\ Reserve => Free(d)
  /\ pc' = [pc EXCEPT ![d] = "refused"]
  /\ UNCHANGED <<files, dirs, chain, remote, chosen, fresh, lock, made, nint>>

Choose(d) ==
  IF Refuses(remote[d]) THEN Refuse(d) ELSE ChooseAs(d, Predict(chain, remote[d]))

\* prefixes of a directory position that makedirs has to create
DirPrefixes(at) == {SubSeq(at, 1, n) : n \in 1..Len(at)}

\* what download d remembers of its path when it leaves the prepare step without a file
Remembered(d) ==
  IF ForgetUncreated /\ ~made[d] THEN [chosen EXCEPT ![d] = <<>>] ELSE chosen

\* an OSError inside the prepare step fails the transfer (transfer/manager.py `except OSError`)
GiveUp(d) ==
  /\ pc' = [pc EXCEPT ![d] = "failed"]
  /\ lock' = IF Holds(d) THEN Dropped(d) ELSE lock
  /\ chosen' = Remembered(d)
  /\ UNCHANGED <<files, dirs>>

\* shares/manager.py:287-291 create_directory(dirname(local_path)): exists + makedirs in the executor.
\* An OSError (a file is in the way) fails the transfer (transfer/manager.py:1097-1101).
Mkdir(d) ==
  /\ pc[d] = "mkdir"
  /\ LET pos == Resolve(Front(chosen[d])) IN
       IF pos.up > 0
         THEN /\ pc' = [pc EXCEPT ![d] = IF Reserve THEN "touch" ELSE "start"]   \* ancestors exist
              /\ UNCHANGED <<files, dirs, lock, chosen>>
       ELSE IF DirPrefixes(pos.at) \cap files # {}
         THEN GiveUp(d)
       ELSE /\ dirs' = dirs \cup DirPrefixes(pos.at)
            /\ pc' = [pc EXCEPT ![d] = IF Reserve THEN "touch" ELSE "start"]
            /\ UNCHANGED <<files, lock, chosen>>
  /\ UNCHANGED <<chain, remote, fresh, made, nint>>

\* open(local_path, 'ab'): creates the file if it is not there; fails on a directory or when
\* the parent is missing
CanOpen(d) ==
  LET pos == Resolve(chosen[d]) IN
    /\ ~IsDirPos(pos)
    /\ ~IsDotName(Last(chosen[d]))
    /\ IsDirPos(Resolve(Front(chosen[d])))
Created(d) == LET pos == Resolve(chosen[d]) IN IF pos.up = 0 THEN {pos.at} ELSE {}

\* repaired design only: the file is created before the lock is released
Touch(d) ==
  /\ pc[d] = "touch" /\ (Holds(d) \/ ForeignRelease)
  /\ IF CanOpen(d)
       THEN /\ files' = files \cup Created(d)
            /\ pc' = [pc EXCEPT ![d] = "start"]
            /\ lock' = Dropped(d)
            /\ made' = [made EXCEPT ![d] = TRUE]
            /\ UNCHANGED <<dirs, chosen>>
       ELSE GiveUp(d) /\ UNCHANGED made
  /\ UNCHANGED <<chain, remote, fresh, nint>>

\* transfer/manager.py:1103-1104  set_connection_state + state.start_transferring()
Start(d) ==
  /\ pc[d] = "start"
  /\ pc' = [pc EXCEPT ![d] = "open"]
  /\ UNCHANGED <<files, dirs, chain, remote, chosen, fresh, lock, made, nint>>

\* transfer/manager.py:1115  aiofiles.open(local_path, 'ab')
Open(d) ==
  /\ pc[d] = "open"
  /\ IF CanOpen(d)
       THEN /\ files' = files \cup Created(d)
            /\ pc' = [pc EXCEPT ![d] = "writing"]
            /\ made' = [made EXCEPT ![d] = TRUE]
            /\ UNCHANGED <<dirs, lock, chosen>>
       ELSE GiveUp(d) /\ UNCHANGED made
  /\ UNCHANGED <<chain, remote, fresh, nint>>

\* the transfer ends (COMPLETE / FAILED / INCOMPLETE ...): no longer active
Finish(d) ==
  /\ pc[d] = "writing"
  /\ pc' = [pc EXCEPT ![d] = "done"]
  /\ UNCHANGED <<files, dirs, chain, remote, chosen, fresh, lock, made, nint>>

Interruptible(d) == pc[d] \in {"wait", "mkdir", "touch", "start", "open", "writing"}
Released(d) == IF Holds(d) \/ (pc[d] = "wait" /\ ForeignRelease) THEN Dropped(d) ELSE lock

\* The user aborts (removes) download d: its task is cancelled at its current await, the lock is
\* released if d holds it (`async with`), the local file is removed and the path forgotten.
\* ForeignRelease: a waiter's `finally: release()` runs although it never got the lock.
Abort(d) ==
  /\ AllowAbort /\ nint < MaxInterrupts
  /\ Interruptible(d)
  /\ pc' = [pc EXCEPT ![d] = "aborted"]
  /\ lock' = Released(d)
  /\ files' = IF chosen[d] # <<>> THEN files \ Created(d) ELSE files
  /\ chosen' = [chosen EXCEPT ![d] = <<>>]
  /\ fresh' = [fresh EXCEPT ![d] = TRUE]
  /\ made' = [made EXCEPT ![d] = FALSE]
  /\ nint' = nint + 1
  /\ UNCHANGED <<dirs, chain, remote>>

\* The user pauses download d: the task is cancelled the same way, nothing is removed
\* (transfer/state.py InitializingState.pause / DownloadingState.pause)
Pause(d) ==
  /\ AllowPause /\ nint < MaxInterrupts
  /\ Interruptible(d)
  /\ pc' = [pc EXCEPT ![d] = "paused"]
  /\ lock' = Released(d)
  /\ chosen' = IF pc[d] \in {"mkdir", "touch"} THEN Remembered(d) ELSE chosen
  /\ nint' = nint + 1
  /\ UNCHANGED <<files, dirs, chain, remote, fresh, made>>

\* create_directory / open inside the prepare step raise an OSError that has nothing to do with
\* the modelled directory contents (EMFILE, EACCES, ENOSPC ...)
IoError(d) ==
  /\ AllowIoError /\ nint < MaxInterrupts
  /\ pc[d] \in {"mkdir", "touch"}
  /\ GiveUp(d)
  /\ nint' = nint + 1
  /\ UNCHANGED <<chain, remote, fresh, made>>

\* The download is queued again and restarted by the uploader.  transfer/manager.py
\* _prepare_download_path: a transfer that has a local path skips the calculation and goes on
\* with that path; otherwise it chooses like a new download.
Resume(d) ==
  /\ AllowResume
  /\ pc[d] \in {"paused", "failed", "aborted"}
  /\ IF chosen[d] = <<>>
       THEN /\ pc' = [pc EXCEPT ![d] = "choose"]
            /\ UNCHANGED lock
       ELSE /\ Reserve => Free(d)
            /\ pc' = [pc EXCEPT ![d] = "mkdir"]
            /\ lock' = IF Reserve THEN Taken(d) ELSE lock
  /\ UNCHANGED <<files, dirs, chain, remote, chosen, fresh, made, nint>>

Next == \E d \in Downloads :
          \/ Choose(d) \/ Wait(d) \/ Mkdir(d) \/ Touch(d) \/ Start(d) \/ Open(d) \/ Finish(d)
          \/ Abort(d) \/ Pause(d) \/ IoError(d) \/ Resume(d)

Spec == Init /\ [][Next]_vars

----------------------------------------------------------------------------
\* Properties (C09 statement)

TypeOK ==
  /\ chain \in ChainNames
  /\ \A d \in Downloads :
       pc[d] \in {"choose", "wait", "mkdir", "touch", "start", "open", "writing", "done", "refused", "failed",
                 "aborted", "paused"}
  /\ lock \in [LockKeys -> Downloads \cup {0}]

HasChosen(d) == chosen[d] # <<>>

\* the chosen path lies strictly inside the download directory
Inside == \A d \in Downloads : HasChosen(d) => InsidePos(Resolve(chosen[d]))

\* it names a regular file: never '.', '..' or empty
RegularName == \A d \in Downloads : HasChosen(d) => ~IsDotName(Last(chosen[d]))

\* it did not exist when it was chosen (promised when a duplicate strategy has the last word)
FreshWhenChosen == \A d \in Downloads : (HasChosen(d) /\ DedupLast(chain)) => fresh[d]

\* two downloads active at the same time never have the same local path
DistinctActivePaths ==
  DedupLast(chain) =>
    \A d, e \in Downloads : (d # e /\ Active(d) /\ Active(e)) => Resolve(chosen[d]) # Resolve(chosen[e])

\* the reservation is exclusive: whoever is between choice and creation holds the lock
LockHeld == (Reserve /\ ~ForeignRelease) => \A d \in Downloads : pc[d] \in {"mkdir", "touch"} => Holds(d)

\* state constraint of the path-algebra configurations: what happens after the choice is explored
\* by the race configurations
ChoiceOnly == \A d \in Downloads : pc[d] \in {"choose", "mkdir", "refused"}

\* nothing is ever created outside the download directory (follows from Inside; kept separate)
NothingOutside == \A f \in files \cup dirs : f # <<>>
=============================================================================

---------------------------- MODULE NamingTrace ----------------------------
(***************************************************************************)
(* Trace validation for C09: executions of the real naming code recorded   *)
(* by harness/props/c09.py are checked against Naming.                     *)
(*                                                                         *)
(* Records (JSON, names already abstracted: b#i = numbered duplicate i):   *)
(*   case     : chain, files, dirs, remotes         first record: configured*)
(*              chain, pre-existing entries of the download directory,      *)
(*              remote path (component sequence) per download               *)
(*   chosen   : d, rel, existed, realInside   download d was given the      *)
(*              local path <download>/rel (components as returned, '.' and  *)
(*              '..' kept); existed = lexists() at that moment; realInside  *)
(*              = os.path.realpath is a strict descendant of the download   *)
(*              directory                                                   *)
(*   refused  : d, clean      the code raised instead of choosing; clean =  *)
(*              nothing was created                                         *)
(*   created  : rel           a new file appeared below the download dir    *)
(*   iofail   : d             creating the directory / opening the file of  *)
(*              download d raised an OSError (the download gives up)        *)
(*   finished : d             the transfer reached a final state            *)
(*   aborting : d             the user called TransferManager.abort for d   *)
(*              (recorded when the call is made: from here on d is not an   *)
(*              active download, its task is being cancelled)               *)
(*   abort_refused : d        that call (abort / pause) raised: d goes on    *)
(*   pausing  : d             the user called TransferManager.pause for d   *)
(*   requeued : d             the user queued d again (it was paused, failed *)
(*              or aborted); the uploader restarts it                       *)
(*   resumed  : d, rel        d goes on with the local path it still had:   *)
(*              it entered the prepare step / became DOWNLOADING without a  *)
(*              new choice                                                  *)
(*   removed  : rel           a file below the download directory vanished  *)
(* Anything created outside the download directory is recorded as          *)
(* `created_outside` and has no action here: the trace is rejected.         *)
(*                                                                         *)
(* The choice is bound from the log (ChooseAs): the property constrains    *)
(* what is chosen, not how.  Whether the choice equals the transcription   *)
(* of the shipped strategies (either position of SanitiseDots) is only     *)
(* printed ("DISAGREE"), it is not a verdict.                               *)
(* Mkdir / Start / Open-without-creation are silent steps.                  *)
(***************************************************************************)
EXTENDS Naming, Json, IOUtils

Traces == JsonDeserialize(IOEnv.TRACE_FILE)

VARIABLES tid, l, marks, excused, obs, before, why

tvars == <<vars, tid, l, marks, excused, obs, before, why>>

T == Traces[tid]
Rec == T[l]
ToSet(s) == {s[i] : i \in 1..Len(s)}

TInit ==
  /\ tid \in 1..Len(Traces)
  /\ l = 2
  /\ Len(Traces[tid]) >= 1 /\ Traces[tid][1].ev = "case"
  /\ LET c == Traces[tid][1] IN
       /\ chain = c.chain
       /\ files = ToSet(c.files)
       /\ dirs = ToSet(c.dirs)
       /\ remote = [d \in Downloads |-> IF d <= Len(c.remotes) THEN c.remotes[d] ELSE <<>>]
  /\ pc = [d \in Downloads |-> "choose"]
  /\ chosen = [d \in Downloads |-> <<>>]
  /\ fresh = [d \in Downloads |-> TRUE]
  /\ lock = [k \in LockKeys |-> 0]
  /\ made = [d \in Downloads |-> FALSE]
  /\ nint = 0
  /\ marks = {}
  /\ excused = {}
  /\ obs = [d \in Downloads |-> [existed |-> FALSE, realInside |-> TRUE]]
  /\ before = [d \in Downloads |-> "choose"]
  /\ why = [d \in Downloads |-> "none"]      \* how the download last became inactive

IsEv(e) == l <= Len(T) /\ Rec.ev = e
Consume == l' = l + 1 /\ UNCHANGED <<tid, before, why>>

Agrees(d, rel) ==
  \E san \in BOOLEAN : ~RefusesX(remote[d], san) /\ PredictX(chain, remote[d], san) = rel
Note(d, ok) == IF ok THEN TRUE ELSE PrintT(<<"DISAGREE", tid, d>>)

Observe(d) == obs' = [obs EXCEPT ![d] = [existed |-> Rec.existed, realInside |-> Rec.realInside]]

\* downloads that were given the same path and have not created their file yet
Colliders(d, rel) ==
  {e \in Downloads \ {d} : pc[e] \in {"mkdir", "start", "open"} /\ Resolve(chosen[e]) = Resolve(rel)}

TChosen ==
  /\ IsEv("chosen")
  /\ Rec.d \in Downloads
  /\ Len(Rec.rel) >= 1
  /\ ChooseAs(Rec.d, Rec.rel)
  /\ Observe(Rec.d)
  /\ Note(Rec.d, Agrees(Rec.d, Rec.rel))
  /\ Consume /\ UNCHANGED <<marks, excused>>

\* Tolerated deviation (finding "race:same-local-path:check-then-create"): the path is given to
\* a second download between the first one's choice and the creation of its file.  The step is
\* marked and only the pairs it produced are excluded from DistinctActivePaths; every other
\* property keeps judging the step.
TChosenRace ==
  /\ IsEv("chosen")
  /\ Rec.d \in Downloads
  /\ Len(Rec.rel) >= 1
  /\ ~Rec.existed /\ ~Exists(Rec.rel)
  /\ Colliders(Rec.d, Rec.rel) # {}
  /\ ChooseAs(Rec.d, Rec.rel)
  /\ Observe(Rec.d)
  /\ excused' = excused \cup {{Rec.d, e} : e \in Colliders(Rec.d, Rec.rel)}
  /\ marks' = marks \cup {"race:same-local-path:check-then-create"}
  /\ Consume

TRefused ==
  /\ IsEv("refused")
  /\ Rec.d \in Downloads
  /\ Rec.clean
  /\ Refuse(Rec.d)
  /\ Note(Rec.d, \E san \in BOOLEAN : RefusesX(remote[Rec.d], san))
  /\ Consume /\ UNCHANGED <<marks, excused, obs>>

\* a new file appeared: it is the chosen path of an active download that opens it now ...
TCreated ==
  /\ IsEv("created")
  /\ \E d \in Downloads :
       /\ pc[d] = "open" /\ CanOpen(d)
       /\ Created(d) = {Rec.rel} /\ Rec.rel \notin files
       /\ Open(d)
  /\ Consume /\ UNCHANGED <<marks, excused, obs>>

\* ... or some other file strictly inside the download directory (the property does not
\* forbid auxiliary files there)
TCreatedOther ==
  /\ IsEv("created")
  /\ Len(Rec.rel) >= 1
  /\ \A d \in Downloads : HasChosen(d) => Resolve(chosen[d]).at # Rec.rel
  /\ files' = files \cup {Rec.rel}
  /\ UNCHANGED <<dirs, chain, remote, pc, chosen, fresh, lock, made, nint>>
  /\ Consume /\ UNCHANGED <<marks, excused, obs>>

\* mkdir / open of download d's path raised an OSError (seen by the harness, which executes the
\* gated call): the download has given up its path, the transfer is about to be failed
TIoFail ==
  /\ IsEv("iofail")
  /\ Rec.d \in Downloads
  /\ pc[Rec.d] \in {"mkdir", "start", "open", "failed"}
  /\ pc' = [pc EXCEPT ![Rec.d] = "failed"]
  /\ UNCHANGED <<files, dirs, chain, remote, chosen, fresh, lock, made, nint>>
  /\ why' = [why EXCEPT ![Rec.d] = "oserror"]
  /\ l' = l + 1 /\ UNCHANGED <<tid, before, marks, excused, obs>>

TFinished ==
  /\ IsEv("finished")
  /\ Rec.d \in Downloads
  /\ pc[Rec.d] \notin {"choose", "done"}
  /\ pc' = [pc EXCEPT ![Rec.d] = "done"]
  /\ UNCHANGED <<files, dirs, chain, remote, chosen, fresh, lock, made, nint>>
  /\ Consume /\ UNCHANGED <<marks, excused, obs>>

\* the user aborts download d (Abort of the design spec, observed in two halves: the call, and
\* the removal of the file / the ABORTED notification, which arrive as `removed` / `finished`)
TAborting ==
  /\ IsEv("aborting")
  /\ Rec.d \in Downloads
  /\ pc[Rec.d] \notin {"done", "aborted"}
  /\ before' = [before EXCEPT ![Rec.d] = pc[Rec.d]]
  /\ pc' = [pc EXCEPT ![Rec.d] = "aborted"]
  /\ UNCHANGED <<files, dirs, chain, remote, chosen, fresh, lock, made, nint>>
  /\ why' = [why EXCEPT ![Rec.d] = "abort"]
  /\ l' = l + 1 /\ UNCHANGED <<tid, marks, excused, obs>>

TAbortRefused ==
  /\ IsEv("abort_refused")
  /\ Rec.d \in Downloads
  /\ pc[Rec.d] \in {"aborted", "paused"}
  /\ pc' = [pc EXCEPT ![Rec.d] = before[Rec.d]]
  /\ UNCHANGED <<files, dirs, chain, remote, chosen, fresh, lock, made, nint>>
  /\ Consume /\ UNCHANGED <<marks, excused, obs>>

\* the user pauses download d: recorded when the call is made, d is not active from here on
TPausing ==
  /\ IsEv("pausing")
  /\ Rec.d \in Downloads
  /\ pc[Rec.d] \notin {"done", "aborted", "paused", "requeued"}
  /\ before' = [before EXCEPT ![Rec.d] = pc[Rec.d]]
  /\ pc' = [pc EXCEPT ![Rec.d] = "paused"]
  /\ UNCHANGED <<files, dirs, chain, remote, chosen, fresh, lock, made, nint>>
  /\ why' = [why EXCEPT ![Rec.d] = "pause"]
  /\ l' = l + 1 /\ UNCHANGED <<tid, marks, excused, obs>>

\* the user queues an inactive download again
TRequeued ==
  /\ IsEv("requeued")
  /\ Rec.d \in Downloads
  /\ pc[Rec.d] \in {"paused", "failed", "aborted", "done"}
  /\ pc' = [pc EXCEPT ![Rec.d] = "requeued"]
  /\ UNCHANGED <<files, dirs, chain, remote, chosen, fresh, lock, made, nint>>
  /\ Consume /\ UNCHANGED <<marks, excused, obs>>

\* downloads that are active with the path `rel`
Users(d, rel) == {e \in Downloads \ {d} : Active(e) /\ Resolve(chosen[e]) = Resolve(rel)}

\* Resume of the design spec with a kept path: the download goes on with the path it still had
TResumed ==
  /\ IsEv("resumed")
  /\ Rec.d \in Downloads
  /\ Len(Rec.rel) >= 1
  /\ pc[Rec.d] = "requeued"
  /\ pc' = [pc EXCEPT ![Rec.d] = "mkdir"]
  /\ chosen' = [chosen EXCEPT ![Rec.d] = Rec.rel]
  /\ UNCHANGED <<files, dirs, chain, remote, fresh, lock, made, nint>>
  /\ Consume /\ UNCHANGED <<marks, excused, obs>>

\* Tolerated deviation (finding "resume:stale-local-path:never-created:after-<pause|oserror|abort>"): the path the download
\* kept was never materialised by it and has meanwhile been given to another, active download.
\* Marked; only the pairs it produced are excluded from DistinctActivePaths.
TResumedStale ==
  /\ IsEv("resumed")
  /\ Rec.d \in Downloads
  /\ Len(Rec.rel) >= 1
  /\ pc[Rec.d] = "requeued"
  /\ ~made[Rec.d]
  /\ Users(Rec.d, Rec.rel) # {}
  /\ pc' = [pc EXCEPT ![Rec.d] = "mkdir"]
  /\ chosen' = [chosen EXCEPT ![Rec.d] = Rec.rel]
  /\ excused' = excused \cup {{Rec.d, e} : e \in Users(Rec.d, Rec.rel)}
  /\ marks' = marks \cup {"resume:stale-local-path:never-created:after-" \o why[Rec.d]}
  /\ UNCHANGED <<files, dirs, chain, remote, fresh, lock, made, nint>>
  /\ Consume /\ UNCHANGED obs

\* a file vanished: it is the local file of a download (abort removes it)
TRemoved ==
  /\ IsEv("removed")
  /\ \E d \in Downloads : HasChosen(d) /\ Created(d) = {Rec.rel}
  /\ files' = files \ {Rec.rel}
  /\ UNCHANGED <<dirs, chain, remote, pc, chosen, fresh, lock, made, nint>>
  /\ Consume /\ UNCHANGED <<marks, excused, obs>>

\* a re-queued download that forgot its path chooses like a new one (Resume of the design spec)
Forget(d) ==
  /\ pc[d] = "requeued"
  /\ pc' = [pc EXCEPT ![d] = "choose"]
  /\ chosen' = [chosen EXCEPT ![d] = <<>>]
  /\ fresh' = [fresh EXCEPT ![d] = TRUE]
  /\ UNCHANGED <<files, dirs, chain, remote, lock, made, nint>>

Silent ==
  /\ l <= Len(T)
  /\ \E d \in Downloads :
       \/ Forget(d)
       \/ Mkdir(d)
       \/ Start(d)
       \/ (pc[d] = "open" /\ (~CanOpen(d) \/ Created(d) \subseteq files) /\ Open(d))
  /\ UNCHANGED <<tid, l, marks, excused, obs, before, why>>

Done ==
  /\ l = Len(T) + 1
  /\ PrintT(<<"ACCEPT", tid, marks>>)
  /\ l' = l + 1
  /\ UNCHANGED <<vars, tid, marks, excused, obs, before, why>>

Finished == l = Len(T) + 2 /\ UNCHANGED tvars

TNext == TChosen \/ TChosenRace \/ TRefused \/ TCreated \/ TCreatedOther \/ TIoFail \/ TFinished
         \/ TAborting \/ TAbortRefused \/ TRemoved \/ TPausing \/ TRequeued \/ TResumed \/ TResumedStale
         \/ Silent \/ Done \/ Finished

TSpec == TInit /\ [][TNext]_tvars

----------------------------------------------------------------------------
\* the properties as seen on the real file system
RealInside == \A d \in Downloads : HasChosen(d) => obs[d].realInside
RealFresh == \A d \in Downloads : (HasChosen(d) /\ DedupLast(chain)) => ~obs[d].existed

\* DistinctActivePaths with the contribution of marked steps excluded
DistinctActivePathsX ==
  DedupLast(chain) =>
    \A d, e \in Downloads :
      (d # e /\ Active(d) /\ Active(e) /\ {d, e} \notin excused) => Resolve(chosen[d]) # Resolve(chosen[e])
=============================================================================

---------------------------- MODULE NamingTrace ----------------------------
(***************************************************************************)
(* Trace validation for C09: executions of the real naming code recorded   *)
(* by harness/props/c09.py are checked against Naming.                     *)
(*                                                                         *)
(* Records (JSON, names already abstracted: b#i = numbered duplicate i):   *)
(*   case     : chain, files, dirs, remotes         first record: configured*)
(*              chain, pre-existing entries of the download directory,      *)
(*              remote path (component sequence) per download               *)
(*   chosen   : d, rel, existed, realInside   download d was given the      *)
(*              local path <download>/rel (components as returned, '.' and  *)
(*              '..' kept); existed = lexists() at that moment; realInside  *)
(*              = os.path.realpath is a strict descendant of the download   *)
(*              directory                                                   *)
(*   refused  : d, clean      the code raised instead of choosing; clean =  *)
(*              nothing was created                                         *)
(*   created  : rel           a new file appeared below the download dir    *)
(*   iofail   : d             creating the directory / opening the file of  *)
(*              download d raised an OSError (the download gives up)        *)
(*   finished : d             the transfer reached a final state            *)
(*   aborting : d             the user called TransferManager.abort for d   *)
(*              (recorded when the call is made: from here on d is not an   *)
(*              active download, its task is being cancelled)               *)
(*   abort_refused : d        that call raised: d goes on as before          *)
(*   removed  : rel           a file below the download directory vanished  *)
(* Anything created outside the download directory is recorded as          *)
(* `created_outside` and has no action here: the trace is rejected.         *)
(*                                                                         *)
(* The choice is bound from the log (ChooseAs): the property constrains    *)
(* what is chosen, not how.  Whether the choice equals the transcription   *)
(* of the shipped strategies (either position of SanitiseDots) is only     *)
(* printed ("DISAGREE"), it is not a verdict.                               *)
(* Mkdir / Start / Open-without-creation are silent steps.                  *)
(***************************************************************************)
EXTENDS Naming, Json, IOUtils

Traces == JsonDeserialize(IOEnv.TRACE_FILE)

VARIABLES tid, l, marks, excused, obs, before

tvars == <<vars, tid, l, marks, excused, obs, before>>

T == Traces[tid]
Rec == T[l]
ToSet(s) == {s[i] : i \in 1..Len(s)}

TInit ==
  /\ tid \in 1..Len(Traces)
  /\ l = 2
  /\ Len(Traces[tid]) >= 1 /\ Traces[tid][1].ev = "case"
  /\ LET c == Traces[tid][1] IN
       /\ chain = c.chain
       /\ files = ToSet(c.files)
       /\ dirs = ToSet(c.dirs)
       /\ remote = [d \in Downloads |-> IF d <= Len(c.remotes) THEN c.remotes[d] ELSE <<>>]
  /\ pc = [d \in Downloads |-> "choose"]
  /\ chosen = [d \in Downloads |-> <<>>]
  /\ fresh = [d \in Downloads |-> TRUE]
  /\ lock = 0
  /\ marks = {}
  /\ excused = {}
  /\ obs = [d \in Downloads |-> [existed |-> FALSE, realInside |-> TRUE]]
  /\ before = [d \in Downloads |-> "choose"]

IsEv(e) == l <= Len(T) /\ Rec.ev = e
Consume == l' = l + 1 /\ UNCHANGED <<tid, before>>

Agrees(d, rel) ==
  \E san \in BOOLEAN : ~RefusesX(remote[d], san) /\ PredictX(chain, remote[d], san) = rel
Note(d, ok) == IF ok THEN TRUE ELSE PrintT(<<"DISAGREE", tid, d>>)

Observe(d) == obs' = [obs EXCEPT ![d] = [existed |-> Rec.existed, realInside |-> Rec.realInside]]

\* downloads that were given the same path and have not created their file yet
Colliders(d, rel) ==
  {e \in Downloads \ {d} : pc[e] \in {"mkdir", "start", "open"} /\ Resolve(chosen[e]) = Resolve(rel)}

TChosen ==
  /\ IsEv("chosen")
  /\ Rec.d \in Downloads
  /\ Len(Rec.rel) >= 1
  /\ ChooseAs(Rec.d, Rec.rel)
  /\ Observe(Rec.d)
  /\ Note(Rec.d, Agrees(Rec.d, Rec.rel))
  /\ Consume /\ UNCHANGED <<marks, excused>>

\* Tolerated deviation (finding "race:same-local-path:check-then-create"): the path is given to
\* a second download between the first one's choice and the creation of its file.  The step is
\* marked and only the pairs it produced are excluded from DistinctActivePaths; every other
\* property keeps judging the step.
TChosenRace ==
  /\ IsEv("chosen")
  /\ Rec.d \in Downloads
  /\ Len(Rec.rel) >= 1
  /\ ~Rec.existed /\ ~Exists(Rec.rel)
  /\ Colliders(Rec.d, Rec.rel) # {}
  /\ ChooseAs(Rec.d, Rec.rel)
  /\ Observe(Rec.d)
  /\ excused' = excused \cup {{Rec.d, e} : e \in Colliders(Rec.d, Rec.rel)}
  /\ marks' = marks \cup {"race:same-local-path:check-then-create"}
  /\ Consume

TRefused ==
  /\ IsEv("refused")
  /\ Rec.d \in Downloads
  /\ Rec.clean
  /\ Refuse(Rec.d)
  /\ Note(Rec.d, \E san \in BOOLEAN : RefusesX(remote[Rec.d], san))
  /\ Consume /\ UNCHANGED <<marks, excused, obs>>

\* a new file appeared: it is the chosen path of an active download that opens it now ...
TCreated ==
  /\ IsEv("created")
  /\ \E d \in Downloads :
       /\ pc[d] = "open" /\ CanOpen(d)
       /\ Created(d) = {Rec.rel} /\ Rec.rel \notin files
       /\ Open(d)
  /\ Consume /\ UNCHANGED <<marks, excused, obs>>

\* ... or some other file strictly inside the download directory (the property does not
\* forbid auxiliary files there)
TCreatedOther ==
  /\ IsEv("created")
  /\ Len(Rec.rel) >= 1
  /\ \A d \in Downloads : HasChosen(d) => Resolve(chosen[d]).at # Rec.rel
  /\ files' = files \cup {Rec.rel}
  /\ UNCHANGED <<dirs, chain, remote, pc, chosen, fresh, lock>>
  /\ Consume /\ UNCHANGED <<marks, excused, obs>>

\* mkdir / open of download d's path raised an OSError (seen by the harness, which executes the
\* gated call): the download has given up its path, the transfer is about to be failed
TIoFail ==
  /\ IsEv("iofail")
  /\ Rec.d \in Downloads
  /\ pc[Rec.d] \in {"mkdir", "start", "open", "failed"}
  /\ pc' = [pc EXCEPT ![Rec.d] = "failed"]
  /\ UNCHANGED <<files, dirs, chain, remote, chosen, fresh, lock>>
  /\ Consume /\ UNCHANGED <<marks, excused, obs>>

TFinished ==
  /\ IsEv("finished")
  /\ Rec.d \in Downloads
  /\ pc[Rec.d] \notin {"choose", "done"}
  /\ pc' = [pc EXCEPT ![Rec.d] = "done"]
  /\ UNCHANGED <<files, dirs, chain, remote, chosen, fresh, lock>>
  /\ Consume /\ UNCHANGED <<marks, excused, obs>>

\* the user aborts download d (Abort of the design spec, observed in two halves: the call, and
\* the removal of the file / the ABORTED notification, which arrive as `removed` / `finished`)
TAborting ==
  /\ IsEv("aborting")
  /\ Rec.d \in Downloads
  /\ pc[Rec.d] \notin {"done", "aborted"}
  /\ before' = [before EXCEPT ![Rec.d] = pc[Rec.d]]
  /\ pc' = [pc EXCEPT ![Rec.d] = "aborted"]
  /\ UNCHANGED <<files, dirs, chain, remote, chosen, fresh, lock>>
  /\ l' = l + 1 /\ UNCHANGED <<tid, marks, excused, obs>>

TAbortRefused ==
  /\ IsEv("abort_refused")
  /\ Rec.d \in Downloads
  /\ pc[Rec.d] = "aborted"
  /\ pc' = [pc EXCEPT ![Rec.d] = before[Rec.d]]
  /\ UNCHANGED <<files, dirs, chain, remote, chosen, fresh, lock>>
  /\ Consume /\ UNCHANGED <<marks, excused, obs>>

\* a file vanished: it is the local file of a download (abort removes it)
TRemoved ==
  /\ IsEv("removed")
  /\ \E d \in Downloads : HasChosen(d) /\ Created(d) = {Rec.rel}
  /\ files' = files \ {Rec.rel}
  /\ UNCHANGED <<dirs, chain, remote, pc, chosen, fresh, lock>>
  /\ Consume /\ UNCHANGED <<marks, excused, obs>>

Silent ==
  /\ l <= Len(T)
  /\ \E d \in Downloads :
       \/ Mkdir(d)
       \/ Start(d)
       \/ (pc[d] = "open" /\ (~CanOpen(d) \/ Created(d) \subseteq files) /\ Open(d))
  /\ UNCHANGED <<tid, l, marks, excused, obs, before>>

Done ==
  /\ l = Len(T) + 1
  /\ PrintT(<<"ACCEPT", tid, marks>>)
  /\ l' = l + 1
  /\ UNCHANGED <<vars, tid, marks, excused, obs, before>>

Finished == l = Len(T) + 2 /\ UNCHANGED tvars

TNext == TChosen \/ TChosenRace \/ TRefused \/ TCreated \/ TCreatedOther \/ TIoFail \/ TFinished
         \/ TAborting \/ TAbortRefused \/ TRemoved
         \/ Silent \/ Done \/ Finished

TSpec == TInit /\ [][TNext]_tvars

----------------------------------------------------------------------------
\* the properties as seen on the real file system
RealInside == \A d \in Downloads : HasChosen(d) => obs[d].realInside
RealFresh == \A d \in Downloads : (HasChosen(d) /\ DedupLast(chain)) => ~obs[d].existed

\* DistinctActivePaths with the contribution of marked steps excluded
DistinctActivePathsX ==
  DedupLast(chain) =>
    \A d, e \in Downloads :
      (d # e /\ Active(d) /\ Active(e) /\ {d, e} \notin excused) => Resolve(chosen[d]) # Resolve(chosen[e])
=============================================================================

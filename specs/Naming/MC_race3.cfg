SPECIFICATION Spec
CONSTANTS
  Downloads = {1, 2, 3}
  Comps = {"n1", "n2", "n3"}
  MinLen = 1
  MaxLen = 2
  Chains = {"DN", "DKN", "KDN"}
  RootPre = {{}, {0}, {0, 1}}
  SubPre = {{9}, {0}}
  EqualNames = TRUE
  SanitiseDots = TRUE
  Reserve = TRUE
  AllowAbort = FALSE
  ForeignRelease = FALSE
  OrderedArrival = FALSE
  AllowPause = FALSE
  AllowIoError = FALSE
  AllowResume = FALSE
  ForgetUncreated = TRUE
  LockPerName = FALSE
  MaxInterrupts = 3
INVARIANT TypeOK
INVARIANT Inside
INVARIANT RegularName
INVARIANT FreshWhenChosen
INVARIANT DistinctActivePaths
INVARIANT NothingOutside
INVARIANT LockHeld
CHECK_DEADLOCK FALSE

"""Virtual-time asyncio event loop.

`VirtualLoop` is a SelectorEventLoop whose clock is a counter: when no handle is
ready and no I/O is pending, the selector advances the clock to the next timer
instead of sleeping.  `run_in_executor` runs the function inline (or through a
gate the driver controls).  Everything is single threaded and deterministic.
"""
from __future__ import annotations

import asyncio
import contextlib
import selectors
import time as _time
from typing import Any, Callable, Optional


class Deadlock(RuntimeError):
    """Raised when the loop has nothing ready, no timer and no I/O: the main
    coroutine can never finish."""


class _VSelector(selectors.BaseSelector):
    def __init__(self, loop: 'VirtualLoop'):
        self._real = selectors.DefaultSelector()
        self._loop = loop

    def register(self, fileobj, events, data=None):
        return self._real.register(fileobj, events, data)

    def unregister(self, fileobj):
        return self._real.unregister(fileobj)

    def modify(self, fileobj, events, data=None):
        return self._real.modify(fileobj, events, data)

    def select(self, timeout=None):
        events = self._real.select(0)
        if events:
            return events
        if timeout is None:
            # nothing scheduled at all
            if self._loop._on_idle is not None and self._loop._on_idle():
                return []
            raise Deadlock("virtual loop: nothing ready, no timers")
        if timeout > 0:
            self._loop._vtime += timeout
        return []

    def close(self):
        self._real.close()

    def get_map(self):
        return self._real.get_map()

    def get_key(self, fileobj):
        return self._real.get_key(fileobj)


class VirtualLoop(asyncio.SelectorEventLoop):
    def __init__(self, start: float = 1000.0):
        self._vtime = float(start)
        self._on_idle: Optional[Callable[[], bool]] = None
        self.executor_gate: Optional[Callable[[Callable, tuple], Optional[asyncio.Future]]] = None
        self.unhandled: list[dict] = []
        super().__init__(selector=_VSelector(self))
        self.set_exception_handler(self._record_exception)
        # asyncio's clock resolution would otherwise come from time.get_clock_info
        self._clock_resolution = 1e-9

    # -- clock ---------------------------------------------------------
    def time(self) -> float:
        return self._vtime

    def advance(self, dt: float):
        self._vtime += dt

    # -- executor --------------------------------------------------------
    def run_in_executor(self, executor, func, *args):
        if self.executor_gate is not None:
            fut = self.executor_gate(func, args)
            if fut is not None:
                return fut
        fut = self.create_future()
        try:
            res = func(*args)
        except BaseException as exc:  # noqa
            self.call_soon(_set_exc, fut, exc)
        else:
            self.call_soon(_set_res, fut, res)
        return fut

    # -- exception handler ------------------------------------------------
    def _record_exception(self, loop, context):
        self.unhandled.append(context)

    def set_exception_handler(self, handler):
        # keep recording even when the library installs its own handler
        if handler is None or handler == self._record_exception:
            super().set_exception_handler(self._record_exception)
            return

        def both(loop, context):
            self.unhandled.append(context)
            try:
                handler(loop, context)
            except Exception:
                pass
        super().set_exception_handler(both)


def _set_res(fut, res):
    if not fut.done():
        fut.set_result(res)


def _set_exc(fut, exc):
    if not fut.done():
        fut.set_exception(exc)


@contextlib.contextmanager
def virtual_time(loop: VirtualLoop, wall_offset: float = 1.7e9):
    """Point time.monotonic / time.time at the loop's clock."""
    real_mono, real_time = _time.monotonic, _time.time
    _time.monotonic = loop.time  # type: ignore
    _time.time = lambda: wall_offset + loop.time()  # type: ignore
    try:
        yield
    finally:
        _time.monotonic, _time.time = real_mono, real_time  # type: ignore


def run(main: Callable[[], Any], *, start: float = 1000.0, patch_time: bool = True,
        debug: bool = False):
    """Run coroutine function `main(loop)` to completion in a fresh VirtualLoop.

    Returns (result, loop).  Pending tasks are cancelled and the loop closed.
    """
    loop = VirtualLoop(start=start)
    loop.set_debug(debug)
    asyncio.set_event_loop(loop)
    cm = virtual_time(loop) if patch_time else contextlib.nullcontext()
    try:
        with cm:
            result = loop.run_until_complete(main(loop))
            return result, loop
    finally:
        try:
            with (virtual_time(loop) if patch_time else contextlib.nullcontext()):
                _cancel_all(loop)
        finally:
            asyncio.set_event_loop(None)
            loop.close()


def _cancel_all(loop):
    for _ in range(5):
        tasks = [t for t in asyncio.all_tasks(loop) if not t.done()]
        if not tasks:
            break
        try:
            for t in tasks:
                t.cancel()
            loop.run_until_complete(asyncio.gather(*tasks, return_exceptions=True))
        except (Deadlock, RecursionError):
            break


async def settle(loop: Optional[VirtualLoop] = None, rounds: int = 50):
    """Let the ready queue drain without advancing time: yields until no other
    handle is ready (bounded)."""
    loop = loop or asyncio.get_running_loop()
    for _ in range(rounds):
        await asyncio.sleep(0)
        # our own wakeup is the only ready handle when the queue is otherwise empty
        if len(loop._ready) == 0:  # type: ignore[attr-defined]
            return
    return


def pending_library_tasks(loop, exclude=()):
    cur = None
    try:
        cur = asyncio.current_task(loop)
    except RuntimeError:
        pass
    return [t for t in asyncio.all_tasks(loop)
            if not t.done() and t is not cur and t not in exclude]

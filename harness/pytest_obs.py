"""pytest plugin (loaded with `-p harness.pytest_obs`, nothing under /repo/tests is touched):
attaches observers to objects created while the repository's own tests run and dumps what they
saw as JSON traces for validation against the trace specs.

VERIF_OBS_OUT=<file>  where to write {"transfers": [[{old,new}, ...], ...], "connections": [...]}
"""
import json
import os

_transfer_traces = []
_conn_traces = []


def _install():
    from aioslsk.transfer import model as tm

    orig_init = tm.Transfer.__init__
    orig_setstate = tm.Transfer.__setstate__

    class _L:
        def __init__(self, log):
            self.log = log

        async def on_transfer_state_changed(self, transfer, old, new):
            self.log.append(dict(ev='notify', old=old.name, new=new.name))

    def attach(self):
        log = []
        _transfer_traces.append(log)
        lst = _L(log)
        self.__dict__['_verif_obs'] = lst       # strong ref; not pickled (see below)
        self.state_listeners.append(lst)

    def init(self, *a, **kw):
        orig_init(self, *a, **kw)
        attach(self)

    def setstate(self, st):
        st.pop('_verif_obs', None)
        orig_setstate(self, st)
        attach(self)

    orig_getstate = tm.Transfer.__getstate__

    def getstate(self):
        st = orig_getstate(self)
        st.pop('_verif_obs', None)
        return st

    tm.Transfer.__init__ = init
    tm.Transfer.__setstate__ = setstate
    tm.Transfer.__getstate__ = getstate

    # connection state reports, per connection object
    from aioslsk.network import connection as nc
    orig_set_state = nc.Connection.set_state

    async def set_state(self, state, close_reason=nc.CloseReason.UNKNOWN):
        log = self.__dict__.get('_verif_log')
        if log is None:
            log = []
            self.__dict__['_verif_log'] = log
            _conn_traces.append(dict(kind=type(self).__name__, incoming=bool(getattr(self, 'incoming', False)),
                                     events=log))
        log.append(dict(ev='state', st=state.name, reason=close_reason.name))
        return await orig_set_state(self, state, close_reason=close_reason)

    nc.Connection.set_state = set_state


def pytest_configure(config):
    _install()


def pytest_sessionfinish(session, exitstatus):
    out = os.environ.get('VERIF_OBS_OUT')
    if out:
        with open(out, 'w') as fh:
            json.dump(dict(transfers=[t for t in _transfer_traces if t],
                           connections=[c for c in _conn_traces if c['events']]), fh)

"""In-memory network for the virtual loop.

`SimNet.install()` replaces `asyncio.open_connection` / `asyncio.start_server`
(process-wide, inside the harness only) by duplex pipes built from real
`asyncio.StreamReader`s.  Delivery happens through `loop.call_soon`, so bytes
enter the ready queue at the tail exactly like socket callbacks do.

Per link the driver controls: connect outcome (ok / refuse / hang / delay),
segmentation, delivery delay, cuts (EOF or reset), write failure, back-pressure
and when `wait_closed` completes.
"""
from __future__ import annotations

import asyncio
import itertools
import struct
from typing import Any, Callable, Optional


class SimWriter:
    """Stands in for asyncio.StreamWriter on one end of a link."""

    def __init__(self, link: 'Link', side: int):
        self.link = link
        self.side = side
        self._closing = False
        self._closed_fut: Optional[asyncio.Future] = None
        self.fail_writes: Optional[BaseException] = None
        self.paused = False               # back-pressure: drain() blocks
        self._resume: Optional[asyncio.Future] = None
        self.hold_wait_closed = False      # wait_closed() blocks until release_wait_closed()
        self._wc_gate: Optional[asyncio.Future] = None
        self.written = bytearray()         # everything ever written (after close too: see dropped)
        self.write_calls: list[bytes] = []
        self.writes_after_close = 0

    # StreamWriter API ---------------------------------------------------
    def write(self, data: bytes):
        if self.fail_writes is not None:
            raise self.fail_writes
        if self._closing:
            self.writes_after_close += 1
            return
        data = bytes(data)
        self.written += data
        self.write_calls.append(data)
        self.link._deliver(self.side, data)

    def writelines(self, lines):
        for line in lines:
            self.write(line)

    async def drain(self):
        if self.fail_writes is not None:
            raise self.fail_writes
        if self.link.reset[self.side] is not None:
            raise self.link.reset[self.side]
        if self.paused:
            self._resume = asyncio.get_running_loop().create_future()
            await self._resume
        else:
            await asyncio.sleep(0)

    def resume(self):
        self.paused = False
        if self._resume is not None and not self._resume.done():
            self._resume.set_result(None)

    def close(self):
        if self._closing:
            return
        self._closing = True
        self.link._closed_by(self.side)

    def is_closing(self) -> bool:
        return self._closing

    async def wait_closed(self):
        if self.hold_wait_closed:
            self._wc_gate = asyncio.get_running_loop().create_future()
            await self._wc_gate
        else:
            await asyncio.sleep(0)

    def release_wait_closed(self):
        self.hold_wait_closed = False
        if self._wc_gate is not None and not self._wc_gate.done():
            self._wc_gate.set_result(None)

    def get_extra_info(self, name: str, default=None):
        if name == 'peername':
            return self.link.addr[1 - self.side]
        if name == 'sockname':
            return self.link.addr[self.side]
        return default

    def can_write_eof(self):
        return False

    @property
    def transport(self):
        return self


class Link:
    """A duplex connection. side 0 = connector, side 1 = acceptor."""
    _ids = itertools.count(1)

    def __init__(self, net: 'SimNet', addr0, addr1):
        self.id = next(Link._ids)
        self.net = net
        self.loop = net.loop
        self.addr = [addr0, addr1]
        self.readers = [asyncio.StreamReader(limit=2 ** 26), asyncio.StreamReader(limit=2 ** 26)]
        self.writers = [SimWriter(self, 0), SimWriter(self, 1)]
        self.closed = [False, False]      # side closed its writer
        self.eof_fed = [False, False]
        self.reset: list[Optional[BaseException]] = [None, None]
        self.delay = [0.0, 0.0]           # delivery delay for data written by side i
        self.segment: list[Optional[Callable[[bytes], list[bytes]]]] = [None, None]
        self.cut_after: list[Optional[int]] = [None, None]  # cut link after side i delivered k bytes
        self.cut_mode = 'eof'
        self.delivered = [0, 0]
        self._delayed: list[list] = [[], []]
        self.log: list[tuple[int, bytes]] = []   # (writer side, data) in write order
        self.dead = False
        self.opened_at = self.loop.time()

    # internal ------------------------------------------------------------
    def _feed(self, side: int, data: bytes):
        r = self.readers[side]
        if self.eof_fed[side] or r.exception() is not None:
            return
        r.feed_data(data)

    def _feed_eof(self, side: int):
        r = self.readers[side]
        if self.eof_fed[side] or r.exception() is not None:
            return
        self.eof_fed[side] = True
        r.feed_eof()

    def _deliver(self, from_side: int, data: bytes):
        if self.dead:
            return
        self.log.append((from_side, data))
        to = 1 - from_side
        ca = self.cut_after[from_side]
        if ca is not None:
            room = ca - self.delivered[from_side]
            if room <= 0:
                data = b''
            elif len(data) > room:
                data = data[:room]
        self.delivered[from_side] += len(data)
        chunks = [data] if data else []
        seg = self.segment[from_side]
        if seg is not None and data:
            chunks = [c for c in seg(data) if c]
        for c in chunks:
            self._schedule(from_side, self._feed, to, c)
        if ca is not None and self.delivered[from_side] >= ca:
            self._schedule(from_side, self.cut, self.cut_mode)

    def _schedule(self, from_side, fn, *args):
        d = self.delay[from_side]
        if d > 0:
            # FIFO per direction: timers with equal deadlines are not ordered by asyncio's heap, so
            # every timer callback runs the *oldest* pending item of this direction, not its own
            q = self._delayed[from_side]
            q.append((fn, args))
            self.loop.call_later(d, self._run_delayed, from_side)
        else:
            self.loop.call_soon(fn, *args)

    def _run_delayed(self, from_side):
        q = self._delayed[from_side]
        if q:
            fn, args = q.pop(0)
            fn(*args)

    def _closed_by(self, side: int):
        self.closed[side] = True
        # own reader sees EOF (connection_lost), remote reader sees EOF
        self.loop.call_soon(self._feed_eof, side)
        self._schedule(side, self._feed_eof, 1 - side)

    # driver API ------------------------------------------------------------
    def cut(self, mode: str = 'eof'):
        """Break the link now: both readers get EOF ('eof') or a reset error."""
        if self.dead:
            return
        self.dead = True
        for s in (0, 1):
            if mode == 'reset':
                exc = ConnectionResetError(104, 'Connection reset by peer')
                self.reset[s] = exc
                r = self.readers[s]
                if not self.eof_fed[s] and r.exception() is None:
                    r.set_exception(exc)
            else:
                self._feed_eof(s)

    @property
    def open(self) -> bool:
        return not self.dead and not (self.closed[0] or self.closed[1])


class SimServerHandle:
    """Returned by start_server."""

    def __init__(self, net: 'SimNet', key, cb):
        self.net, self.key, self.cb = net, key, cb
        self._serving = True
        self.hold_wait_closed = False
        self._gate: Optional[asyncio.Future] = None

    def is_serving(self):
        return self._serving

    def close(self):
        self._serving = False
        self.net.listeners.pop(self.key, None)

    async def wait_closed(self):
        if self.hold_wait_closed:
            self._gate = asyncio.get_running_loop().create_future()
            await self._gate
        else:
            await asyncio.sleep(0)

    @property
    def sockets(self):
        return []


class SimNet:
    """Registry of listeners + connect policy."""

    def __init__(self, loop: asyncio.AbstractEventLoop):
        self.loop = loop
        self.listeners: dict[tuple[str, int], SimServerHandle] = {}
        self.links: list[Link] = []
        self.connect_attempts: list[tuple[str, int, float]] = []
        # policy(host, port) -> 'ok' | 'refuse' | 'hang' | ('delay', seconds) | ('gate', Future)
        self.policy: Callable[[str, int], Any] = lambda host, port: 'ok'
        self.bind_fail: set[int] = set()
        self._ports = itertools.count(50000)
        self._orig = None
        self.on_link: Optional[Callable[[Link], None]] = None

    # patching ---------------------------------------------------------------
    def install(self):
        self._orig = (asyncio.open_connection, asyncio.start_server)
        asyncio.open_connection = self.open_connection  # type: ignore
        asyncio.start_server = self.start_server  # type: ignore
        return self

    def uninstall(self):
        if self._orig:
            asyncio.open_connection, asyncio.start_server = self._orig  # type: ignore
            self._orig = None

    def __enter__(self):
        return self.install()

    def __exit__(self, *a):
        self.uninstall()

    # asyncio replacements -----------------------------------------------------
    async def start_server(self, client_connected_cb, host=None, port=None, **kw):
        port = int(port or 0)
        if port in self.bind_fail:
            raise OSError(98, 'Address already in use')
        key = ('*', port)
        if key in self.listeners:
            raise OSError(98, 'Address already in use')
        h = SimServerHandle(self, key, client_connected_cb)
        self.listeners[key] = h
        await asyncio.sleep(0)
        return h

    async def open_connection(self, host=None, port=None, **kw):
        port = int(port)
        self.connect_attempts.append((host, port, self.loop.time()))
        verdict = self.policy(host, port)
        if isinstance(verdict, tuple) and verdict[0] == 'delay':
            await asyncio.sleep(verdict[1])
            verdict = 'ok'
        elif isinstance(verdict, tuple) and verdict[0] == 'gate':
            verdict = await verdict[1]
        elif verdict == 'hang':
            await self.loop.create_future()
        else:
            await asyncio.sleep(0)
        if verdict == 'refuse':
            raise ConnectionRefusedError(111, 'Connection refused')
        h = self.listeners.get(('*', port))
        if h is None or not h.is_serving():
            raise ConnectionRefusedError(111, 'Connection refused')
        link = Link(self, ('127.0.0.1', next(self._ports)), (host or '127.0.0.1', port))
        self.links.append(link)
        if self.on_link:
            self.on_link(link)
        # acceptor side: asyncio runs the callback; a coroutine becomes a task
        res = h.cb(link.readers[1], link.writers[1])
        if asyncio.iscoroutine(res):
            self.loop.create_task(res, name=f'sim-accept-{link.id}')
        return link.readers[0], link.writers[0]

    # helpers for scripted endpoints ---------------------------------------------
    async def dial(self, port: int, host: str = '127.0.0.1') -> 'Endpoint':
        """Connect as a scripted peer to a listener owned by code under test."""
        r, w = await self.open_connection(host, port)
        return Endpoint(r, w, self.links[-1])

    def open_links(self) -> list[Link]:
        return [l for l in self.links if l.open]


class Endpoint:
    """A scripted end of a link: frame-level read/write helpers."""

    def __init__(self, reader: asyncio.StreamReader, writer: SimWriter, link: Link):
        self.reader, self.writer, self.link = reader, writer, link
        self.frames: list[bytes] = []

    def send(self, data: bytes):
        self.writer.write(data)

    def send_message(self, msg, obfuscated: bool = False):
        data = msg.serialize() if hasattr(msg, 'serialize') else msg
        if obfuscated:
            from aioslsk.protocol import obfuscation
            data = obfuscation.encode(data)
        self.writer.write(data)

    async def read_frame(self, obfuscated: bool = False) -> Optional[bytes]:
        try:
            if obfuscated:
                from aioslsk.protocol import obfuscation
                hdr = await self.reader.readexactly(8)
                ln = struct.unpack('<I', obfuscation.decode(hdr))[0]
                body = await self.reader.readexactly(ln)
                frame = obfuscation.decode(hdr + body)
            else:
                hdr = await self.reader.readexactly(4)
                ln = struct.unpack('<I', hdr)[0]
                frame = hdr + await self.reader.readexactly(ln)
        except (asyncio.IncompleteReadError, ConnectionError):
            return None
        self.frames.append(frame)
        return frame

    def close(self):
        self.writer.close()

    @property
    def at_eof(self):
        return self.reader.at_eof()

"""C20 - bandwidth limits are never exceeded and never stall a transfer (spec: RateLimiter).

Direction A: behaviours of the design model in real units (TPS = 1024) give sequences of
clock advances / take_tokens() calls / limit changes; they are executed on the real
LimitedRateLimiter / UnlimitedRateLimiter objects behind Network.set_*_speed_limit with the
clock (time.monotonic and the loop clock) driven by the behaviour.
Direction B: every execution (those, hand-written regression scenarios, seeded random
virtual-time runs of 1-4 connections, and PeerConnection.send_file / receive_file over simnet
links) is recorded and judged by TLC against RateLimiterTrace (Exact = FALSE): window bound over
the grant log, bucket cap, no throttling without a limit, bounded wait.
The executions of direction A are additionally compared step by step (bucket, last_refill, grant)
with the design model (Exact = TRUE); that comparison is informational (does the design model
still mirror the code, and in which position of its deviation switches).
"""
from __future__ import annotations

import asyncio
import contextlib
import copy
import math
import os
import re
import shutil
import tempfile

from .. import tlc, vloop
from ..core import Check, MachineryFailure

SPEC = 'RateLimiter/RateLimiter.tla'
TRACE = 'RateLimiter/RateLimiterTrace.tla'
TPS = 1024
START = 1000.0          # loop clock at the start of a run: a multiple of 1/1024 s


# ---------------------------------------------------------------------------
# a virtual loop whose clock only shows whole ticks (1/1024 s), like a coarse monotonic clock
# ---------------------------------------------------------------------------

class TickLoop(vloop.VirtualLoop):
    def __init__(self, start: float = START, quantise: bool = True):
        super().__init__(start=start)
        sel = self._selector
        orig = sel.select

        def select(timeout=None):
            ev = orig(timeout)
            if quantise:
                self._vtime = math.ceil(self._vtime * TPS) / TPS     # exact: power-of-two scaling
            return ev
        sel.select = select  # type: ignore


def run_loop(main, *, quantise=True):
    loop = TickLoop(quantise=quantise)
    asyncio.set_event_loop(loop)
    try:
        with vloop.virtual_time(loop):
            return loop.run_until_complete(main(loop)), loop
    finally:
        try:
            with vloop.virtual_time(loop):
                vloop._cancel_all(loop)
        finally:
            asyncio.set_event_loop(None)
            loop.close()


def ticks(loop) -> int:
    return int(math.floor((loop.time() - START) * TPS))


# ---------------------------------------------------------------------------
# the object under test: a real Network with real (unconnected) file connections registered
# ---------------------------------------------------------------------------

class Rig:
    """Network + n PeerConnections sharing its limiter for one direction; records events."""

    def __init__(self, loop, k0: int, n: int, direction: str, jit: int = 0, timely: int = 0):
        from aioslsk.network.network import Network
        from aioslsk.network.connection import PeerConnection, PeerConnectionType
        from aioslsk.settings import Settings
        from aioslsk.events import EventBus
        self.loop = loop
        self.dir = direction
        self.attr = 'upload_rate_limiter' if direction == 'up' else 'download_rate_limiter'
        self.setter = 'set_upload_speed_limit' if direction == 'up' else 'set_download_speed_limit'
        settings = Settings(credentials={'username': 'me', 'password': 'pw'})
        settings.network.upnp.enabled = False          # no real network I/O when the server connection comes up
        self.settings = settings
        self.sim = None                                # SimNet, installed when the network is initialised
        self.own_sim = False
        self.reinits = 0
        self.net = Network(settings, EventBus())
        self.conns = [PeerConnection('10.0.0.%d' % (i + 1), 2000 + i, self.net,
                                     connection_type=PeerConnectionType.FILE) for i in range(n)]
        self.net.peer_connections.extend(self.conns)
        self.n = n
        self.nset = 0
        self.gen_of: dict[int, int] = {}
        self.objs: list = []           # keep the limiter objects alive (ids stay unique)
        self.events: list[dict] = []
        self.pending: dict[int, tuple] = {}    # c -> (reqt, limiter)
        self.task_conn: dict = {}
        self.on_grant: dict = {}
        self.finished = False
        # configure the initial limit through the public setter: hands the limiter to the connections
        getattr(self.net, self.setter)(k0)
        self._note_current()
        lim = self.current()
        b, a = self.snap(lim)
        self.events.append(dict(ev='init', k=k0, b=b, a=a, n=n, jit=jit, timely=timely))
        _LAST_RIG[0] = self

    # -- limiter objects ------------------------------------------------------
    def current(self):
        return getattr(self.conns[0], self.attr)

    def _note_current(self):
        lim = self.current()
        self.nset += 1
        self.gen_of[id(lim)] = self.nset
        self.objs.append(lim)

    def kbps_of(self, lim) -> int:
        return int(getattr(lim, 'limit_bps', 0)) // 1024

    def snap(self, lim):
        b = getattr(lim, 'bucket', None)
        lr = getattr(lim, 'last_refill', None)
        b = int(b) if isinstance(b, (int, float)) else -1
        if isinstance(lr, (int, float)):
            a = min(int(math.floor((self.loop.time() - lr) * TPS)), TPS)
            a = max(a, 0)
        else:
            a = -1
        return b, a

    # -- stimuli --------------------------------------------------------------
    def set_limit(self, k: int):
        try:
            getattr(self.net, self.setter)(k)
        except Exception as exc:    # an observation, not a harness crash
            self.events.append(dict(ev='exc', t=ticks(self.loop), what=f'set:{type(exc).__name__}'))
            return
        self._note_current()
        b, a = self.snap(self.current())
        self.events.append(dict(ev='set', t=ticks(self.loop), k=k, b=b, a=a))

    async def request(self, c: int):
        """One take_tokens() call of connection c (1-based), as send_file/receive_file make it."""
        lim = getattr(self.conns[c - 1], self.attr)
        # a limiter object that no set_*_speed_limit() call produced: the limit in force is still the
        # configured one, its grants are accounted there
        g = self.gen_of.get(id(lim), self.nset)
        rcur = lim is self.current() or id(lim) not in self.gen_of
        t0 = ticks(self.loop)
        self.pending[c] = (t0, lim)
        self.task_conn[asyncio.current_task()] = (c, lim)
        self.events.append(dict(ev='req', c=c, t=t0))
        try:
            n = await lim.take_tokens()
        except asyncio.CancelledError:
            self.pending.pop(c, None)
            if not self.finished:
                self.events.append(dict(ev='cancel', c=c, t=ticks(self.loop)))
            raise
        except Exception as exc:
            self.pending.pop(c, None)
            self.events.append(dict(ev='exc', c=c, t=ticks(self.loop), what=f'take:{type(exc).__name__}'))
            return 0
        finally:
            self.task_conn.pop(asyncio.current_task(), None)
        self.pending.pop(c, None)
        b, a = self.snap(lim)
        g = self.gen_of.get(id(lim), g)
        self.events.append(dict(ev='grant', c=c, t=ticks(self.loop), n=int(n) if isinstance(n, int) else -1,
                                cnt=1, g=g, rcur=bool(rcur), reqt=t0, gt=ticks(self.loop), b=b, a=a))
        hook = self.on_grant.pop(c, None)
        if hook is not None:
            hook()          # e.g. cancel the connection that has just been given the turn, before it runs
        return n

    async def reinit(self):
        """Environment: the network is initialised (again) - what SoulSeekClient.connect() does at start and
        on every reconnect: server connection and listening ports down (if up), Network.initialize().
        The file connections go on; the limit in force stays the last one set at run time."""
        from .. import simnet
        if self.sim is None:
            self.sim = simnet.SimNet(self.loop).install()
            self.own_sim = True
        key = ('*', int(self.settings.network.server.port))
        if key not in self.sim.listeners:
            async def server(reader, writer):      # a server that accepts and says nothing
                self.objs.append((reader, writer))
            await asyncio.start_server(server, '0.0.0.0', key[1])
        try:
            for conn in [self.net.server_connection] + [lc for lc in self.net.listening_connections if lc]:
                await conn.disconnect()
            await self.net.initialize()
        except asyncio.CancelledError:
            raise
        except Exception as exc:
            # the rig could not bring the network up: not an observation about the limits
            self.reinit_errors = getattr(self, 'reinit_errors', 0) + 1
            self.last_reinit_error = repr(exc)[:200]
            return
        self.reinits += 1
        REINITS[0] += 1
        self.events.append(dict(ev='reinit', t=ticks(self.loop)))

    def close(self):
        if self.sim is not None and self.own_sim:
            self.sim.uninstall()
            self.sim = None

    def note_sleep(self, delay):
        info = self.task_conn.get(asyncio.current_task())
        if info is not None and delay and delay > 0:
            c, lim = info
            b, a = self.snap(lim)
            self.events.append(dict(ev='sleep', c=c, t=ticks(self.loop), g=self.gen_of.get(id(lim), 0), b=b, a=a))

    def finish(self):
        now = ticks(self.loop)
        w, k = 0, 0
        for c, (t0, lim) in self.pending.items():
            if now - t0 >= w:
                w, k = now - t0, self.kbps_of(lim)
        self.events.append(dict(ev='end', t=now, w=w, k=k))
        self.finished = True
        return self.events


@contextlib.contextmanager
def sleep_observer(rig_ref: list):
    """Report every positive asyncio.sleep made from inside a take_tokens() call."""
    real = asyncio.sleep

    async def sleep(delay, result=None):
        if rig_ref and rig_ref[0] is not None:
            rig_ref[0].note_sleep(delay)
        return await real(delay, result)
    asyncio.sleep = sleep  # type: ignore
    try:
        yield real
    finally:
        asyncio.sleep = real  # type: ignore


# ---------------------------------------------------------------------------
# executors
# ---------------------------------------------------------------------------

def run_stimuli(sc: dict) -> list[dict]:
    """The clock is driven by the scenario: steps ('req', c) | ('tick', d) | ('set', k)."""
    rig_ref: list = [None]

    async def main(loop):
        timely = bool(sc.get('timely'))
        rig = Rig(loop, sc['k0'], sc['n'], sc.get('dir', 'up'), timely=1 if timely else 0)
        rig_ref[0] = rig
        tasks = {}

        def cancel(c):
            t = tasks.get(c)
            if t is not None and not t.done() and c in rig.pending:
                t.cancel()

        async def advance(d):
            """timely: every timer that becomes due on the way runs at its own tick"""
            target = ticks(loop) + d
            while timely:
                due = [math.ceil((h.when() - START) * TPS - 1e-6) for h in loop._scheduled if not h.cancelled()]
                nxt = min(due) if due else None
                if nxt is None or nxt >= target:
                    break
                loop._vtime = START + max(nxt, ticks(loop)) / TPS
                await vloop.settle(loop)
            loop._vtime = START + target / TPS

        for st in sc['steps']:
            if st[0] == 'req':
                c = st[1]
                if c in rig.pending or c > rig.n:
                    continue
                tasks[c] = asyncio.ensure_future(rig.request(c))
            elif st[0] == 'tick':
                await advance(st[1])
            elif st[0] == 'set':
                rig.set_limit(st[1])
            elif st[0] == 'reinit':
                await rig.reinit()
            elif st[0] == 'cancel':
                cancel(st[1])
            elif st[0] == 'tick+cancel':          # the clock moves, c is cancelled before anything due runs
                await advance(st[1])
                cancel(st[2])
            elif st[0] == 'cancel-on-grant':      # when c1 is granted, c2 (who gets the turn) is cancelled at once
                rig.on_grant[st[1]] = (lambda v=st[2]: cancel(v))
                continue
            await vloop.settle(loop)
        ev = rig.finish()
        for t in tasks.values():
            t.cancel()
        return ev

    with sleep_observer(rig_ref):
        events, loop = run_loop(main)
    if loop.unhandled:
        events.append(dict(ev='exc', t=events[-1].get('t', 0), what='loop:' + str(loop.unhandled[0].get('message'))[:80]))
    return events


def run_auto(sc: dict) -> list[dict]:
    """Connections run on their own in virtual time: conn program = [(think_ticks, calls), ...];
    'sets' = [(at_tick, k), ...]; the run ends at sc['dur'] ticks."""
    rig_ref: list = [None]
    quantise = sc.get('clock', 'tick') == 'tick'

    async def main(loop):
        with sleep_observer(rig_ref) as real_sleep:
            rig = Rig(loop, sc['k0'], sc['n'], sc.get('dir', 'up'), jit=0 if quantise else 1, timely=1)
            rig_ref[0] = rig
            budget = [sc.get('max_calls', 40000)]

            cancels = sorted(sc.get('cancels', []))
            req_task: dict = {}

            async def conn(c, prog):
                for think, calls in prog:
                    if think:
                        await real_sleep(think / TPS)
                    for _ in range(calls):
                        if budget[0] <= 0:
                            return
                        budget[0] -= 1
                        if not cancels:
                            await rig.request(c)
                            continue
                        t = req_task[c] = asyncio.ensure_future(rig.request(c))
                        try:
                            await t
                        except asyncio.CancelledError:
                            if not t.cancelled() or asyncio.current_task().cancelling():
                                raise
                            # this call was cancelled (transfer aborted): the connection goes on with its next one

            async def canceller():
                now = 0
                for at, c in cancels:
                    if at > now:
                        await real_sleep((at - now) / TPS)
                        now = at
                    t = req_task.get(c)
                    if t is not None and not t.done() and c in rig.pending:
                        t.cancel()

            async def setter():
                t = 0
                for at, k in sc.get('sets', []):
                    if at > t:
                        await real_sleep((at - t) / TPS)
                        t = at
                    if k == 'reinit':
                        await rig.reinit()
                    else:
                        rig.set_limit(k)

            async def just_in_time(c):
                """An adversarial competitor: looks at every clock reading whether a call made now would
                find tokens while somebody else is waiting for them (probe = a copy of the limiter, asked
                through its public refill()), and calls take_tokens() exactly then."""
                while True:
                    await real_sleep(1 / TPS)
                    lim = rig.current()
                    if budget[0] <= 0 or not any(l is lim for _, l in rig.pending.values()):
                        continue
                    try:
                        probe = copy.copy(lim)
                        empty = probe.refill()
                    except Exception:
                        continue
                    if not empty:
                        budget[0] -= 1
                        await rig.request(c)

            tasks = [asyncio.ensure_future(conn(i + 1, p)) for i, p in enumerate(sc['progs']) if p != 'jit']
            tasks.append(asyncio.ensure_future(setter()))
            extra = [asyncio.ensure_future(canceller())] if cancels else []
            extra += [asyncio.ensure_future(just_in_time(i + 1)) for i, p in enumerate(sc['progs']) if p == 'jit']
            await asyncio.wait(tasks, timeout=sc['dur'] / TPS)
            ev = rig.finish()
            for t in tasks + extra + list(req_task.values()):
                t.cancel()
            return ev

    events, loop = run_loop(main, quantise=quantise)
    if loop.unhandled:
        events.append(dict(ev='exc', t=events[-1].get('t', 0), what='loop:' + str(loop.unhandled[0].get('message'))[:80]))
    return events


def merged(events: list[dict]) -> list[dict]:
    """The trace judged by the property-level spec: req/sleep records dropped, back-to-back
    immediate grants at one clock reading merged into one record."""
    out: list[dict] = []
    for e in events:
        if e['ev'] in ('req', 'sleep'):
            continue
        if e['ev'] == 'grant' and out and out[-1]['ev'] == 'grant':
            p = out[-1]
            if (p['t'] == e['t'] and p['g'] == e['g'] and p['rcur'] == e['rcur'] and p['reqt'] == p['t']
                    and e['reqt'] == e['t'] and p['n'] > 0 and e['n'] > 0 and p['n'] + e['n'] < 2 ** 30):
                p['n'] += e['n']
                p['cnt'] += 1
                p['b'], p['a'] = e['b'], e['a']
                continue
        out.append(dict(e))
    return out


# ---------------------------------------------------------------------------
# bytes moved by PeerConnection.send_file / receive_file over simulated file connections
# ---------------------------------------------------------------------------

class _MemReader:
    def __init__(self, size):
        self.left = size

    async def read(self, n=-1):
        n = self.left if n is None or n < 0 else min(n, self.left)
        self.left -= n
        return b'\x5a' * n


class _MemWriter:
    def __init__(self):
        self.n = 0

    async def write(self, data):
        self.n += len(data)
        return len(data)


def run_wire(sc: dict) -> list[dict]:
    """sc: k0, n, dir ('up' = send_file, 'down' = receive_file), sizes [bytes per connection],
    starts [tick per connection], sets [(at_tick, k)], dur."""
    from .. import simnet
    from aioslsk.network import rate_limiter as rl

    async def main(loop):
        from aioslsk.network.connection import PeerConnectionState
        net = simnet.SimNet(loop).install()
        patched = []
        try:
            rig = Rig(loop, sc['k0'], sc['n'], sc['dir'], jit=0, timely=1)
            rig.sim = net
            rig.events[0]['wire'] = 1
            info: dict = {}

            for cls in (rl.LimitedRateLimiter, rl.UnlimitedRateLimiter):
                orig = cls.take_tokens

                def make(orig):
                    async def take_tokens(self):
                        task = asyncio.current_task()
                        t0 = ticks(loop)
                        info[task] = dict(reqt=t0, lim=self, rcur=self is rig.current(), granted=False)
                        c = info.get(('conn', task))
                        if c is not None:
                            rig.pending[c] = (t0, self)
                        try:
                            n = await orig(self)
                        finally:
                            if c is not None:
                                rig.pending.pop(c, None)
                        info[task]['granted'] = True
                        info[task]['gt'] = ticks(loop)
                        return n
                    return take_tokens
                patched.append((cls, orig))
                cls.take_tokens = make(orig)

            received = [0] * sc['n']
            endpoints: dict = {}
            sinks = []

            def acceptor(c):
                async def accept(reader, writer):
                    endpoints[c] = (reader, writer)
                return accept

            for c in range(1, sc['n'] + 1):          # one listener per connection: no mix-up
                await asyncio.start_server(acceptor(c), '0.0.0.0', 4440 + c)

            reported: dict = {}         # bytes the progress callback of connection c has been told about

            def moved(c):
                def cb(data):
                    task = asyncio.current_task()
                    i = info.get(task)
                    now = ticks(loop)
                    if i is not None and i['granted']:
                        lim, reqt, rcur, gt = i['lim'], i['reqt'], i['rcur'], i['gt']
                        i['granted'] = False
                    else:           # bytes moved without a grant
                        lim, reqt, rcur, gt = rig.current(), now, True, now
                    b, a = rig.snap(lim)
                    reported[c] = reported.get(c, 0) + len(data)
                    rig.events.append(dict(ev='grant', c=c, t=now, n=len(data), cnt=1,
                                           g=rig.gen_of.get(id(lim), rig.nset), rcur=bool(rcur), reqt=reqt, gt=gt,
                                           b=b, a=a))
                return cb

            async def transfer(c):
                conn = rig.conns[c - 1]
                conn.hostname, conn.port = '127.0.0.1', 4440 + c
                info[('conn', asyncio.current_task())] = c
                if sc['starts'][c - 1]:
                    await asyncio.sleep(sc['starts'][c - 1] / TPS)
                try:
                    await conn.connect()
                    conn.set_connection_state(PeerConnectionState.TRANSFERRING)
                    await vloop.settle(loop)
                    ep_reader, ep_writer = endpoints[c]
                    size = sc['sizes'][c - 1]
                    if sc['dir'] == 'up':
                        async def sink():
                            while True:
                                d = await ep_reader.read(1 << 20)
                                if not d:
                                    return
                                received[c - 1] += len(d)
                        sinks.append(asyncio.ensure_future(sink()))
                        await conn.send_file(_MemReader(size), callback=moved(c))
                    else:
                        pieces = (sc.get('feeds') or {}).get(str(c)) or (sc.get('feeds') or {}).get(c)
                        if pieces:          # the peer sends the file in pieces: [(tick since start of the run, bytes)]
                            async def feeder():
                                for at, nb in pieces:
                                    d = at - ticks(loop)
                                    if d > 0:
                                        await asyncio.sleep(d / TPS)
                                    ep_writer.write(b'\xa5' * nb)
                            sinks.append(asyncio.ensure_future(feeder()))
                            size = sum(nb for _, nb in pieces)
                        else:
                            ep_writer.write(b'\xa5' * size)
                        fh = _MemWriter()
                        await conn.receive_file(fh, size, callback=moved(c))
                        received[c - 1] = fh.n
                except asyncio.CancelledError:
                    raise
                except Exception as exc:
                    rig.events.append(dict(ev='exc', c=c, t=ticks(loop), what=f'transfer:{type(exc).__name__}'))

            async def setter():
                t = 0
                for at, k in sc.get('sets', []):
                    if at > t:
                        await asyncio.sleep((at - t) / TPS)
                        t = at
                    if k == 'reinit':
                        await rig.reinit()
                    else:
                        rig.set_limit(k)

            async def canceller():        # the transfer of connection c is aborted (its task cancelled)
                now = 0
                for at, c in sorted(sc.get('cancels', [])):
                    if at > now:
                        await asyncio.sleep((at - now) / TPS)
                        now = at
                    if not tasks[c - 1].done():
                        tasks[c - 1].cancel()
                        rig.events.append(dict(ev='cancel', c=c, t=ticks(loop)))
                        await vloop.settle(loop)
                        # a transfer cancelled between writing a chunk and its progress callback: the chunk is
                        # on the link (that is what the property counts) but was never reported; account it now
                        unreported = received[c - 1] - reported.get(c, 0)
                        if sc['dir'] == 'up' and 0 < unreported <= 8192:
                            lim = getattr(rig.conns[c - 1], rig.attr)
                            b, a = rig.snap(lim)
                            t = ticks(loop)
                            reported[c] = reported.get(c, 0) + unreported
                            rig.events.append(dict(ev='grant', c=c, t=t, n=unreported, cnt=1,
                                                   g=rig.gen_of.get(id(lim), rig.nset), rcur=lim is rig.current(),
                                                   reqt=t, gt=t, b=b, a=a))

            tasks = [asyncio.ensure_future(transfer(i + 1)) for i in range(sc['n'])]
            tasks.append(asyncio.ensure_future(setter()))
            extra = [asyncio.ensure_future(canceller())] if sc.get('cancels') else []
            await asyncio.wait(tasks, timeout=sc['dur'] / TPS)
            ev = rig.finish()
            for t in tasks + extra:
                t.cancel()
            await vloop.settle(loop)          # what was written is delivered to the other end
            for t in sinks:
                t.cancel()
            moved_total = sum(e['n'] for e in ev if e['ev'] == 'grant')
            if sc['dir'] == 'up' and moved_total != sum(received):
                ev.append(dict(ev='exc', t=ev[-1]['t'], what='wire:callback-bytes-differ-from-bytes-on-the-link'))
            return ev
        finally:
            for cls, orig in patched:
                cls.take_tokens = orig
            net.uninstall()

    events, loop = run_loop(main)
    return events


# ---------------------------------------------------------------------------
# scenarios
# ---------------------------------------------------------------------------

def regression_scenarios() -> list[dict]:
    """Hand-written histories, among them the real-unit versions of the counterexamples TLC
    finds in the design model with a deviation switch in the code's position."""
    out = []

    def stim(name, k0, n, steps, d='up'):
        out.append(dict(kind='stim', name=name, k0=k0, n=n, steps=steps, dir=d))

    def drain(k, c=1):          # enough back-to-back calls to empty a full bucket of k KiB/s
        return [('req', c)] * (k * 8 + 1)

    # burst after start / after idle, equal consecutive readings
    for k in (1, 2, 7):
        stim(f'burst-k{k}', k, 1, drain(k) + [('tick', 1)] + drain(k) + [('tick', 5000)] + drain(k) + drain(k))
    # long idle (an hour), then a burst from two connections
    stim('idle-1h', 3, 2, [('req', 1), ('tick', 3686400)] + [('req', 1), ('req', 2)] * 14 + [('tick', 11), ('tick', 11)])
    # high -> low -> high within a second (stale time credited at the new rate)
    for hi, lo, idle in ((2, 1, 900), (10, 1, 500), (5, 2, 1023), (4, 1, 3000)):
        stim(f'hi-lo-hi-{hi}-{lo}-{idle}', hi, 1,
             drain(hi) + [('set', lo), ('tick', idle), ('set', hi)] + drain(hi) + [('tick', 11)] * 3, d='down' if idle == 500 else 'up')
    # the same with only part of the high burst used: the bucket of the low limiter starts full and stays
    # full (a full bucket is not refilled) until the limit is raised again
    for hi, lo, idle in ((10, 1, 1000), (4, 2, 600), (6, 1, 3000), (3, 3, 2000)):
        stim(f'hi-lo-hi-replaced-bucket-full-{hi}-{lo}-{idle}', hi, 1,
             [('req', 1)] * ((hi - lo) * 8) + [('set', lo), ('tick', idle), ('set', hi if hi > lo else hi + 5)] +
             drain(hi + 5) + [('tick', 11)] * 3)
    # the same with a connection waiting on the replaced limiter
    stim('hi-lo-hi-waiter', 3, 2, drain(3) + [('req', 2), ('set', 1), ('tick', 700), ('set', 3)] + drain(3) + [('tick', 11)] * 20)
    # lowered after idle: the new bucket starts full with an old last_refill
    stim('lower-after-idle', 10, 1, [('req', 1)] * 3 + [('tick', 5000), ('set', 1)] + drain(1) + [('tick', 11)] * 3)
    stim('same-limit-after-idle', 2, 1, drain(2) + [('tick', 4000), ('set', 2), ('tick', 4000)] + drain(2) + drain(2))
    # the same limit configured again and again under demand (a burst per change would show)
    st = drain(2)
    for _ in range(12):
        st += [('set', 2)] + [('req', 1)] * 6 + [('tick', 3)]
    stim('reconfigure-same-limit', 2, 1, st)
    st = drain(1, 1)
    for i in range(10):
        st += [('set', 1 + (i % 2))] + [('req', 1), ('req', 2)] * 5 + [('tick', 7)]
    stim('toggle-limit', 1, 2, st)
    # limited -> unlimited -> limited
    stim('to-unlimited-and-back', 2, 2, drain(2) + [('req', 2), ('set', 0)] + [('req', 1)] * 5 + [('tick', 30), ('set', 2)] +
         drain(2) + [('tick', 11)] * 4)
    stim('unlimited', 0, 3, [('req', 1), ('req', 2), ('req', 3), ('tick', 1), ('req', 1)] * 4)
    # raise / lower while saturated
    stim('raise-saturated', 1, 2, drain(1) + [('req', 2)] + [('tick', 11)] * 5 + [('set', 8)] + [('tick', 11), ('req', 1), ('req', 2)] * 12)
    stim('lower-saturated', 8, 2, drain(8) + [('req', 2)] + [('tick', 11)] * 2 + [('set', 1)] + [('tick', 11), ('req', 1), ('req', 2)] * 30)

    # a waiting take_tokens() call is cancelled (transfer aborted / paused): the others must go on.
    # Timely stepping, so that the wait bound is judged.  After the cancellation everybody keeps asking.
    def keep_asking(conns, rounds):
        st = []
        for _ in range(rounds):
            st += [('req', c) for c in conns] + [('tick', 11)]
        return st + [('tick', 6000)] + [('req', c) for c in conns] + [('tick', 11)] * 3

    def tstim(name, k0, n, steps, d='up'):
        out.append(dict(kind='stim', name=name, k0=k0, n=n, steps=steps, dir=d, timely=True))

    waiting3 = drain(1) + [('req', 2), ('req', 3)]           # 1 polls, 2 and 3 are queued behind it
    tstim('cancel-queued-behind-poller', 1, 3, waiting3 + [('tick', 22), ('cancel', 2)] + keep_asking((1, 2, 3), 60))
    tstim('cancel-last-in-queue', 1, 3, waiting3 + [('tick', 5), ('cancel', 3)] + keep_asking((1, 2, 3), 60), d='down')
    tstim('cancel-the-poller', 1, 3, waiting3 + [('tick', 33), ('cancel', 1)] + keep_asking((1, 2, 3), 60))
    tstim('cancel-both-queued', 2, 4, drain(2) + [('req', 2), ('req', 3), ('req', 4), ('tick', 3), ('cancel', 3), ('cancel', 2)] +
          keep_asking((1, 2, 3, 4), 60))
    tstim('cancel-at-once', 1, 2, drain(1) + [('req', 2), ('cancel', 2)] + keep_asking((1, 2), 50))
    # cancelled at the clock reading at which its poll would have found the tokens
    for at in (130, 141, 142, 143, 144, 154):
        tstim(f'cancel-poller-when-due-{at}', 1, 2, drain(1) + [('req', 2), ('tick+cancel', at, 1)] + keep_asking((1, 2), 40))
    # the connection that has just been given the turn is cancelled before it runs
    tstim('cancel-the-one-given-the-turn', 1, 3, waiting3 + [('cancel-on-grant', 1, 2)] + keep_asking((1, 2, 3), 60))
    tstim('cancel-given-the-turn-last', 1, 2, drain(1) + [('req', 2), ('cancel-on-grant', 1, 2)] + keep_asking((1, 2), 50))
    # cancellation of a call that waits on a replaced limiter
    tstim('cancel-waiter-of-replaced-limiter', 1, 3, waiting3 + [('set', 2), ('tick', 4), ('cancel', 2)] + keep_asking((1, 2, 3), 60))

    def auto(name, k0, progs, dur, sets=(), d='up', clock='tick', cancels=()):
        out.append(dict(kind='auto', name=name, k0=k0, n=len(progs), progs=progs, dur=dur, sets=list(sets), dir=d,
                        clock=clock, cancels=list(cancels)))
    auto('saturate-3x-k1-cancels', 1, [[(0, 300)], [(2, 300)], [(5, 300)]], 30 * TPS,
         cancels=[(50, 2), (400, 3), (1000, 1), (1001, 2), (3000, 3), (3000, 1)])
    auto('saturate-4x-k40-cancels', 40, [[(0, 5000)], [(1, 5000)], [(1, 5000)], [(3, 5000)]], 8 * TPS,
         cancels=[(1100 + 7 * i, 1 + i % 4) for i in range(40)], d='down')
    # the network is initialised (start, reconnect) after a limit was set at run time: the limit stays
    for k in (1, 10):
        stim(f'reinit-after-set-{k}', 0, 2, [('set', k)] + drain(k) + [('reinit',)] + drain(k) + [('req', 2)] * 20 +
             [('tick', 300), ('reinit',)] + [('req', 1), ('req', 2)] * 20, d='up' if k == 1 else 'down')
        tstim(f'reinit-while-waiting-{k}', k, 2, drain(k) + [('req', 2), ('tick', 5), ('reinit',)] + keep_asking((1, 2), 30))
    stim('reinit-first-then-set', 0, 1, [('reinit',), ('set', 2)] + drain(2) + [('reinit',), ('tick', 100)] + drain(2))
    stim('reinit-unlimited-stays-unlimited', 3, 2, [('set', 0), ('reinit',)] + [('req', 1), ('req', 2)] * 10)
    auto('reinit-saturated', 0, [[(20, 4000)], [(25, 4000)]], 5 * TPS, sets=[(5, 3), (1000, 'reinit'), (2000, 'reinit')])
    out.append(dict(kind='wire', name='wire-reinit-mid-transfer', k0=0, n=2, dir='up', sizes=[40000, 40000],
                    starts=[20, 30], sets=[(5, 4), (600, 'reinit')], cancels=[], dur=12 * TPS))
    out.append(dict(kind='wire', name='wire-reinit-mid-download', k0=0, n=2, dir='down', sizes=[40000, 40000],
                    starts=[20, 30], sets=[(5, 4), (600, 'reinit')], cancels=[], dur=12 * TPS))
    # adversarial arrival times: a competitor that calls take_tokens() exactly at the clock readings at
    # which a call finds tokens while another connection is waiting for them (finer than the poll period)
    for k in (1, 2, 3, 4, 6):
        for clock in ('tick', 'float'):
            auto(f'just-in-time-competitor-k{k}-{clock}', k, [[(0, 100000)], 'jit'], 6 * TPS, clock=clock)
            auto(f'just-in-time-competitor-3-k{k}-{clock}', k, [[(0, 100000)], [(3, 100000)], 'jit'], 6 * TPS, clock=clock,
                 d='down')
    # receive_file blocked in a read (grant in hand, no data yet) while the limit changes, data arriving in
    # pieces smaller than the grant, a second connection using the new limiter meanwhile
    def wire_down(name, k0, sets, feeds, starts, dur=6 * TPS):
        out.append(dict(kind='wire', name=name, k0=k0, n=len(starts), dir='down', sizes=[0] * len(starts), starts=starts,
                        sets=sets, feeds={str(c): f for c, f in feeds.items()}, cancels=[], dur=dur))
    for k in (1, 4, 8, 30):
        wire_down(f'read-pending-unlimited-to-{k}', 0, [(10, k)],
                  {1: [(50, 100), (60, 60000)], 2: [(20, 200000)]}, [0, 20])
        wire_down(f'read-pending-unlimited-to-{k}-three', 0, [(10, k)],
                  {1: [(40, 1), (45, 8191), (700, 30000)], 2: [(12, 200000)], 3: [(30, 50), (31, 50), (90, 100000)]}, [0, 12, 0])
        wire_down(f'read-pending-{k}-to-unlimited-and-back', k, [(300, 0), (310, k)],
                  {1: [(0, k * 1024), (305, 10), (330, 10), (400, 50000)], 2: [(320, 100000)]}, [0, 315])
        wire_down(f'read-pending-{k * 3}-to-{k}', k * 3, [(1500, k)],
                  {1: [(0, 3 * k * 1024 + 64), (1510, 1), (1530, 40000)], 2: [(1505, 100000)]}, [0, 1500])
        wire_down(f'short-reads-constant-{k}', k, [],
                  {1: [(i * 7, 37) for i in range(200)], 2: [(3 + i * 40, 500) for i in range(40)]}, [0, 0])
    for victim in (1, 2, 3):      # one of them polls, two are queued: at least two of these abort a queued one
        out.append(dict(kind='wire', name=f'wire-abort-{victim}-of-three', k0=2, n=3, dir='up', sizes=[20000, 20000, 20000],
                        starts=[0, 1, 2], sets=[], cancels=[(1100, victim)], dur=40 * TPS))
    out.append(dict(kind='wire', name='wire-abort-two-of-three-down', k0=1, n=3, dir='down', sizes=[6000, 6000, 6000],
                    starts=[0, 0, 3], sets=[], cancels=[(1050, 3), (1300, 1)], dur=40 * TPS))
    # two / four connections saturating a small limit (phase-locked pollers)
    auto('saturate-2x-k1', 1, [[(0, 400)], [(2, 400)]], 40 * TPS)
    auto('saturate-2x-k1-float', 1, [[(0, 400)], [(2, 400)]], 40 * TPS, clock='float')
    auto('saturate-3x-k2', 2, [[(0, 600)], [(5, 600)], [(1, 600)]], 30 * TPS, d='down')
    auto('saturate-4x-k3', 3, [[(0, 900)], [(1, 900)], [(5, 900)], [(8, 900)]], 30 * TPS)
    auto('saturate-4x-k50', 50, [[(0, 9000)], [(1, 9000)], [(1, 9000)], [(1, 9000)]], 6 * TPS)
    # the real range: a full second's burst of 10000 KiB/s, then saturated
    auto('burst-k10000', 10000, [[(0, 90000)]], TPS + 200, sets=[(TPS + 100, 10000)])
    auto('hi-lo-hi-k10000', 10000, [[(0, 81000), (600, 81000)]], 2 * TPS, sets=[(50, 1), (550, 10000)])
    return out


def _draw_limit(rng, allow_zero=True):
    r = rng.random()
    if allow_zero and r < 0.08:
        return 0
    if r < 0.45:
        return rng.randint(1, 10)
    if r < 0.8:
        return rng.randint(11, 500)
    return rng.randint(501, 10000)


def _draw_gap(rng):
    r = rng.random()
    if r < 0.3:
        return 0
    if r < 0.5:
        return rng.randint(1, 3)               # sub-millisecond .. few ms
    if r < 0.75:
        return rng.randint(4, 60)
    if r < 0.93:
        return rng.randint(61, 3000)           # up to seconds
    return rng.randint(3001, 400000)           # long idle


def random_stim(rng, i) -> dict:
    n = rng.randint(1, 4)
    k0 = _draw_limit(rng)
    small = [k for k in (k0, rng.randint(1, 6), rng.randint(1, 6)) if 0 < k <= 12] or [rng.randint(1, 6)]
    steps = []
    kcur = k0
    for _ in range(rng.randint(10, 40)):
        r = rng.random()
        if r < 0.55:
            c = rng.randint(1, n)
            steps += [('req', rng.randint(1, n) if rng.random() < 0.3 else c) for _ in range(rng.choice([1, 1, 2, 5, 9, 17, 40]))]
        elif r < 0.86:
            steps.append(('tick', max(1, _draw_gap(rng))))
        elif r < 0.88:
            steps.append(('reinit',))
        elif r < 0.93 and n > 1:
            steps.append(('cancel', rng.randint(1, n)) if rng.random() < 0.7 else ('tick+cancel', rng.randint(1, 30), rng.randint(1, n)))
        else:
            kcur = rng.choice(small + [_draw_limit(rng), kcur])
            steps.append(('set', kcur))
    return dict(kind='stim', name=f'rstim{i}', k0=k0 if rng.random() < 0.5 else rng.choice(small), n=n, steps=steps,
                dir=rng.choice(['up', 'down']), timely=rng.random() < 0.5)


def random_auto(rng, i) -> dict:
    n = rng.randint(1, 4)
    k0 = _draw_limit(rng)
    kmax = max(k0, 1)
    sets = []
    t = 0
    for _ in range(rng.choice([0, 0, 1, 1, 2, 3])):
        t += rng.choice([1, 5, 30, 200, 700, 1500, 4000])
        k = rng.choice([_draw_limit(rng), k0, max(1, k0 // 2), k0 * 2 if 0 < k0 <= 5000 else k0])
        sets.append((t, k))
        kmax = max(kmax, k)
    # keep the number of calls (wall time) and records (TLC time) bounded
    dur = rng.choice([1, 2, 3, 6]) * TPS if kmax > 500 else rng.choice([3, 8, 20]) * TPS
    if t >= dur:
        dur = t + TPS
    progs = []
    for _ in range(n):
        prog = [(rng.randint(0, 25), 0)]
        for _ in range(rng.randint(1, 6)):
            prog.append((_draw_gap(rng) if rng.random() < 0.7 else 0, rng.choice([1, 3, 8, 20, 100, 1000, 100000])))
        progs.append(prog)
    cancels = []
    if n > 1 and rng.random() < 0.4:
        cancels = sorted((rng.randint(1, dur - 1), rng.randint(1, n)) for _ in range(rng.choice([1, 2, 5, 20])))
    if n > 1 and rng.random() < 0.15:
        progs[rng.randrange(1, n)] = 'jit'
    return dict(kind='auto', name=f'rauto{i}', k0=k0, n=n, progs=progs, dur=dur, sets=sets, cancels=cancels,
                dir=rng.choice(['up', 'down']), clock='float' if rng.random() < 0.2 else 'tick',
                max_calls=(60000 if kmax > 500 else 20000) // (3 if cancels else 1))


def random_wire(rng, i) -> dict:
    n = rng.randint(1, 3)
    k0 = rng.choice([0, rng.randint(1, 8), rng.randint(1, 8), rng.randint(9, 300), rng.randint(301, 10000)])
    dur = rng.choice([2, 4, 8]) * TPS
    sets = []
    if rng.random() < 0.5:
        t = rng.choice([10, 200, 900, 1500])
        sets.append((t, rng.choice([0, rng.randint(1, 20), k0, max(1, k0 // 3), min(10000, k0 * 3 + 1)])))
        if rng.random() < 0.5:
            sets.append((t + rng.choice([5, 300, 1000]), k0))
    keff = max([k0] + [k for _, k in sets])
    sizes = []
    for _ in range(n):
        if k0 == 0 or 0 in [k for _, k in sets]:
            sizes.append(rng.choice([0, 1, 8191, 8192, 100000, 1500000]))
        else:
            sizes.append(min(3_000_000, rng.choice([0, 100, 128, 129, 5000, keff * 1024 + 700, keff * 1024 * 3])))
    cancels = []
    if n > 1 and rng.random() < 0.4:
        cancels = [(rng.randint(1, dur - 1), rng.randint(1, n)) for _ in range(rng.choice([1, 1, 2]))]
    direction = rng.choice(['up', 'down'])
    starts = [rng.choice([0, 0, 3, 40, 600]) for _ in range(n)]
    feeds = {}
    if direction == 'down' and rng.random() < 0.6:
        # the peer sends in pieces (short reads, reads pending while the limit changes)
        marks = [t for t, _ in sets]
        for c in range(1, n + 1):
            if rng.random() < 0.25:
                continue
            t, left, pieces = starts[c - 1], sizes[c - 1], []
            while left > 0 and len(pieces) < 60:
                t += rng.choice([0, 1, 5, 12, 60, 400] + [max(1, m - t + rng.choice([-3, 2, 15])) for m in marks if m > t])
                nb = min(left, rng.choice([1, 50, 127, 128, 129, 1000, 8191, 8192, 8193, 50000, left]))
                pieces.append((t, nb))
                left -= nb
            if left > 0:
                pieces.append((t + 1, left))
            feeds[str(c)] = pieces
    return dict(kind='wire', name=f'rwire{i}', k0=k0, n=n, dir=direction, sizes=sizes,
                starts=starts, sets=sets, cancels=cancels, feeds=feeds, dur=dur)


class Hang(KeyboardInterrupt):
    """The code under test kept the loop busy without letting (virtual) time pass.  (Derived from
    KeyboardInterrupt so that neither `except Exception` nor asyncio's task machinery swallows it.)"""


_LAST_RIG: list = [None]
REINITS = [0]          # successful Network.initialize() calls made by the rigs of this run
WALL_LIMIT = 30.0      # safety net only: a scenario needs well under a second of wall time
_HANGS = [0]           # scenarios that hit the safety net in this run
MAX_HANGS = 4          # after that many the remaining scenarios are not started


def execute(sc: dict) -> list[dict]:
    import signal

    def on_alarm(signum, frame):
        raise Hang()
    if _HANGS[0] >= MAX_HANGS:
        return [dict(ev='init', k=sc['k0'], b=0, a=TPS, n=sc['n'], jit=0, timely=0), dict(ev='end', t=0, w=0, k=0)]
    old = signal.signal(signal.SIGALRM, on_alarm)
    signal.setitimer(signal.ITIMER_REAL, WALL_LIMIT if _HANGS[0] == 0 else 5.0, 5.0)
    _LAST_RIG[0] = None
    try:
        if sc['kind'] == 'stim':
            return run_stimuli(sc)
        if sc['kind'] == 'auto':
            return run_auto(sc)
        if sc['kind'] == 'wire':
            return run_wire(sc)
        raise MachineryFailure(f'unknown scenario kind {sc["kind"]}')
    except Hang:
        # an observation: take_tokens()/send_file()/receive_file() spin without sleeping
        _HANGS[0] += 1
        rig = _LAST_RIG[0]
        ev = list(rig.events) if rig is not None else [dict(ev='init', k=sc['k0'], b=0, a=TPS, n=sc['n'], jit=0, timely=0)]
        ev.append(dict(ev='exc', t=ev[-1].get('t', 0), what='hang:busy-loop-without-sleep'))
        return ev
    finally:
        signal.setitimer(signal.ITIMER_REAL, 0)
        signal.signal(signal.SIGALRM, old)
        if _LAST_RIG[0] is not None:
            _LAST_RIG[0].close()


# ---------------------------------------------------------------------------
# direction A: behaviours of the design model -> stimuli
# ---------------------------------------------------------------------------

_LAB = re.compile(r'(Request|Tick|SetLimit|Poll|Cancel)\((\d+)\)')


def stimuli_of(labels) -> tuple:
    out = []
    for lab in labels:
        if lab.startswith('Reinit'):
            out.append(('reinit',))
            continue
        m = _LAB.match(lab)
        if not m:
            continue
        if m.group(1) == 'Request':
            out.append(('req', int(m.group(2))))
        elif m.group(1) == 'Tick':
            out.append(('tick', int(m.group(2))))
        elif m.group(1) == 'SetLimit':
            out.append(('set', int(m.group(2))))
        elif m.group(1) == 'Cancel':
            out.append(('cancel', int(m.group(2))))
        # Poll happens by itself in the real loop when its timer is due
    return tuple(out)


def behaviour_scenarios(chk: Check, num: int, depth: int) -> list[dict]:
    behs, res = tlc.simulate_behaviours(SPEC, 'MC_real_sim.cfg', num=num, depth=depth, seed=chk.seed + 7, timeout=900)
    if res.issues:
        raise MachineryFailure(f'simulation of the real-unit design model failed: {[(i.kind, i.name) for i in res.issues]}')
    out, seen = [], set()
    for b in behs:
        k0 = int(b[0][1]['gens'][0]['k'])
        st = stimuli_of([lab for lab, _ in b[1:]])
        if not any(s[0] == 'req' for s in st) or (k0, st) in seen:
            continue
        seen.add((k0, st))
        # the behaviours come from the Timely model: due polls run on time in the replay too
        out.append(dict(kind='stim', name=f'tlc{len(out)}', k0=k0, n=3, steps=list(st), timely=True,
                        dir='up' if len(out) % 2 == 0 else 'down', source='tlc-simulate'))
    chk.cov['sim_behaviours_real_units'] = len(behs)
    chk.cov['sim_states_real_units'] = res.states_generated
    return out


# ---------------------------------------------------------------------------
# verdict plumbing
# ---------------------------------------------------------------------------

def _limit_of(trace, g):
    ks = [trace[0]['k']] + [e['k'] for e in trace if e['ev'] == 'set']
    return ks[g - 1] if 1 <= g <= len(ks) else 0


def _wait_bound(trace, k):
    return trace[0]['n'] * ((2 * 128) // max(k, 1) + TPS // 8) + trace[0]['jit']


def _fingerprint(tid, info, trace):
    name, kind = info.get('name'), info.get('kind')
    ev = info.get('event') or {}
    at = info.get('at')
    idx = (int(at) - 2) if at is not None else len(trace) - 1
    if kind == 'property':
        if name == 'BoundedWaitT':
            if not ev:      # attributed by property-dropping: find the record (naming only, not the verdict)
                for j, e in enumerate(trace):
                    if ((e['ev'] == 'grant' and _limit_of(trace, e['g']) and
                         e['gt'] - e['reqt'] > _wait_bound(trace, _limit_of(trace, e['g']))) or
                            (e['ev'] == 'end' and e['k'] and e['w'] > _wait_bound(trace, e['k']))):
                        ev, idx = e, j
                        break
            t1 = ev.get('t', 0)
            t0 = ev.get('reqt', t1 - ev.get('w', 0))
            # overtaken: the limiter was still serving others during the last second(s) of the wait
            bound = _wait_bound(trace, ev.get('k') or _limit_of(trace, ev.get('g', 1)) or 1)
            overtaken = any(e['ev'] == 'grant' and max(t0, t1 - bound) < e['t'] <= t1 and e.get('reqt', 0) >= t0
                            and e is not ev for e in trace[:idx])
            if overtaken:
                return 'C20:take_tokens:waiting-request-overtaken-for-ever:no-fifo-among-pollers'
            if any(e['ev'] == 'cancel' and e['t'] <= t1 for e in trace[:idx]):
                return 'C20:take_tokens:no-grant-after-a-waiting-call-was-cancelled:stall'
            return 'C20:take_tokens:no-grant-while-waiting:stall'
        if name == 'WindowBoundT':
            sets = [e for e in trace[:idx] if e['ev'] == 'set']
            ks = [trace[0]['k']] + [e['k'] for e in sets]
            stale_raise = any(ks[i + 1] > ks[i] > 0 and sets[i].get('a', 0) > 0 for i in range(len(sets)))
            if stale_raise:
                return 'C20:copy_tokens:time-since-last-refill-credited-at-the-new-limit'
            return 'C20:WindowBound:after-limit-change' if sets else 'C20:WindowBound:constant-limit'
        if name == 'BucketCappedT':
            return 'C20:bucket-outside-0..one-second-of-traffic'
        if name == 'UnlimitedNotThrottledT':
            return 'C20:unlimited-but-throttled'
        if name == 'GrantsPositiveT':
            return 'C20:non-positive-grant'
        return f'C20:{name}'
    if ev.get('ev') == 'exc':
        return f"C20:exception:{ev.get('what')}"
    if ev.get('ev') == 'grant' and ev.get('g', 1) < 1:
        return 'C20:grant-from-a-limiter-never-configured-for-this-direction'
    return f"C20:unexplained:{ev.get('ev')}"


def _selftest_traces():
    """Hand-made traces (independent of the code under test): the good ones must be accepted, each
    falsified copy must be rejected."""
    def init(k, n=2, timely=1):
        return dict(ev='init', k=k, b=0, a=TPS, n=n, jit=0, timely=timely)

    def grant(t, n, g=1, c=1, cnt=1, reqt=None, rcur=True, b=0, a=0):
        return dict(ev='grant', c=c, t=t, n=n, cnt=cnt, g=g, rcur=rcur, reqt=t if reqt is None else reqt, gt=t, b=b, a=a)

    def end(t, w=0, k=0):
        return dict(ev='end', t=t, w=w, k=k)

    lim = [init(2), grant(0, 2048, cnt=16), grant(600, 128, c=2, reqt=500, b=1000), grant(7000, 2048, cnt=16),
           grant(7512, 1024, cnt=8), end(7600)]
    unl = [init(0), grant(10, 8192, b=0, a=TPS), grant(10, 8192, c=2, b=0, a=TPS), end(20)]
    chg = [init(2), grant(0, 2048, cnt=16), dict(ev='set', t=0, k=2, b=0, a=0), grant(512, 1024, g=2, cnt=8),
           dict(ev='set', t=512, k=1, b=0, a=0), grant(640, 128, g=2, c=2, reqt=500), grant(1536, 1024, g=3, cnt=8),
           end(1600, w=700, k=1)]
    good = [('limited', lim), ('unlimited', unl), ('limit-changes-and-in-flight-call', chg)]
    bad = []

    def variant(name, base, fn):
        b = copy.deepcopy(base)
        fn(b)
        bad.append((name, b))

    variant('grant-inflated', lim, lambda b: b[1].update(n=2048 + 129))
    variant('second-burst-too-early', lim, lambda b: b[3].update(t=700))
    variant('bucket-over-cap', lim, lambda b: b[2].update(b=2049))
    variant('bucket-negative', lim, lambda b: b[2].update(b=-5))
    variant('zero-grant', lim, lambda b: b[2].update(n=0))
    variant('waited-too-long', lim, lambda b: b[2].update(reqt=-1600, t=600))
    variant('pending-too-long', lim, lambda b: b[-1].update(w=2050, k=2))
    variant('unlimited-waited', unl, lambda b: b[2].update(reqt=5))
    variant('burst-per-change', chg, lambda b: b.insert(3, grant(0, 2048 + 256, g=2, cnt=16)))
    variant('in-flight-abuse-size', chg, lambda b: b[5].update(n=4096))
    variant('in-flight-abuse-twice', chg, lambda b: b.insert(6, grant(641, 1024, g=2, c=2, reqt=500)))
    variant('exception-from-take_tokens', lim, lambda b: b.insert(2, dict(ev='exc', c=1, t=0, what='take:ZeroDivisionError')))
    return good, bad


_EXACT_POSITIONS = [   # (StaleFullBucket, StaleRateOnChange, Fifo)
    ('copy_tokens-and-fifo-repaired', ('TRUE', 'FALSE', 'TRUE')),      # the repository since fixes C20-1, C20-2
    ('code', ('TRUE', 'TRUE', 'FALSE')),                                # the pinned commit
    ('copy_tokens-repaired', ('TRUE', 'FALSE', 'FALSE')),
    ('fifo-repaired', ('TRUE', 'TRUE', 'TRUE')),
    ('all-repaired', ('FALSE', 'FALSE', 'TRUE')),
]


def conformance(chk: Check, raw_traces: list, tmp: str):
    """Informational: in which position of its deviation switches does the design model reproduce
    the recorded executions exactly (grant, bucket and last_refill after every step)?"""
    base = open(os.path.join(tlc.SPECS, 'RateLimiter', 'TraceExact.cfg')).read()
    result = {}
    for label, (d1, d4, fifo) in _EXACT_POSITIONS:
        cfg = re.sub(r'StaleFullBucket = \w+', f'StaleFullBucket = {d1}', base)
        cfg = re.sub(r'StaleRateOnChange = \w+', f'StaleRateOnChange = {d4}', cfg)
        cfg = re.sub(r'Fifo = \w+', f'Fifo = {fifo}', cfg)
        path = os.path.join(tmp, f'TraceExact_{label}.cfg')
        with open(path, 'w') as fh:
            fh.write(cfg)
        v = tlc.validate_traces(TRACE, path, raw_traces, max_diag=0, workers=4, timeout=900)
        chk.add_trace_run(v.result)
        result[label] = f'{len(v.accepted)}/{len(raw_traces)}'
        if len(v.accepted) == len(raw_traces):
            break
    chk.cov['model_conformance'] = result
    best = max(result, key=lambda k: int(result[k].split('/')[0]))
    if int(result[best].split('/')[0]) == len(raw_traces):
        chk.log(f'design model reproduces all {len(raw_traces)} replayed executions exactly in position "{best}"')
    else:
        chk.notes.append(f'no position of the design model reproduces every replayed execution exactly ({result}); '
                         'the verdict does not depend on this (property-level trace validation)')
        chk.log(f'model conformance (informational): {result}')
    return best


_PROPS = ['WindowBoundT', 'BoundedWaitT', 'BucketCappedT', 'UnlimitedNotThrottledT', 'GrantsPositiveT']


def judge(chk: Check, traces: list, scs: list, tmp: str):
    """Validate the recorded traces; say which property each rejected trace breaks (one batch run per
    property with that constraint dropped: a trace accepted then breaks exactly that property)."""
    v = tlc.validate_traces(TRACE, 'Trace.cfg', traces, workers=4, timeout=1500, max_diag=0)
    rej = sorted(v.rejected)
    if rej:
        base = open(os.path.join(tlc.SPECS, 'RateLimiter', 'Trace.cfg')).read()
        left = list(rej)
        for prop in _PROPS:
            if not left:
                break
            path = os.path.join(tmp, f'Trace_without_{prop}.cfg')
            with open(path, 'w') as fh:
                fh.write(base.replace(f'CONSTRAINT {prop}\n', ''))
            sub = tlc.validate_traces(TRACE, path, [traces[t - 1] for t in left], workers=2, timeout=900, max_diag=0)
            for j in sorted(sub.accepted):
                v.rejected[left[j - 1]] = dict(kind='property', name=prop, at=None, detail='', event=None)
            left = [t for j, t in enumerate(left, 1) if j not in sub.accepted]
        # traces that break several properties (or contain an event no action explains): judge them
        # with one property at a time; the first one that rejects gives the name
        only = re.sub(r'CONSTRAINT \w+\n', '', base)
        for prop in [None] + _PROPS:     # first: records that are not an instance of any action at all
            if not left:
                break
            path = os.path.join(tmp, f'Trace_only_{prop}.cfg')
            with open(path, 'w') as fh:
                fh.write(only.replace('CHECK_DEADLOCK', (f'CONSTRAINT {prop}\n' if prop else '') + 'CHECK_DEADLOCK'))
            sub = tlc.validate_traces(TRACE, path, [traces[t - 1] for t in left], workers=2, timeout=900, max_diag=0)
            for j in sorted(sub.rejected):
                t = left[j - 1]
                if prop:
                    v.rejected[t] = dict(kind='property', name=prop, at=None, detail='several properties', event=None)
                else:       # rejected with no property at all: some record is not an instance of any action
                    bad = next((e for e in traces[t - 1] if e['ev'] == 'exc' or (e['ev'] == 'grant' and e.get('g', 1) < 1)),
                               None)
                    v.rejected[t] = dict(kind='unexplained_event', name='NoSpecActionMatches', at=None, detail='', event=bad)
            left = [t for j, t in enumerate(left, 1) if j not in sub.rejected]
        # full diagnosis (state at the violation / first unexplained event) for a few
        for t in rej[:4]:
            info = tlc.diagnose_trace(TRACE, 'TraceDiag.cfg', traces[t - 1])
            if info.get('kind') != 'rejected':
                v.rejected[t] = info
    chk.apply_verdicts(v, traces, _fingerprint, meta_of=lambda tid: dict(scs[tid - 1]))
    chk.log(f'trace validation: {len(v.accepted)} accepted, {len(v.rejected)} rejected')
    return v


def replay(chk: Check, data: dict):
    """./check C20 --replay FILE: run the scenario stored in a replay file again and judge it."""
    sc = (data.get('replay') or {}).get('meta') or data.get('scenario')
    if not sc:
        raise MachineryFailure('the replay file holds no scenario')
    tr = merged(execute(sc))
    chk.count(('replay', sc.get('name')))
    chk.sample(dict(scenario={k: (x if k != 'steps' else x[:30]) for k, x in sc.items()}, trace=tr[:40]))
    tmp = tempfile.mkdtemp(prefix='c20-')
    try:
        judge(chk, [tr], [sc], tmp)
    finally:
        shutil.rmtree(tmp, ignore_errors=True)


def run(chk: Check, args):
    from concurrent.futures import ThreadPoolExecutor
    thorough = chk.tier == 'thorough'
    chk.cov['rule'] = ('cases = executions of the real rate limiters behind Network.set_*_speed_limit: (a) stimulus '
                       'sequences (clock advance / take_tokens call / limit change) projected from simulated behaviours '
                       'of the real-unit design model, (b) hand-written regression histories, (c) seeded random '
                       'clock-driven and autonomous virtual-time runs with 1-4 connections and limits 0..10000 KiB/s, '
                       '(d) send_file/receive_file over simnet links; each recorded trace is judged by TLC '
                       '(RateLimiterTrace, Exact = FALSE); distinct = distinct recorded traces; non-trivial = at least '
                       'one grant under a limit')
    W = 2
    expect = ['Request', 'Poll', 'Tick', 'SetLimit', 'Cancel', 'Reinit']
    dev_fast = bool(os.environ.get('VERIF_C20_DEV_SKIP_MODELS'))    # development aid (mutant loops) only
    if dev_fast:
        chk.log('DEVELOPMENT MODE: design models and conformance skipped')
        return _executions(chk, thorough, [], conform=False)
    with ThreadPoolExecutor(max_workers=4 if not thorough else 3) as pool:
        jobs = {
            'scaled': pool.submit(tlc.model_check, SPEC, 'MC_scaled.cfg', expect_actions=expect, workers=W, timeout=900),
            'teeth_fullbucket': pool.submit(tlc.run_tlc, SPEC, 'MC_teeth_fullbucket.cfg', workers=1, timeout=600),
            'teeth_stalerate': pool.submit(tlc.run_tlc, SPEC, 'MC_teeth_stalerate.cfg', workers=W, timeout=600),
            'teeth_nofifo': pool.submit(tlc.run_tlc, SPEC, 'MC_teeth_nofifo.cfg', workers=1, timeout=600),
            'teeth_live_nofifo': pool.submit(tlc.run_tlc, SPEC, 'MC_live_nofifo.cfg', workers=1, timeout=600),
            'teeth_deadwaiter': pool.submit(tlc.run_tlc, SPEC, 'MC_teeth_deadwaiter.cfg', workers=1, timeout=600),
            'teeth_fastpath': pool.submit(tlc.run_tlc, SPEC, 'MC_teeth_fastpath.cfg', workers=1, timeout=600),
        }
        if thorough:
            jobs['scaled_c2'] = pool.submit(tlc.model_check, SPEC, 'MC_scaled_c2.cfg', expect_actions=expect, workers=4, timeout=3000)
            jobs['scaled_strict'] = pool.submit(tlc.model_check, SPEC, 'MC_scaled_repaired.cfg', expect_actions=expect, workers=4, timeout=3000)
            jobs['scaled_n3'] = pool.submit(tlc.model_check, SPEC, 'MC_scaled_n3.cfg', expect_actions=expect, workers=4, timeout=3000)
            jobs['live'] = pool.submit(tlc.model_check, SPEC, 'MC_live.cfg', expect_actions=expect, workers=2, timeout=3000)
        beh_job = pool.submit(behaviour_scenarios, chk, 1500 if thorough else 150, 120)
        res = {k: j.result() for k, j in jobs.items()}
        tlc_scs = beh_job.result()

    chk.add_model('RateLimiter scaled (TPS=16), 2 connections, 1 limit change (exhaustive)', res['scaled'])
    if thorough:
        chk.add_model('RateLimiter scaled, 2 connections, 2 limit changes (exhaustive)', res['scaled_c2'])
        chk.add_model('RateLimiter scaled, all deviations repaired, exact bound (exhaustive)', res['scaled_strict'])
        chk.add_model('RateLimiter scaled, 3 connections (exhaustive)', res['scaled_n3'])
        chk.add_model('RateLimiter scaled, liveness under fairness (exhaustive)', res['live'])
    # the deviations, switch in the code's position, must break the property in the design model
    teeth = {
        'full_bucket_stale_refill_violates_exact_WindowBound': any(i.name == 'WindowBound' for i in res['teeth_fullbucket'].issues),
        'stale_rate_on_change_violates_WindowBound': any(i.name == 'WindowBound' for i in res['teeth_stalerate'].issues),
        'no_fifo_violates_BoundedBypass': any(i.name == 'BoundedBypass' for i in res['teeth_nofifo'].issues),
        'no_fifo_violates_EventuallyGranted': any(i.kind == 'temporal' for i in res['teeth_live_nofifo'].issues),
        'turn_lost_on_cancelled_waiter_violates_NoStall': any(i.name == 'NoStall' for i in res['teeth_deadwaiter'].issues),
        'fast_path_in_front_of_the_queue_violates_BoundedBypass': any(i.name == 'BoundedBypass' for i in res['teeth_fastpath'].issues),
    }
    chk.cov['binding_selftest'].update(teeth)
    chk.notes.append(
        'observation below the resolution of the verdict (Slack = one 128-byte chunk): refill() returns early on a '
        'full bucket without moving last_refill (rate_limiter.py:85-86), so after a grant from a full bucket the next '
        'refill credits the time the bucket sat full; e.g. limit lowered 10 -> 1 KiB/s after 5 idle seconds, then 9 '
        'calls at one clock reading are granted 1152 bytes where one second of traffic is 1024.  The excess is at most '
        'one chunk; the design model shows it with Slack = 0 (MC_teeth_fullbucket.cfg) and is exact with '
        'StaleFullBucket = FALSE (MC_scaled_repaired.cfg).  Set Slack = 0 in Trace.cfg/TraceDiag.cfg to make it a violation.')
    if not all(teeth.values()):
        raise MachineryFailure(f'a deviation switch in the code position did not violate its property: {teeth}')

    _executions(chk, thorough, tlc_scs, conform=True)


def _executions(chk: Check, thorough: bool, tlc_scs: list, conform: bool):
    # ---- executions of the real code --------------------------------------------------
    scs = list(tlc_scs) + regression_scenarios()
    nr = (1200, 700, 300) if thorough else (120, 70, 40)
    scs += [random_stim(chk.rng, i) for i in range(nr[0])]
    scs += [random_auto(chk.rng, i) for i in range(nr[1])]
    scs += [random_wire(chk.rng, i) for i in range(nr[2])]
    raw, traces = [], []
    for sc in scs:
        ev = execute(sc)
        raw.append(ev)
        tr = merged(ev)
        traces.append(tr)
        chk.count((sc['kind'], tuple(tuple(sorted(e.items())) for e in tr)),
                  nontrivial=any(e['ev'] == 'grant' and e.get('n', 0) > 0 for e in tr) and
                  (tr[0]['k'] > 0 or any(e['ev'] == 'set' and e['k'] > 0 for e in tr)))
    if _HANGS[0]:
        chk.notes.append(f'{_HANGS[0]} scenario(s) never let virtual time pass (busy loop); after {MAX_HANGS} the remaining '
                         'scenarios were not started')
    chk.cov['network_reinitialisations'] = REINITS[0]
    if REINITS[0] == 0:
        raise MachineryFailure('the rig never managed to run Network.initialize() (' +
                               str(getattr(_LAST_RIG[0], 'last_reinit_error', '?')) + ')')
    chk.log(f'executed {len(scs)} scenarios on the real code ({len(tlc_scs)} from TLC behaviours), '
            f'{sum(len(t) for t in traces)} records')
    chk.cov['scenarios'] = {k: sum(1 for s in scs if s['kind'] == k) for k in ('stim', 'auto', 'wire')}
    chk.cov['scenarios']['from_tlc_behaviours'] = len(tlc_scs)
    for i in (0, len(tlc_scs) + 4, len(scs) - 1):
        chk.sample(dict(scenario={k: (v if k != 'steps' else v[:30]) for k, v in scs[i].items()}, trace=traces[i][:25]))

    tmp = tempfile.mkdtemp(prefix='c20-')
    try:
        v = judge(chk, traces, scs, tmp)
        # informational: exact conformance of the design model on the clock-driven executions
        exact = [r for r, sc in zip(raw, scs) if sc['kind'] == 'stim' and (sc.get('source') or not sc['name'].startswith('rstim'))]
        if conform:
            conformance(chk, exact, tmp)
    finally:
        shutil.rmtree(tmp, ignore_errors=True)

    # binding self-test: hand-made good traces are accepted, every falsified copy is rejected
    good, bad = _selftest_traces()
    gv = tlc.validate_traces(TRACE, 'Trace.cfg', [g[1] for g in good], max_diag=0, workers=2, timeout=600)
    cv = tlc.validate_traces(TRACE, 'Trace.cfg', [b[1] for b in bad], max_diag=0, workers=2, timeout=600)
    chk.cov['binding_selftest']['good_traces_accepted'] = f'{len(gv.accepted)}/{len(good)}'
    chk.cov['binding_selftest']['corrupted_traces_rejected'] = f'{len(cv.rejected)}/{len(bad)}'
    chk.cov['binding_selftest']['corruptions'] = [b[0] for b in bad]
    if len(gv.accepted) != len(good):
        raise MachineryFailure(f'hand-made good traces were rejected: {[good[t - 1][0] for t in gv.rejected]}')
    if len(cv.rejected) != len(bad):
        raise MachineryFailure(f'corrupted traces were accepted by the trace spec: {[bad[t - 1][0] for t in cv.accepted]}')

    chk.assumptions += [
        'clock readings are multiples of 1/1024 s (tick grid): on them the float arithmetic of refill() is exact and '
        'equals the integer model; a fifth of the autonomous runs use an unquantised float clock and are judged with one '
        'tick of slack',
        'WindowBound is checked with a resolution of one chunk (MIN_BUCKET_SIZE = 128 bytes): a grant from a bucket that '
        'sat full is followed by a refill that credits the idle time (rate_limiter.py:85-86 early return keeps '
        'last_refill), which can exceed the literal bound by at most one chunk; the design model shows it with Slack = 0',
        'across limit changes the bound of a window is the integral of the configured limit plus one second of the '
        'largest limit in force inside the window; a window that touches an unlimited period is unbounded',
        'a take_tokens() call issued before a limit change and still waiting on the replaced limiter object is accounted '
        'to the replaced limiter (at most one chunk per connection), not to the window of the new limit',
        'cancellation of a waiting take_tokens() call (transfer aborted / paused / removed) is part of the environment: the '
        'cancelled call leaves the queue, the bounded wait of the remaining calls must still hold',
        'bounded wait is judged on a timely loop (every due poll runs before the clock moves on): a request returns '
        'within one second per connection sharing the limiter, for every limit >= 1 KiB/s',
    ]

"""C15 - user tracking on the server mirrors the set of reasons (spec: UserTracking).

Direction A: behaviours of the TLC design model (edge cover of the 1-user state graph, simulation
of the 2-user model, counterexamples of the model with the deviation switches in the code's
position) are projected onto environment stimuli (track/untrack calls, server behaviour per
AddUser attempt, clock, connection loss) with a placement in the loop's schedule, and executed on
the real UserManager / UserTrackingManager / Network on a simulated server connection in virtual
time.  Direction B: every recorded execution is judged by TLC with UserTrackingTrace.
"""
from __future__ import annotations

import asyncio
import copy
import re

from .. import tlc, vloop, simnet, simserver
from ..core import Check, MachineryFailure

SPEC = 'UserTracking/UserTracking.tla'
TRACE = 'UserTracking/UserTrackingTrace.tla'

USERNAMES = {'u1': 'alice', 'u2': 'bob b'}
FLAG_PERMS = [('R', 'F', 'T'), ('F', 'T', 'R'), ('T', 'R', 'F'), ('R', 'T', 'F'), ('F', 'R', 'T'), ('T', 'F', 'R')]
DRAIN_S = 700.0          # final phase: longer than the longest retry delay
LATENCY = 0.001          # server -> client delivery delay (an answer never overtakes the code that waits for it)
PROMPT_S = 5.0           # the scripted server answers an AddUser within this time or not at all (no late answers)


# ---------------------------------------------------------------------------
# one execution on the real code
# ---------------------------------------------------------------------------

def _run_sync(coro):
    """Run a coroutine that does not suspend (track_user / untrack_user) from a callback."""
    try:
        coro.send(None)
    except StopIteration:
        return
    coro.close()
    raise RuntimeError('API call suspended unexpectedly')


class Rig:
    """Real Network + UserManager (+ TransferManager for the TRANSFER reason) against a
    ScriptedServer on the SimNet.  Executes a schedule (list of stimuli) and records the trace.

    stimulus forms (last element = placement `gap`):
      ('call', u, op, f, gap)         op in add|rem, f in R|F|T (abstract flag names)
      ('reply', u, exists, gap)       the server answers u's outstanding AddUser
      ('wait', seconds)               let virtual time pass
      ('waitretry', u)                let virtual time pass until u's retry timer has elapsed
      ('failframe', n)                the write of the n-th AddUser/RemoveUser frame will fail
      ('close', how, gap)             how in eof|reset|requested|sendfail
    gap:
      'Q'            drain the loop first (a `q` record is taken)
      int k          k loop iterations after the previous stimulus, no draining
      ('L', u, st)   from a task created by a UserTrackingStateChangedEvent(u, st) listener
      ('S', u, st)   inside a coroutine listener of that event
      ('T', u, k)    in the loop iteration in which u's retry timer elapses: k = -1 just before the
                     timer's handle, 0 just after it (the retry task is woken but has not run), k > 0
                     that many iterations later
    A stimulus placed with an event/timer gap takes the directly following `call`s with gap 0 along.
    """

    def __init__(self, users=('u1',), flagperm=('R', 'F', 'T'), via_cycle=False, names=None):
        self.users = list(users)
        self.flagperm = flagperm
        self.via_cycle = via_cycle
        self.names = dict(names or USERNAMES)
        self.events: list[dict] = []
        self.armed: list[dict] = []
        self.open_attempt: dict[str, bool] = {}
        self.open_since: dict[str, float] = {}
        self.retry_deadline: dict[str, float] = {}
        self.auto_reply = False
        self.fail_next_frame = False
        self.fail_at_frame = None      # 1-based index of the tracking frame whose write fails
        self.nframes = 0
        self.closing = False
        self._keep = []

    # -- helpers -------------------------------------------------------------
    def t(self):
        return int(round((self.loop.time() - self.t0) * 1000))

    def rec(self, **kw):
        kw['t'] = self.t()
        self.events.append(kw)

    def uname(self, u):
        return self.names[u]

    def uof(self, name):
        for u, n in self.names.items():
            if n == name:
                return u
        return None

    def flag(self, f):
        """f = one or several abstract reasons ('R', 'RF', ...) -> the TrackingFlag (combination)"""
        from aioslsk.user.model import TrackingFlag
        m = {'R': TrackingFlag.REQUESTED, 'F': TrackingFlag.FRIEND, 'T': TrackingFlag.TRANSFER}
        ren = dict(zip(('R', 'F', 'T'), self.flagperm))
        out = TrackingFlag(0)
        for c in f:
            out |= m[ren[c]]
        return out

    def flagnames(self, value):
        from aioslsk.user.model import TrackingFlag
        inv = {v: k for k, v in zip(('R', 'F', 'T'), self.flagperm)}
        out = []
        for real, tf in (('R', TrackingFlag.REQUESTED), ('F', TrackingFlag.FRIEND), ('T', TrackingFlag.TRANSFER)):
            if tf in value:
                out.append(inv[real])
        return sorted(out)

    # -- set-up ----------------------------------------------------------------
    async def start(self, loop):
        from aioslsk.events import EventBus, UserTrackingStateChangedEvent, ConnectionStateChangedEvent
        from aioslsk.network.network import Network
        from aioslsk.network.connection import ConnectionState, ServerConnection
        from aioslsk.user.manager import UserManager
        from aioslsk.protocol import messages as M
        self.loop = loop
        self.M = M
        self.net = simnet.SimNet(loop).install()
        self.srv = simserver.ScriptedServer(self.net)
        await self.srv.start()
        self.settings = simserver.make_settings('me')
        self.bus = EventBus()
        self.network = Network(self.settings, self.bus)
        self.um = UserManager(self.settings, self.bus, self.network)
        self.tm = None
        if self.via_cycle:
            from unittest.mock import AsyncMock
            from aioslsk.transfer.manager import TransferManager
            self.tm = TransferManager(self.settings, self.bus, self.um, AsyncMock(), self.network)
            self.transfers = {}
        await self.network.connect_server()
        # no pings are exchanged here: keep the connection's idle read timeout out of the picture
        self.network.server_connection.read_timeout = 10 ** 8
        self.network.server_connection.start_reader_task()      # what SoulSeekClient.login does
        await vloop.settle(loop)
        self.link = self.net.links[-1]
        self.link.delay[1] = LATENCY
        self.busy_until = 0.0
        self.t0 = loop.time()

        # frames on the wire: the client's end of the simulated link
        w = self.link.writers[0]
        orig_write = w.write

        def write(data):
            kind = None
            try:
                msg = M.ServerMessage.deserialize_request(bytes(data))
                if isinstance(msg, M.AddUser.Request):
                    kind = ('add', msg.username)
                elif isinstance(msg, M.RemoveUser.Request):
                    kind = ('rem', msg.username)
            except Exception:
                pass
            if kind is not None:
                u = self.uof(kind[1])
                if not w.is_closing() and not self.link.dead:
                    self.nframes += 1
                    if self.fail_at_frame == self.nframes:
                        self.fail_next_frame = True
                if self.fail_next_frame and not w.is_closing():
                    self.fail_next_frame = False
                    self.closing = True
                    self.rec(ev='close', how='sendfail', u=u or 'none', k=kind[0])
                    raise ConnectionResetError(104, 'Connection reset by peer')
                if u is not None and not w.is_closing() and not self.link.dead:
                    self.rec(ev='frame', u=u, k=kind[0])
                    if kind[0] == 'add':
                        self.open_attempt[u] = True
                        self.open_since[u] = self.loop.time()
                    else:
                        self.open_attempt[u] = False
                elif u is None:
                    self.rec(ev='exc', what=f'frame for unknown user {kind[1]!r}')
            return orig_write(data)
        w.write = write

        # scripted server: answers only when told to (or in the final phase)
        def on_add(srv, sess, msg):
            if self.auto_reply:
                u = self.uof(msg.username)
                if u is not None and self.open_attempt.get(u):
                    self._send_reply(u, True)
            return None
        self.srv.handlers[M.AddUser.Request] = on_add

        def on_evt(ev):
            u = self.uof(ev.user.name)
            st = ev.state.value
            msg = 'none' if ev.raw_message is None else ('exists' if ev.raw_message.exists else 'notexists')
            self.rec(ev='evt', u=u or 'none', st=st, msg=msg)
            if u is not None:
                if st == 'retry_pending':
                    self.open_attempt[u] = False
                    self.retry_deadline[u] = self.loop.time() + (600.0 if msg == 'notexists' else 10.0)
                elif st == 'tracked':
                    self.open_attempt[u] = False
                for a in list(self.armed):
                    if a['mode'] == 'L' and a['trig'] == (u, st):
                        self.armed.remove(a)
                        tk = asyncio.ensure_future(self._group(a['group']))
                        self._keep.append(tk)

        async def on_evt_co(ev):
            u = self.uof(ev.user.name)
            st = ev.state.value
            for a in list(self.armed):
                if a['mode'] == 'S' and a['trig'] == (u, st):
                    self.armed.remove(a)
                    await self._group(a['group'])

        def on_conn(ev):
            if isinstance(ev.connection, ServerConnection) and ev.state == ConnectionState.CLOSED:
                self.rec(ev='closed')
        self._keep += [on_evt, on_evt_co, on_conn]
        self.bus.register(UserTrackingStateChangedEvent, on_evt)
        self.bus.register(UserTrackingStateChangedEvent, on_evt_co)
        self.bus.register(ConnectionStateChangedEvent, on_conn)

    def stop(self):
        self.net.uninstall()

    # -- stimuli -----------------------------------------------------------------
    def _send_reply(self, u, exists):
        from aioslsk.protocol.primitives import UserStats
        M = self.M
        sess = self.srv.sessions[-1] if self.srv.sessions else None
        if sess is None or sess.closed or self.link.dead:
            return False
        if self.loop.time() - self.open_since.get(u, self.loop.time()) > PROMPT_S:
            return False      # too late to count as an answer: this attempt stays unanswered
        self.open_attempt[u] = False
        self.busy_until = self.loop.time() + LATENCY
        self.rec(ev='reply', u=u, exists=bool(exists))
        if exists:
            sess.send(M.AddUser.Response(self.uname(u), True, status=2, user_stats=UserStats(1, 2, 3, 4),
                                         country_code='BE'))
        else:
            sess.send(M.AddUser.Response(self.uname(u), False))
        return True

    async def _call(self, u, op, f):
        if self.closing:
            return
        self.rec(ev='call', u=u, op=op, f=sorted(f))
        try:
            if self.via_cycle and len(f) == 1 and dict(zip(('R', 'F', 'T'), self.flagperm))[f] == 'T':
                await self._cycle(u, op)
            elif op == 'add':
                await self.um.track_user(self.uname(u), self.flag(f))
            else:
                await self.um.untrack_user(self.uname(u), self.flag(f))
        except Exception as exc:     # an observation, judged by the trace spec
            self.rec(ev='exc', what=f'{type(exc).__name__}: {exc}'[:200])

    async def _cycle(self, u, op):
        """The transfer manager's view (transfer/manager.py manage_user_tracking): track = the user has
        an unfinished transfer (next to a finished one), untrack = only finished transfers are left."""
        from aioslsk.transfer.model import Transfer, TransferDirection
        from aioslsk.transfer.state import TransferState
        pair = self.transfers.get(u)
        if pair is None:
            pair = (Transfer(self.uname(u), 'music\\done.mp3', TransferDirection.DOWNLOAD),
                    Transfer(self.uname(u), 'music\\song.mp3', TransferDirection.DOWNLOAD))
            self.transfers[u] = pair
        done, cur = pair
        done.state = TransferState.init_from_state(TransferState.State.COMPLETE, done)
        cur.state = TransferState.init_from_state(
            TransferState.State.QUEUED if op == 'add' else TransferState.State.ABORTED, cur)
        self.tm._transfers = [done, cur]
        await self.tm.manage_user_tracking()

    async def _group(self, group):
        for st in group:
            await self._do(st)

    async def _do(self, st):
        kind = st[0]
        if kind == 'call':
            await self._call(st[1], st[2], st[3])
        elif kind == 'reply':
            if self.open_attempt.get(st[1]):
                self._send_reply(st[1], st[2])
        elif kind == 'close':
            self._close(st[1])

    def _close(self, how):
        if self.closing and how != 'sendfail':
            return
        if how == 'sendfail':
            self.fail_next_frame = True
            return
        self.closing = True
        self.rec(ev='close', how=how)
        if how == 'eof':
            self.link.cut('eof')
        elif how == 'reset':
            self.link.cut('reset')
        elif how == 'requested':
            self._keep.append(asyncio.ensure_future(self.network.disconnect_server()))
        else:
            raise MachineryFailure(f'unknown close mode {how}')

    def snapshot(self):
        cur = asyncio.current_task()
        n = 0
        for tk in asyncio.all_tasks(self.loop):
            if tk.done() or tk is cur or tk is self.main_task:
                continue
            if tk.get_name().startswith('sim-accept-'):
                continue
            n += 1
        flags, sts = {}, {}
        for u in ('u1', 'u2'):
            name = self.uname(u)
            try:
                flags[u] = self.flagnames(self.um.get_tracking_flags(name))
                sts[u] = self.um.get_tracking_state(name).value
            except Exception as exc:
                self.rec(ev='exc', what=f'{type(exc).__name__}: {exc}'[:200])
                flags[u], sts[u] = [], 'untracked'
        self.rec(ev='q', flags=flags, st=sts, ntasks=n)

    async def quiet(self):
        await vloop.settle(self.loop)
        if self.loop.time() < self.busy_until:        # an answer is on its way: let it arrive
            await asyncio.sleep(self.busy_until - self.loop.time())
            await vloop.settle(self.loop)
        self.snapshot()

    async def run(self, loop, schedule):
        self.main_task = asyncio.current_task()
        await self.start(loop)
        try:
            i = 0
            n = len(schedule)
            while i < n:
                st = schedule[i]
                i += 1
                if st[0] == 'wait':
                    await self.quiet()
                    await asyncio.sleep(float(st[1]))
                    continue
                if st[0] == 'waitretry':
                    await self.quiet()
                    dl = self.retry_deadline.get(st[1])
                    if dl is not None and dl > self.loop.time():
                        await asyncio.sleep(dl - self.loop.time())
                    continue
                if st[0] == 'failframe':
                    self.fail_at_frame = int(st[1])
                    continue
                gap = st[-1]
                if gap == 'Q':
                    await self.quiet()
                    await self._do(st)
                elif isinstance(gap, int):
                    if self.loop.time() < self.busy_until:
                        # iterations are counted from the arrival of the answer that is on its way
                        await asyncio.sleep(self.busy_until - self.loop.time())
                    for _ in range(gap):
                        await asyncio.sleep(0)
                    await self._do(st)
                else:
                    group = [st]
                    while i < n and schedule[i][0] == 'call' and schedule[i][-1] == 0:
                        group.append(schedule[i])
                        i += 1
                    if gap[0] in ('L', 'S'):
                        self.armed.append(dict(mode=gap[0], trig=(gap[1], gap[2]), group=group))
                    elif gap[0] == 'T':
                        await self._at_timer(gap[1], gap[2], group)
                    else:
                        raise MachineryFailure(f'unknown gap {gap!r}')
            # final phase: the server now confirms every AddUser; wait longer than the longest retry delay
            await self.quiet()
            self.auto_reply = True
            await asyncio.sleep(DRAIN_S)
            await self.quiet()
            await asyncio.sleep(DRAIN_S)
            await self.quiet()
        finally:
            self.stop()
        for ctx in loop.unhandled:
            self.events.append(dict(ev='exc', t=self.t(), what=('loop: ' + str(ctx.get('message')) + ' ' +
                                                                repr(ctx.get('exception')))[:200]))
        return self.events

    async def _at_timer(self, u, k, group):
        """Run `group` in the loop iteration in which u's retry timer (armed when the last
        retry_pending event was emitted, documented delay) elapses, k iterations later."""
        await self.quiet()
        dl = self.retry_deadline.get(u)
        if dl is None or dl <= self.loop.time():
            await self._group(group)
            return
        fut = self.loop.create_future()

        def fire(n):
            if n > 0:
                self.loop.call_soon(fire, n - 1)
                return
            for st in group:
                if st[0] == 'call':
                    try:
                        _run_sync(self._do(st))
                    except RuntimeError as exc:
                        self.rec(ev='exc', what=str(exc))
                elif st[0] == 'close':
                    self._close(st[1])
                elif st[0] == 'reply':
                    if self.open_attempt.get(st[1]):
                        self._send_reply(st[1], st[2])
            if not fut.done():
                fut.set_result(None)
        self.loop.call_at(dl - 1e-10 if k < 0 else dl + 1e-10, fire, max(k, 0))
        await fut


def execute(schedule, users=('u1',), flagperm=('R', 'F', 'T'), via_cycle=False):
    rig = Rig(users=users, flagperm=flagperm, via_cycle=via_cycle)
    try:
        events, loop = vloop.run(lambda lp: rig.run(lp, schedule))
    except vloop.Deadlock:
        events = rig.events + [dict(ev='exc', t=0, what='virtual loop deadlock')]
    return events


# ---------------------------------------------------------------------------
# TLC behaviours -> schedules
# ---------------------------------------------------------------------------

_LAB = re.compile(r'(\w+)\((.*)\)$')
CLOSE_HOWS = ('eof', 'reset', 'requested')


def _args(s):
    s = re.sub(r'\{([^}]*)\}', lambda m: ''.join(sorted(re.findall(r'[A-Z]', m.group(1)))), s)
    return [a.strip().strip('"') for a in s.split(',')] if s.strip() else []


def schedule_of(labels, how='any'):
    """Project a behaviour (sequence of action labels of UserTracking) onto the stimuli the driver
    issues.  The phase carried by each environment action says where in the loop's schedule the
    stimulus lands; it is turned into a placement (`gap`)."""
    sched = []
    last_armed = None            # index after which a following 'd'-phase call joins the armed group
    pending_retry = None         # user whose RetryDue has just been mapped to a 'waitretry'
    fail = None
    for lab in labels:
        m = _LAB.match(lab)
        if not m:
            continue
        name, a = m.group(1), _args(m.group(2))
        if name in ('WorkerRuns', 'DoneCallback', 'RetryRuns'):
            if name == 'RetryRuns':
                pending_retry = None
            continue
        if name == 'WorkerSendFails':
            if fail is None:
                fail = int(a[1]) + 1
            continue
        if name in ('TrackAt', 'UntrackAt'):
            u, f, ph = a
            op = 'add' if name == 'TrackAt' else 'rem'
            if ph == 'd':
                st = ('call', u, op, f, ('L', u, 'untracked'))
                if last_armed is not None:
                    sched.insert(last_armed + 1, ('call', u, op, f, 0))
                    last_armed += 1
                else:
                    pos = max(len(sched) - 1, 0)
                    sched.insert(pos, st)
                    last_armed = pos
                continue
            last_armed = None
            if ph == 'r' and pending_retry == u and sched and sched[-1] == ('waitretry', u):
                sched[-1] = ('call', u, op, f, ('T', u, 0))
                continue
            gap = 'Q' if ph == 'q' else 0
            sched.append(('call', u, op, f, gap))
            continue
        last_armed = None
        if name in ('ReplyExistsAt', 'ReplyNotExistsAt'):
            u, ph = a
            sched.append(('reply', u, name == 'ReplyExistsAt', 'Q' if ph == 'q' else 0))
        elif name == 'TimeoutAt':
            sched.append(('wait', 10))
        elif name == 'RetryDueAt':
            sched.append(('waitretry', a[0]))
            pending_retry = a[0]
        elif name == 'CloseAt':
            ph = a[0]
            if ph == 'q':
                sched.append(('close', how, 'Q'))
            elif ph == 'c':
                sched.append(('close', 'requested', 0))
            else:
                sched.append(('close', how, 0))
    if fail is not None:
        sched.insert(0, ('failframe', fail))
    return tuple(sched)


def variants_of(sched, rng, limit=4, shifts=(1, 2, 3)):
    """Other placements of the stimuli that the model put at slot level (the model's slots are
    coarser than the real loop's): shift integer gaps, replace the listener-task placement by a
    number of loop iterations after the stimulus that follows it."""
    out = []
    has_int = any(isinstance(s[-1], int) and s[0] in ('call', 'reply', 'close') for s in sched)
    if has_int:
        for d in shifts:
            out.append(tuple((s[:-1] + (s[-1] + d,)) if (isinstance(s[-1], int) and s[0] in ('call', 'reply', 'close')
                                                         and s[-1] == 0 and i > 0 and not
                                                         (isinstance(sched[i - 1][-1], tuple)))
                             else s for i, s in enumerate(sched)))
    for i, s in enumerate(sched):
        if s[0] == 'call' and isinstance(s[-1], tuple) and s[-1][0] == 'L':
            # the armed group = s and the following gap-0 calls; X = first stimulus after the group
            j = i + 1
            while j < len(sched) and sched[j][0] == 'call' and sched[j][-1] == 0:
                j += 1
            if j >= len(sched):
                continue
            group = list(sched[i:j])
            x = sched[j]
            for k in (1, 2, 3, 4, 5, 6):
                g2 = [group[0][:-1] + (k,)] + group[1:]
                out.append(tuple(sched[:i]) + (x,) + tuple(g2) + tuple(sched[j + 1:]))
            out.append(tuple(sched[:i]) + (group[0][:-1] + (('S',) + s[-1][1:],),) + tuple(group[1:]) + tuple(sched[i + len(group):]))
        if s[0] == 'call' and isinstance(s[-1], tuple) and s[-1][0] == 'T':
            for k in (-1, 1, 2):
                out.append(tuple(sched[:i]) + (s[:-1] + (('T', s[-1][1], k),),) + tuple(sched[i + 1:]))
    out = [o for o in dict.fromkeys(out) if o != sched]
    if len(out) > limit:
        rng.shuffle(out)
        out = out[:limit]
    return out


# ---------------------------------------------------------------------------
# the check
# ---------------------------------------------------------------------------

ALL_ACTIONS = ['TrackAt', 'UntrackAt', 'CloseAt', 'ReplyExistsAt', 'ReplyNotExistsAt', 'TimeoutAt', 'RetryDueAt',
               'WorkerRuns', 'WorkerSendFails', 'DoneCallback', 'RetryRuns']
SWITCHES = {           # deviation switch -> property the code-position model must break
    'FixWindow': ('NoLostCall',),
    'FixSendClose': ('NoLostCall', 'DroppedOnClose'),
    'FixStaleRetry': ('AddOnlyOnRise',),
    'FixCancelSwallow': ('NoLostCall', 'DroppedOnClose', 'ServerMirrorsWant'),
}


def directed_schedules():
    """Sweeps over the placement of one stimulus, iteration by iteration (the model's slots are
    coarser than the real loop's; these make sure every real slot of the critical stretches is hit)."""
    out = []
    for k in range(0, 13):
        # re-track k iterations after the untrack that empties the set
        out.append((('call', 'u1', 'add', 'R', 'Q'), ('reply', 'u1', True, 'Q'), ('call', 'u1', 'rem', 'R', 'Q'),
                    ('call', 'u1', 'add', 'F', k)))
        # untrack k iterations after the track, while the AddUser is on its way / waited for
        out.append((('call', 'u1', 'add', 'R', 'Q'), ('call', 'u1', 'rem', 'R', k), ('reply', 'u1', True, 'Q')))
    for k in range(0, 7):
        # connection lost k iterations after untrack+track of a user whose retry timer is pending
        for how in ('requested', 'eof'):
            out.append((('call', 'u1', 'add', 'R', 'Q'), ('wait', 10.5), ('call', 'u1', 'rem', 'R', 'Q'),
                        ('call', 'u1', 'add', 'R', 0), ('close', how, k)))
            out.append((('call', 'u1', 'add', 'R', 'Q'), ('reply', 'u1', True, 'Q'), ('call', 'u1', 'rem', 'R', 'Q'),
                        ('close', how, k)))
    for k in (-1, 0, 1, 2):
        for ok in (True, False):
            out.append((('call', 'u1', 'add', 'R', 'Q'), ('wait', 10.5), ('call', 'u1', 'rem', 'R', ('T', 'u1', k)),
                        ('call', 'u1', 'add', 'F', 0), ('reply', 'u1', ok, 'Q')))
            out.append((('call', 'u1', 'add', 'R', 'Q'), ('reply', 'u1', False, 'Q'),
                        ('call', 'u1', 'rem', 'R', ('T', 'u1', k)), ('call', 'u1', 'add', 'R', 0), ('reply', 'u1', ok, 'Q')))
    # every mix of 2 and 3 consecutive failing attempts (s = no answer, n = unknown user), then: the server
    # confirms in the final phase / confirms explicitly / the reason goes away / the next write fails
    import itertools
    for n in (2, 3):
        for mix in itertools.product('sn', repeat=n):
            base = [('call', 'u1', 'add', 'R', 'Q')]
            for kind in mix:
                base += ([('wait', 10)] if kind == 's' else [('reply', 'u1', False, 'Q')]) + [('waitretry', 'u1')]
            out.append(tuple(base))
            out.append(tuple(base) + (('reply', 'u1', True, 'Q'),))
            out.append(tuple(base) + (('call', 'u1', 'rem', 'R', 'Q'),))
            out.append((('failframe', n + 1),) + tuple(base))
            out.append((('call', 'u2', 'add', 'F', 'Q'), ('reply', 'u2', True, 'Q')) + tuple(base))
    # flag combinations as arguments, held completely / partially / not at all
    subsets = ('R', 'F', 'T', 'FR', 'RT', 'FT', 'FRT')
    for held in subsets:
        for arg in subsets:
            if len(held) == 1 and len(arg) == 1:
                continue
            out.append((('call', 'u1', 'add', held, 'Q'), ('reply', 'u1', True, 'Q'), ('call', 'u1', 'rem', arg, 'Q')))
            out.append((('call', 'u1', 'add', held, 'Q'), ('reply', 'u1', True, 'Q'), ('call', 'u1', 'add', arg, 'Q'),
                        ('call', 'u1', 'rem', held, 'Q')))
    for n in (1, 2, 3):
        out.append((('failframe', n), ('call', 'u1', 'add', 'R', 'Q'), ('call', 'u2', 'add', 'F', 'Q'),
                    ('reply', 'u1', True, 'Q'), ('call', 'u1', 'rem', 'R', 'Q'), ('call', 'u2', 'rem', 'F', 'Q')))
    return out


def _classify(info, trace):
    """Name the failing site for the fingerprint (naming only - the verdict is TLC's)."""
    name = info.get('name') or '?'
    ev = info.get('event') or {}
    hows = [e.get('how') for e in trace if e['ev'] == 'close']
    closed = any(e['ev'] == 'closed' for e in trace)
    if any(e['ev'] == 'exc' and 'RecursionError' in e['what'] for e in trace) and hows and not closed:
        return 'send-failure:close-handler-waits-for-the-sending-worker'
    if any(e['ev'] == 'exc' for e in trace):
        return 'exception:' + next(e['what'] for e in trace if e['ev'] == 'exc').split(':')[0].replace(' ', '-')[:40]
    if hows and not closed:
        if 'sendfail' in hows:
            return 'send-failure:close-handler-waits-for-the-sending-worker'
        return 'close:worker-survives-cancellation-while-cancelling-retry-timer'
    if hows and closed and name in ('DroppedOnClose', 'NoLostCall', 'SettledState', 'NoSpecActionMatches') \
            and (ev.get('ev') in ('q', 'evt', 'frame')):
        return 'close:not-everything-dropped'
    if name.startswith('AddOnlyOnRise'):
        return 'AddUser:neither-rise-nor-due-retry'
    if name.startswith('RemoveOnlyOnFall'):
        return 'RemoveUser:not-a-fall'
    if name == 'RetryHappens':
        return 'retry:no-further-attempt-after-failed-attempt'
    if name == 'RetryAfterDocumentedDelay':
        return 'retry:not-after-documented-delay'
    if name in ('NoLostCall', 'ServerMirrorsWant') and ev.get('ev') == 'q':
        # which call was lost, and where did it land?
        idx = trace.index(ev) if ev in trace else len(trace)
        calls = [(i, e) for i, e in enumerate(trace[:idx]) if e['ev'] == 'call']
        if calls:
            i, c = calls[-1]
            prev = trace[i - 1] if i > 0 else {}
            if c['op'] == 'add' and prev.get('ev') == 'evt' and prev.get('st') == 'untracked' and prev.get('u') == c['u']:
                return 'track_user:lost-between-worker-return-and-done-callback'
            combo = ':flag-combination' if len(c['f']) > 1 else ''
            return f"{'track_user' if c['op'] == 'add' else 'untrack_user'}{combo}:call-lost"
    return f'{name}:{ev.get("ev", "?")}'


def _fingerprint(tid, info, trace):
    return f'C15:{_classify(info, trace)}'


def _concretise(rng):
    return dict(users=('u1', 'u2'), flagperm=FLAG_PERMS[rng.randrange(len(FLAG_PERMS))],
                via_cycle=bool(rng.randrange(3) == 0), how=CLOSE_HOWS[rng.randrange(len(CLOSE_HOWS))])


def _apply_how(sched, how):
    """close mode 'any' (left open by the model) is fixed by the concretisation"""
    return tuple((s[0], how, s[2]) if (s[0] == 'close' and s[1] == 'any') else s for s in sched)


def run_schedule(sched, conc):
    sched = _apply_how(sched, conc.get('how', 'eof'))
    return execute(list(sched), users=conc.get('users', ('u1', 'u2')), flagperm=tuple(conc.get('flagperm', ('R', 'F', 'T'))),
                   via_cycle=bool(conc.get('via_cycle')))


def collect(chk: Check, thorough: bool):
    """schedules: dict schedule -> source label"""
    scheds: dict = {}
    # (1) the exhaustive 1-user model is checked; the state graph for the edge cover is dumped with one
    # worker (deterministic order): from the same model in the thorough tier, from its 3-call version in quick
    if thorough:
        cover_cfg = 'MC_quick.cfg'
    else:
        cover_cfg = 'MC_cover.cfg'
        r = tlc.model_check(SPEC, 'MC_quick.cfg', expect_actions=ALL_ACTIONS, timeout=1500)
        chk.add_model('UserTracking 1 user, 2 reasons (all 3 flag arguments), 4 calls (exhaustive)', r)
    g, res = tlc.dump_graph(SPEC, cover_cfg, parse_states=False, coverage=True, workers=1, timeout=1500)
    chk.add_model(f'UserTracking 1 user, 2 reasons, {cover_cfg} (exhaustive, graph dumped)', res)
    missing = [a for a in ALL_ACTIONS if res.coverage.get(a, (0, 0))[1] == 0]
    if missing:
        raise MachineryFailure(f'vacuity: actions never taken in {cover_cfg}: {missing}')
    paths = tlc.path_cover(g)
    cover = {}
    for p in paths:
        s = schedule_of([e[1] for e in p])
        if s:
            cover.setdefault(s, 'cover')
    chk.cov['graph_edges'] = len(g.edges)
    chk.cov['cover_paths'] = len(paths)
    chk.cov['cover_schedules'] = len(cover)
    keys = sorted(cover, key=repr)
    cap = 8000 if thorough else 1200
    if cap is not None and len(keys) > cap:
        # every schedule with an event / timer placement or a failing write first, a seeded sample of the rest
        special = [k for k in keys if any(isinstance(x[-1], tuple) or x[0] == 'failframe' for x in k)]
        rest = [k for k in keys if k not in set(special)]
        chk.rng.shuffle(special)
        chk.rng.shuffle(rest)
        special = special[:cap // 2]
        keys = special + rest[:cap - len(special)]
        chk.cov['cover_schedules_replayed'] = len(keys)
    for k in keys:
        scheds[k] = 'cover'
    chk.log(f'graph: {len(g.states)} states, {len(g.edges)} edges, {len(paths)} cover paths, '
            f'{len(cover)} distinct schedules, {len(keys)} replayed')
    # (2) random behaviours of the 2-user model
    num = 2000 if thorough else 250
    behs, sres = tlc.simulate_behaviours(SPEC, 'MC_sim2.cfg', num=num, depth=60 if thorough else 45, seed=chk.seed + 1,
                                         timeout=1500)
    if any(i.kind in ('invariant', 'action_property') for i in sres.issues):
        raise MachineryFailure(f'2-user simulation found a design-model violation: {[(i.kind, i.name) for i in sres.issues]}')
    n2 = 0
    for b in behs:
        s = schedule_of([lab for lab, _ in b[1:]])
        if s and s not in scheds:
            scheds[s] = 'sim2'
            n2 += 1
    chk.cov['sim_behaviours_2users'] = len(behs)
    chk.log(f'simulation: {len(behs)} behaviours of the 2-user model, {n2} new schedules')
    # (3) placement sweeps
    for s in directed_schedules():
        scheds.setdefault(tuple(s), 'sweep')
    return scheds


def run(chk: Check, args):
    thorough = chk.tier == 'thorough'
    chk.cov['rule'] = ('schedule = sequence of stimuli (track/untrack call with flag, server answer per AddUser attempt, '
                       'clock advance, connection loss, failing write) each with a placement in the loop schedule '
                       '(drained loop / k iterations after the previous stimulus / from a task or coroutine listener of a '
                       'UserTrackingStateChangedEvent / in the iteration in which the retry timer elapses); taken from '
                       'the edge cover of the 1-user TLC state graph, simulated 2-user behaviours, counterexamples of the '
                       'design model with each deviation switch in the code position, placement variants and sweeps; '
                       'each is executed on the real Network+UserManager(+TransferManager) against a scripted server in '
                       'virtual time with seeded flag permutation / close mode / transfer-cycle concretisation and judged '
                       'by TLC with UserTrackingTrace; distinct = distinct (schedule, concretisation); non-trivial = the '
                       'trace contains a call')
    # ---- design model -------------------------------------------------------------
    rl = tlc.run_tlc(SPEC, 'MC_live.cfg', timeout=1500)
    chk.add_model('UserTracking liveness (1 user, 3 calls, fair)', rl)
    if thorough:
        for cfg, label in (('MC_u1.cfg', '1 user, 3 reasons (5 flag arguments), 4 calls'), ('MC_u2.cfg', '2 users, 2 reasons (2 flag arguments), 4 calls'),
                           ('MC_anyorder.cfg', '1 user, any ready handle may run')):
            chk.add_model(f'UserTracking {label} (exhaustive)', tlc.model_check(SPEC, cfg, timeout=3000))

    # the design with each switch in the code's position must break a property; the counterexample is
    # replayed on the real code below (a repaired tree passes it, the pinned one does not)
    cex = {}
    for sw, props in SWITCHES.items():
        rs = tlc.run_tlc(SPEC, f'MC_code_{sw}.cfg', workers=1, timeout=900)
        hit = [i for i in rs.issues if i.kind in ('invariant', 'action_property')]
        ok = bool(hit) and any(i.name in props for i in hit)
        chk.cov['binding_selftest'][f'model_with_{sw}_off_violates'] = hit[0].name if hit else 'nothing'
        if not ok:
            raise MachineryFailure(f'design model with {sw}=FALSE did not violate any of {props}: '
                                   f'{[(i.kind, i.name) for i in rs.issues]}')
        s = schedule_of([lab for lab, _ in hit[0].trace[1:]])
        cex[s] = f'cex:{sw}'

    scheds = collect(chk, thorough)
    for s, src in cex.items():
        scheds[s] = src
    # placement variants
    base = sorted(scheds, key=repr)
    nv = 0
    for s in base:
        src = scheds[s]
        lim = 16 if src.startswith('cex') else (3 if thorough else 1)
        if src in ('cover', 'sim2') and not any(not isinstance(x[-1], str) and x[0] in ('call', 'reply', 'close')
                                                 and x[-1] != 0 for x in s) and not thorough:
            # quick tier: variants only for schedules with an event/timer placement
            continue
        for v in variants_of(s, chk.rng, limit=lim, shifts=tuple(range(1, 9)) if src.startswith('cex') else (1, 2, 3)):
            if v not in scheds:
                scheds[v] = 'variant:' + src
                nv += 1
    chk.log(f'{nv} placement variants; {len(scheds)} schedules in total')

    # canonical reproductions first (they are the ones diagnosed in detail when rejected)
    order = {'cex': 0, 'sweep': 1, 'variant': 2}
    keys = sorted(scheds, key=lambda k: (order.get(scheds[k].split(':')[0], 3), repr(k)))
    traces, metas = [], []
    reps = 2 if thorough else 1
    for i, s in enumerate(keys):
        for rep in range(reps):
            conc = _concretise(chk.rng)
            if rep == 0 and scheds[s].startswith(('cex', 'sweep')):
                conc.update(flagperm=FLAG_PERMS[0], via_cycle=False)
            ev = run_schedule(s, conc)
            traces.append(ev)
            metas.append(dict(schedule=[list(x) if not isinstance(x, list) else x for x in s], conc=conc,
                              source=scheds[s]))
            chk.count((s, tuple(sorted((k, str(v)) for k, v in conc.items()))),
                      nontrivial=any(e['ev'] == 'call' for e in ev))
    chk.log(f'replayed {len(traces)} schedules on the real code')
    for i in (0, len(traces) // 3, 2 * len(traces) // 3, len(traces) - 1):
        chk.sample(dict(meta=metas[i], trace=traces[i]))

    v = tlc.validate_traces(TRACE, 'Trace.cfg', traces, diag_cfg='TraceDiag.cfg', timeout=2400, max_diag=12)
    chk.apply_verdicts(v, traces, _fingerprint, meta_of=lambda tid: metas[tid - 1])
    chk.log(f'trace validation: {len(v.accepted)} accepted, {len(v.rejected)} rejected')
    chk.cov['sources'] = {}
    for m in metas:
        k = m['source'].split(':')[0]
        chk.cov['sources'][k] = chk.cov['sources'].get(k, 0) + 1

    _binding_selftest(chk, traces, v)
    chk.cov['exhaustive'] = False
    chk.assumptions += [
        'retry delays 10 s (send error / no answer) and 600 s (unknown user) are pinned from '
        'user/manager.py RETRY_TIMEOUT_* (USAGE.rst does not state them)',
        'RetryHappens (bounded time): an unanswered AddUser counts as failed after at most 60 s (the code waits 10 s; '
        'the wait itself is not documented), slack 1 s',
        'server behaviours per attempt: confirm exists / not-exists promptly, silence, failing write, disconnect; '
        'late or unsolicited AddUser responses are not part of the quantifier (the scripted server answers within '
        '5 s of the request or not at all)',
        'no track/untrack calls are issued once the connection is being closed (the reference is reset by the close)',
        'a retry sent while an untrack that empties the set is queued but not yet processed is accepted '
        '(worker order = call order)',
        'frames are observed where the client writes them to the simulated connection',
        'the connection idle read timeout is disabled in the rig (no pings are simulated)',
    ]


def _corruptions(tr):
    """yield (name, corrupted copy) for one accepted trace"""
    idx = {k: [i for i, e in enumerate(tr) if e['ev'] == k] for k in ('frame', 'q', 'evt', 'reply', 'closed')}
    if idx['frame']:
        bad = copy.deepcopy(tr)
        del bad[idx['frame'][0]]
        yield 'frame-dropped', bad
        bad = copy.deepcopy(tr)
        bad.insert(idx['frame'][0], copy.deepcopy(tr[idx['frame'][0]]))
        yield 'frame-duplicated', bad
    settled_q = [i for i in idx['q'] if i > 0 and any(e['ev'] == 'call' for e in tr[:i])]
    if settled_q:
        i = settled_q[-1]
        bad = copy.deepcopy(tr)
        bad[i]['flags']['u1'] = ['R'] if bad[i]['flags']['u1'] != ['R'] else ['F']
        yield 'final-flags-changed', bad
        bad = copy.deepcopy(tr)
        bad[i]['st']['u1'] = 'tracked' if bad[i]['st']['u1'] != 'tracked' else 'untracked'
        yield 'final-state-changed', bad
    if idx['closed']:
        bad = copy.deepcopy(tr)
        bad[idx['q'][-1]]['ntasks'] = 1
        yield 'task-left-after-close', bad
    # an AddUser sent exactly one documented delay after the failure report of the same user = a retry
    for i in idx['frame']:
        if tr[i]['k'] != 'add':
            continue
        prev = [e for e in tr[:i] if e.get('u') == tr[i]['u'] and e['ev'] in ('evt', 'frame', 'call', 'reply')]
        if prev and prev[-1]['ev'] == 'evt' and prev[-1]['st'] == 'retry_pending' and \
                tr[i]['t'] - prev[-1]['t'] in (10000, 600000) and not any(e['ev'] == 'close' for e in tr[:i]):
            bad = copy.deepcopy(tr)
            bad[i]['t'] += 5000
            yield 'retry-5s-late', bad
            break


def _corrupt_retries_stop(tr):
    """from the first retry on nothing more happens for that user: its frames, answers and events are
    removed and it stays in retry_pending - what a lost retry timer looks like"""
    if any(e['ev'] in ('close', 'closed') for e in tr):
        return None
    for i, e in enumerate(tr):
        if e['ev'] != 'frame' or e['k'] != 'add':
            continue
        prev = [x for x in tr[:i] if x.get('u') == e['u'] and x['ev'] in ('evt', 'frame', 'call', 'reply')]
        if not (prev and prev[-1]['ev'] == 'evt' and prev[-1]['st'] == 'retry_pending'):
            continue
        u = e['u']
        if any(x['ev'] == 'call' and x['u'] == u for x in tr[i:]):
            return None
        bad = []
        for j, x in enumerate(copy.deepcopy(tr)):
            if j >= i and x.get('u') == u and x['ev'] in ('frame', 'reply', 'evt'):
                continue
            if j >= i and x['ev'] == 'q':
                x['st'][u] = 'retry_pending'
            bad.append(x)
        return bad
    return None


def _binding_selftest(chk, traces, v):
    cor, names = [], []
    per = {}
    for tid in sorted(v.accepted):
        extra = _corrupt_retries_stop(traces[tid - 1])
        for name, bad in list(_corruptions(traces[tid - 1])) + ([('retries-stop', extra)] if extra else []):
            if per.get(name, 0) >= 4:
                continue
            per[name] = per.get(name, 0) + 1
            cor.append(bad)
            names.append(name)
        if len(per) >= 7 and all(n >= 4 for n in per.values()):
            break
    if not cor:
        chk.cov['binding_selftest']['corrupted_traces_rejected'] = 'no accepted trace to corrupt'
        return
    cv = tlc.validate_traces(TRACE, 'Trace.cfg', cor, max_diag=0, timeout=900)
    missed = [names[t - 1] for t in cv.accepted]
    res = {}
    for i, n in enumerate(names):
        a, b = res.get(n, (0, 0))
        res[n] = (a + (1 if (i + 1) in cv.rejected else 0), b + 1)
    chk.cov['binding_selftest']['corrupted_traces_rejected'] = {n: f'{a}/{b}' for n, (a, b) in res.items()}
    if missed:
        raise MachineryFailure(f'corrupted traces were accepted by the trace spec: {sorted(set(missed))}')


def replay(chk, data):
    """./check C15 --replay <file>: re-execute the recorded schedule with its concretisation on the
    tree under test and let TLC judge the new trace."""
    meta = (data.get('replay') or {}).get('meta') or {}
    if not meta.get('schedule'):
        raise MachineryFailure('replay file has no schedule')

    def tup(x):
        return tuple(tup(y) for y in x) if isinstance(x, list) else x
    sched = tup(meta['schedule'])
    conc = meta.get('conc', {})
    ev = run_schedule(sched, conc)
    chk.count((sched, repr(conc)), nontrivial=True)
    chk.sample(dict(meta=meta, trace=ev))
    v = tlc.validate_traces(TRACE, 'Trace.cfg', [ev], diag_cfg='TraceDiag.cfg', timeout=600)
    chk.apply_verdicts(v, [ev], _fingerprint, meta_of=lambda tid: meta)
    chk.log(f'replay: {"accepted" if v.accepted else "rejected"}')

"""C01 - wire codec: every message survives encode -> wire -> decode, byte-compatibly (spec: Codec).

Style: transcribed function + TLC-evaluated cases + differential binding (DESIGN.md section 4, C01).

  pass 1 (design level, MC_Codec):  TLC evaluates the model-level theorems (value in domain,
          Parse(Ser(x)) = x, framing, obfuscation round trip, hand-written anchors) on every case and
          prints the prescribed bytes of every case.
  replay:  the real aioslsk codec is run on every case: serialize(), the parsers (class method, the
          family dispatcher, DataConnection.decode_message_data plain and obfuscated) are fed the
          *prescribed* bytes; everything observed is recorded as a trace.
  pass 2 (CodecTrace):  TLC judges every recorded observation against Codec (ByteCompat, DecodeEqual,
          ObfCompat, FramesIntact, NoException).  The verdict comes from this pass only.

Besides the enumerated message values and obfuscation vectors there are two kinds of big cases:
  giant   a compressed message whose inflated body is 16..66 MiB (K copies of one element in one array
          field): the pieces of the body, its length and the decoded fields are judged (truncation!);
  conn    two or three messages, one above 128 KiB, sent concurrently through a real connection whose
          peer is slow to read: the bytes written must be whole frames in some order, and a second real
          connection must decode exactly the messages sent.
"""
from __future__ import annotations

import copy
import json
import os
import re
import shutil
import tempfile
import zlib

from .. import tlc
from .. import lib_codec as L
from ..core import Check, MachineryFailure

MC = 'Codec/MC_Codec.tla'
TRACE = 'Codec/CodecTrace.tla'
WORKERS = int(os.environ.get('VERIF_TLC_WORKERS', '8'))
ANCHORS = os.path.join(os.path.dirname(L.LAYOUT_FILE), 'anchors.json')
BATCH = 6000          # cases per TLC start (pass 1 and pass 2)
JENV = {'JAVA_TOOL_OPTIONS': '-Xss64m'}      # deep (not infinite) recursion over long arrays

_OUT = re.compile(r'<<\s*"([POG])",\s*(\d+),\s*"(\[[\d,\s\[\]]*\])"\s*>>')


# ---------------------------------------------------------------------------
# case generation (from the pin)
# ---------------------------------------------------------------------------

def _key(rng, i=None):
    bound = [[0, 0, 0, 0], [255, 255, 255, 255], [1, 0, 0, 128], [128, 0, 0, 1], [0, 0, 0, 128], [1, 0, 0, 0],
             [255, 255, 255, 127], [85, 170, 85, 170], [20, 148, 238, 74], [0x78, 0x56, 0x34, 0x12]]
    if i is not None and i < len(bound):
        return bound[i]
    return [rng.getrandbits(8) for _ in range(4)]


def build_cases(chk: Check, pin: dict, per_class: int, keys_per_len: int):
    rng = chk.rng
    gen = L.Gen(pin, rng)
    cases = []
    seen = set()
    for q in pin['messages']:
        variants = gen.variants(q)
        n = max(per_class, 2 * len(variants))
        nbound = max(len(variants), int(n * 0.55))
        for i in range(n):
            var = variants[i % len(variants)]
            k = (i // len(variants)) if i < nbound else None
            v = gen.message(q, var, k)
            dk = (q, json.dumps(v, sort_keys=True))
            if dk in seen:              # classes with a small domain (no fields, one boolean, ...)
                continue
            seen.add(dk)
            cases.append(dict(kind='msg', cls=q, v=v, key=_key(rng, i if i < 10 else None)))
    # sizes that reach the upper bytes of a length prefix / an element count
    def text(n):
        return [97 + (i * 7) % 26 for i in range(n)]
    u32 = lambda n: L.limbs(n, 2)
    stress = [
        ('RoomChatMessage.Request', dict(room=text(5), message=text(65536 + 44))),
        ('PrivilegedUsers.Response', dict(users=[text(1 + i % 3) for i in range(300)])),
        ('PeerUserInfoReply.Request', dict(description=text(300), has_picture=True,
                                           picture=[(i * 31) % 256 for i in range(66000)], upload_slots=u32(3),
                                           queue_size=u32(0), has_slots_free=True, upload_permissions=u32(1))),
        ('PeerSearchReply.Request', dict(username=text(8), ticket=u32(0xFFFFFFFF),
                                         results=[dict(unknown=[1], filename=text(20 + i % 5), filesize=L.limbs(i << 33, 4),
                                                       extension=text(3), attributes=[dict(key=u32(0), value=u32(320)),
                                                                                      dict(key=u32(1), value=u32(i))])
                                                  for i in range(260)],
                                         has_slots_free=True, avg_speed=u32(1 << 31), queue_size=u32(0), unknown=u32(0))),
    ]
    for q, v in stress:
        if q in pin['messages']:
            cases.append(dict(kind='msg', cls=q, v=v, key=_key(rng)))
    # obfuscation vectors: every payload length 0..140 (the key cycle is 128 bytes) x keys
    for n in list(range(0, 141)) + [255, 256, 257, 511, 1000]:
        for j in range(keys_per_len):
            ki = (n + j) % 10 if j < 2 else None
            data = [rng.getrandbits(8) for _ in range(n)] if j != 1 else [0] * n
            cases.append(dict(kind='obf', key=_key(rng, ki), data=data))
    rng.shuffle(cases)          # every batch sees every kind of case
    return cases


# ---------------------------------------------------------------------------
# pass 1
# ---------------------------------------------------------------------------

def prescribe(chk: Check, cases: list, tmp: str, chunk: int = 8000, label: str = '') -> dict:
    """Run MC_Codec over the cases; return {case index (0-based): prescribed bytes}."""
    out = {}
    for base in range(0, len(cases), chunk):
        part = cases[base:base + chunk]
        f = os.path.join(tmp, f'cases{base}.json')
        with open(f, 'w') as fh:
            json.dump(part, fh)
        # no -coverage here (it slows evaluation down 2-3x): vacuity is excluded below by
        # "2 states per case" (every case took its one Eval step) and "every case has its output"
        res = tlc.run_tlc(MC, 'MC_cases.cfg', env={'CASE_FILE': f, **JENV}, workers=WORKERS, timeout=1500)
        if not res.ok:
            det = []
            for iss in res.issues[:3]:
                cid = iss.trace[-1][1].get('cid') if iss.trace else None
                c = part[cid - 1] if isinstance(cid, int) and 0 < cid <= len(part) else None
                det.append(f'{iss.kind}:{iss.name} case={json.dumps(c)[:400] if c else iss.message[:400]}')
            raise MachineryFailure('model-level theorem fails on an enumerated case (spec or generator is wrong): '
                                   + ' | '.join(det))
        chk.add_model(f'Codec theorems over {len(part)} cases {label}', res, exhaustive=False)
        if res.distinct_states != 2 * len(part):
            raise MachineryFailure(f'MC_Codec evaluated {res.distinct_states} states for {len(part)} cases')
        joined = ' '.join(res.prints)
        for m in _OUT.finditer(joined):
            out[base + int(m.group(2)) - 1] = json.loads(m.group(3))
    want = [i for i, c in enumerate(cases) if c['kind'] in ('msg', 'obf', 'giant')]
    missing = [i for i in want if i not in out]
    if missing:
        raise MachineryFailure(f'{len(missing)} prescribed byte strings missing from TLC output (first: case {missing[0]})')
    return out


# ---------------------------------------------------------------------------
# running the real code
# ---------------------------------------------------------------------------

class Real:
    """Entry points of the implementation, resolved once."""

    def __init__(self, pin):
        import secrets
        from aioslsk.protocol import messages as M
        from aioslsk.protocol import obfuscation
        from aioslsk.network import connection as C
        self.pin = pin
        self.M = M
        self.obf = obfuscation
        self.C = C
        self.secrets = secrets
        self._conns = {}

    def conn(self, family: str, obfuscated: bool):
        key = (family, obfuscated)
        if key not in self._conns:
            C = self.C
            if family == 'server':
                c = C.ServerConnection('server.sim', 2416, None, obfuscated=obfuscated)
            else:
                ctype = C.PeerConnectionType.DISTRIBUTED if family == 'distributed' else C.PeerConnectionType.PEER
                c = C.PeerConnection('1.2.3.4', 1234, None, obfuscated=obfuscated, connection_type=ctype)
                c.connection_state = (C.PeerConnectionState.AWAITING_INIT if family == 'peerinit'
                                      else C.PeerConnectionState.ESTABLISHED)
            self._conns[key] = c
        return self._conns[key]


def _exc(ev, exc, **kw):
    return dict(ev=ev, ok=False, exc=f'{type(exc).__name__}: {str(exc)[:120]}', **kw)


def _wire_event(ev, m, data):
    """Observation of bytes produced by the code; for compressed classes also inflate(payload)."""
    if not isinstance(data, (bytes, bytearray)):
        return dict(ev=ev, ok=False, exc=f'not bytes: {type(data).__name__}')
    rec = dict(ev=ev, ok=True, bytes=list(data), zok=True, inflated=[])
    if m['compressed']:
        try:
            rec['inflated'] = list(zlib.decompress(bytes(data[4 + m['code_width']:])))
        except zlib.error:
            rec['zok'] = False
    return rec


def _value_event(via, q, real_cls, m, pin, got):
    name = q if type(got) is real_cls else f'{type(got).__module__}.{type(got).__qualname__}'
    try:
        a = L.record_to_abstract(m['fields'], got, pin)
    except L.ShapeError as exc:
        return dict(ev='deser', via=via, ok=False, exc=f'result not of the pinned shape: {exc}'[:200], cls=name)
    _consume(got)
    return dict(ev='deser', via=via, ok=True, cls=name, v=a)


def _consume(obj, depth=0):
    """What an application may do with a decoded message once it owns it: change the lists it was
    handed in place.  A decoder that shares mutable objects between results (a cached empty list,
    a reused buffer) then shows up in the NEXT decoded value."""
    import dataclasses
    if depth > 4 or obj is None:
        return
    if isinstance(obj, list):
        for x in obj[:4]:
            _consume(x, depth + 1)
        obj.append('<appended by the consumer of an earlier message>')
        return
    if dataclasses.is_dataclass(obj) and not isinstance(obj, type):
        for f in dataclasses.fields(obj):
            try:
                _consume(getattr(obj, f.name), depth + 1)
            except Exception:
                pass


class _OutOfDomain:
    """A field value outside every wire type: any use by a serialiser raises."""

    def __getattr__(self, name):
        raise TypeError('out-of-domain value')

    def __len__(self):
        raise TypeError('out-of-domain value')

    def __iter__(self):
        raise TypeError('out-of-domain value')


_POISON_COUNT = [0]


def _poison(cls, q, case, pin):
    _POISON_COUNT[0] += 1
    if _POISON_COUNT[0] % 2:
        return
    try:
        kw = L.message_kwargs(q, case['v'], pin)
    except Exception:
        return
    keys = list(kw)
    for key in ([keys[-1]] if keys else []) + ([keys[len(keys) // 2]] if len(keys) > 2 else []):
        for bad in (_OutOfDomain(), '\ud800 lone surrogate', 1 << 70):
            bad_kw = dict(kw)
            bad_kw[key] = bad
            try:
                cls(**bad_kw).serialize()
            except BaseException:  # noqa - whatever happens is ignored
                pass


def observe_message(real: Real, case: dict, prescribed: list) -> list:
    pin = real.pin
    q = case['cls']
    m = pin['messages'][q]
    trace = [dict(ev='case', cls=q, v=case['v'])]
    cls = L.find_class(q)
    if cls is None:
        trace.append(dict(ev='missing', ok=False, exc='pinned message class not defined by the code'))
        return trace
    # what the parsers are fed: the prescribed frame; for a compressed class the prescribed inner
    # body, deflated and framed by the harness (TLC re-validates it: event `fed`)
    if m['compressed']:
        z = zlib.compress(bytes(prescribed))
        fed = (m['code_width'] + len(z)).to_bytes(4, 'little') + m['code'].to_bytes(m['code_width'], 'little') + z
        trace.append(dict(ev='fed', bytes=list(fed), zok=True, inflated=list(zlib.decompress(z))))
    else:
        fed = bytes(prescribed)
        trace.append(dict(ev='fed', bytes=list(fed), zok=True, inflated=[]))

    # history before the case: the codec must not carry state from one message to the next, also not
    # from a serialisation that failed half-way (an out-of-domain value further down the field list).
    # These attempts are environment, not observations: whatever they do is ignored.
    _poison(cls, q, case, pin)
    # encode
    msg = None
    try:
        msg = cls(**L.message_kwargs(q, case['v'], pin))
        trace.append(_wire_event('ser', m, msg.serialize()))
    except Exception as exc:
        trace.append(_exc('ser', exc))
    # encode into a buffer that already holds something (serialize_into is the append-style API):
    # nothing, a few foreign bytes, or a previous frame (a batch)
    if msg is not None:
        prefix = (b'', bytes(case['key']), bytes(case['key'][:1]) * 9, fed)[(case['key'][0] + case['key'][3]) % 4]
        try:
            buf = bytearray(prefix)
            if m['compressed']:
                msg.serialize_into(buf, compress=True)
            else:
                msg.serialize_into(buf)
            ev = _wire_event('into', m, bytes(buf[len(prefix):]))     # (inflates the appended part of a compressed class)
            if ev.get('ok'):
                ev['bytes'] = list(buf)
                ev['prefix'] = list(prefix)
            trace.append(ev)
        except Exception as exc:
            trace.append(_exc('into', exc))
    # decode: class method, family dispatcher
    try:
        trace.append(_value_event('class', q, cls, m, pin, cls.deserialize(0, fed)))
    except Exception as exc:
        trace.append(_exc('deser', exc, via='class'))
    base, dirs = L.FAMILIES[m['family']]
    try:
        disp = getattr(getattr(real.M, base), dirs[m['direction']])
        trace.append(_value_event('dispatch', q, cls, m, pin, disp(fed)))
    except Exception as exc:
        trace.append(_exc('deser', exc, via='dispatch'))
    # through the connection objects
    can_decode = not (m['family'] == 'server' and m['direction'] == 'Request')
    plain = real.conn(m['family'], False)
    if msg is not None:
        try:
            trace.append(_wire_event('enc', m, plain.encode_message_data(msg)))
        except Exception as exc:
            trace.append(_exc('enc', exc))
    if can_decode:
        try:
            trace.append(_value_event('conn', q, cls, m, pin, plain.decode_message_data(fed)))
        except Exception as exc:
            trace.append(_exc('deser', exc, via='conn'))
    obf = real.conn(m['family'], True)
    if msg is not None:
        sent = None
        try:
            sent = obf.encode_message_data(msg)
            if not isinstance(sent, (bytes, bytearray)):
                raise TypeError(f'not bytes: {type(sent).__name__}')
            trace.append(dict(ev='encobf', ok=True, bytes=list(sent)))
        except Exception as exc:
            trace.append(_exc('encobf', exc))
        if can_decode and sent is not None:
            try:
                trace.append(_value_event('conn_obf', q, cls, m, pin, obf.decode_message_data(bytes(sent))))
            except Exception as exc:
                trace.append(_exc('deser', exc, via='conn_obf'))
    return trace


def observe_obf(real: Real, case: dict, prescribed: list) -> list:
    trace = [dict(ev='obfcase', key=case['key'], data=case['data'])]
    trace.append(dict(ev='obffed', bytes=list(prescribed)))
    try:
        out = real.obf.encode(bytes(case['data']), key=bytes(case['key']))
        if not isinstance(out, (bytes, bytearray)):
            raise TypeError(f'not bytes: {type(out).__name__}')
        trace.append(dict(ev='obfenc', ok=True, bytes=list(out)))
    except Exception as exc:
        trace.append(_exc('obfenc', exc))
    try:
        out = real.obf.decode(bytes(prescribed))
        if not isinstance(out, (bytes, bytearray)):
            raise TypeError(f'not bytes: {type(out).__name__}')
        trace.append(dict(ev='obfdec', ok=True, bytes=list(out)))
    except Exception as exc:
        trace.append(_exc('obfdec', exc))
    return trace


# ---------------------------------------------------------------------------
# giant compressed payloads ("all payload lengths"): inflated bodies of tens of MiB
# ---------------------------------------------------------------------------
# The value is K copies of one element in one array field (Codec!RepPieces).  TLC prescribes and
# judges the *pieces* (pre, count, unit, post), the total length and the decoded fields; that the
# 17..70 MiB byte string really is pre + count + K x unit + post (`periodic`), that all K decoded
# elements are equal (`alleq`) and zlib inflation are computed by the harness - stated in the evidence.

MIB = 1 << 20


def _text(n, salt=0):
    return [97 + ((i + salt) * 7) % 26 for i in range(n)]


def _file_abs(fn, i=0):
    return dict(unknown=[1], filename=_text(fn, i), filesize=L.limbs(0x100000000 + 7 * i, 4), extension=_text(3, i),
                attributes=[dict(key=L.limbs(0, 2), value=L.limbs(320, 2)), dict(key=L.limbs(1, 2), value=L.limbs(200 + i, 2))])


def _dir_abs(u):
    """An abstract DirectoryData whose wire form is exactly u bytes (u >= 120)."""
    for nf in (4, 3, 2, 1):
        for fn in range(2000, 20, -1):
            ln = u - 8 - nf * (40 + fn)
            if 1 <= ln <= 3000:
                return dict(name=_text(ln, 3), files=[_file_abs(fn, i) for i in range(nf)])
    raise ValueError(u)


def _boundary_unit(total, lo=300, hi=12000):
    """(u, K) with K * u = total and lo <= u <= hi."""
    for u in range(hi, lo - 1, -1):
        if total % u == 0:
            return u, total // u
    raise ValueError(total)


def giant_cases(thorough: bool) -> list:
    u32 = lambda n: L.limbs(n, 2)
    small_dir = _dir_abs(160)
    out = []
    for lim in [16 * MIB] + ([32 * MIB] if thorough else []):
        # PeerSharesReply: count(4) + K*u + unknown(4) = lim exactly, then the trailing optional field
        u, k = _boundary_unit(lim - 8)
        out.append(dict(kind='giant', cls='PeerSharesReply.Request', rep='directories', elem=_dir_abs(u), K=k,
                        rest=dict(unknown=u32(0), locked_directories=[small_dir]),
                        note=f'body crosses {lim >> 20} MiB exactly in front of the trailing optional field'))
    for lim in [16 * MIB] + ([64 * MIB] if thorough else []):
        # PeerSearchReply: username(4+n) + ticket(4) + count(4) + K*2048 + 1 + 4 + 4 + 4 = lim exactly
        n = (lim - 25) % 2048
        out.append(dict(kind='giant', cls='PeerSearchReply.Request', rep='results', elem=_file_abs(2008),
                        K=(lim - 25 - n) // 2048,
                        rest=dict(username=_text(n), ticket=u32(3), has_slots_free=True, avg_speed=u32(1), queue_size=u32(0),
                                  unknown=u32(0), locked_results=[_file_abs(25, 1), _file_abs(26, 2)]),
                        note=f'body crosses {lim >> 20} MiB exactly in front of the trailing optional field'))
    over = 17 * MIB + 12345
    out.append(dict(kind='giant', cls='PeerSharesReply.Request', rep='directories', elem=_dir_abs(8000), K=over // 8000,
                    rest=dict(unknown=u32(0)), note='17 MiB body, optional absent'))
    out.append(dict(kind='giant', cls='PeerSearchReply.Request', rep='results', elem=_file_abs(2008), K=over // 2048,
                    rest=dict(username=_text(9), ticket=u32(0xFFFFFFFE), has_slots_free=True, avg_speed=u32(1000),
                              queue_size=u32(5), unknown=u32(0), locked_results=[_file_abs(30, 5)]),
                    note='17 MiB body, locked results present'))
    out.append(dict(kind='giant', cls='PeerDirectoryContentsReply.Request', rep='directories', elem=_dir_abs(6000),
                    K=over // 6000, rest=dict(ticket=u32(77), directory=_text(40)), note='17 MiB body'))
    if thorough:
        out.append(dict(kind='giant', cls='PeerSearchReply.Request', rep='locked_results', elem=_file_abs(2008),
                        K=(66 * MIB) // 2048,
                        rest=dict(username=_text(9), ticket=u32(1), results=[_file_abs(20, 2)], has_slots_free=False,
                                  avg_speed=u32(0), queue_size=u32(0), unknown=u32(0)),
                        note='66 MiB body in the trailing optional field'))
    return out


def _summary(data: bytes, pieces, k: int) -> dict:
    pre, unit, post = (bytes(x) for x in pieces)
    lp, u = len(pre), len(unit)
    end = lp + 4 + k * u
    got_pre, cnt, got_unit, got_post = data[:lp], data[lp:lp + 4], data[lp + 4:lp + 4 + u], data[end:end + len(post) + 16]
    periodic = len(data) == end + len(got_post) and data == got_pre + cnt + got_unit * k + got_post
    return dict(len=len(data), pre=list(got_pre), cnt=list(cnt), unit=list(got_unit), post=list(got_post),
                periodic=bool(periodic))


def _giant_wire_event(ev, m, data, pieces, k):
    if not isinstance(data, (bytes, bytearray)):
        return dict(ev=ev, ok=False, exc=f'not bytes: {type(data).__name__}')
    rec = dict(ev=ev, ok=True, bytes=list(data), zok=True,
               sum=dict(len=0, pre=[], cnt=[], unit=[], post=[], periodic=False))
    try:
        rec['sum'] = _summary(zlib.decompress(bytes(data[4 + m['code_width']:])), pieces, k)
    except zlib.error:
        rec['zok'] = False
    return rec


def _giant_value_event(via, q, real_cls, m, pin, case, got):
    name = q if type(got) is real_cls else f'{type(got).__module__}.{type(got).__qualname__}'
    rep = case['rep']
    f_rep = next(f for f in m['fields'] if f['name'] == rep)
    try:
        lst = getattr(got, rep)
        if not isinstance(lst, (list, tuple)):
            raise L.ShapeError(f'{rep}: {type(lst).__name__}')
        first = L.to_abstract(f_rep['subtype'], 'none', lst[0], pin) if len(lst) else {}
        alleq = bool(len(lst)) and all(x == lst[0] for x in lst)
        rest = L.record_to_abstract([f for f in m['fields'] if f['name'] != rep], got, pin)
    except (L.ShapeError, AttributeError) as exc:
        return dict(ev='gdeser', via=via, ok=False, exc=f'result not of the pinned shape: {exc}'[:200], cls=name)
    n = len(lst)
    _consume(got)
    return dict(ev='gdeser', via=via, ok=True, cls=name, n=n, alleq=alleq, first=first, rest=rest)


def observe_giant(real: Real, case: dict, pieces: list, thorough: bool) -> list:
    pin = real.pin
    q, k = case['cls'], case['K']
    m = pin['messages'][q]
    trace = [dict(ev='gcase', cls=q, rest=case['rest'], rep=case['rep'], elem=case['elem'], K=k)]
    cls = L.find_class(q)
    if cls is None:
        trace.append(dict(ev='missing', ok=False, exc='pinned message class not defined by the code'))
        return trace
    pre, unit, post = (bytes(x) for x in pieces)
    z = zlib.compress(pre + k.to_bytes(4, 'little') + unit * k + post, 1)
    fed = (m['code_width'] + len(z)).to_bytes(4, 'little') + m['code'].to_bytes(m['code_width'], 'little') + z
    ev = _giant_wire_event('gfed', m, fed, pieces, k)
    ev.pop('ok')
    trace.append(ev)
    msg = None
    try:
        kw = L.message_kwargs(q, case['rest'], pin)
        f_rep = next(f for f in m['fields'] if f['name'] == case['rep'])
        kw[case['rep']] = [L.to_real(f_rep['subtype'], 'none', case['elem'], pin)] * k
        msg = cls(**kw)
        trace.append(_giant_wire_event('gser', m, msg.serialize(), pieces, k))
    except Exception as exc:
        trace.append(_exc('gser', exc))
    routes = [('class', lambda: cls.deserialize(0, fed)),
              ('conn', lambda: real.conn(m['family'], False).decode_message_data(fed))]
    if thorough:
        base, dirs = L.FAMILIES[m['family']]
        routes.insert(1, ('dispatch', lambda: getattr(getattr(real.M, base), dirs[m['direction']])(fed)))
    for via, fn in routes:
        try:
            trace.append(_giant_value_event(via, q, cls, m, pin, case, fn()))
        except Exception as exc:
            trace.append(_exc('gdeser', exc, via=via))
    if thorough and msg is not None:
        obf = real.conn(m['family'], True)
        try:
            trace.append(_giant_wire_event('genc', m, real.conn(m['family'], False).encode_message_data(msg), pieces, k))
        except Exception as exc:
            trace.append(_exc('genc', exc))
        sent = None
        try:
            sent = obf.encode_message_data(msg)
            if not isinstance(sent, (bytes, bytearray)):
                raise TypeError(f'not bytes: {type(sent).__name__}')
            trace.append(dict(ev='encobf', ok=True, bytes=list(sent)))
        except Exception as exc:
            trace.append(_exc('encobf', exc))
        if sent is not None:
            try:
                trace.append(_giant_value_event('conn_obf', q, cls, m, pin, case, obf.decode_message_data(bytes(sent))))
            except Exception as exc:
                trace.append(_exc('gdeser', exc, via='conn_obf'))
    return trace


# ---------------------------------------------------------------------------
# connection level: messages sent concurrently over one connection, peer slow to read
# ---------------------------------------------------------------------------

class _GateWriter:
    """The writer end of a simulated TCP connection with flow control as asyncio implements it:
    drain() returns at once while the amount not yet taken by the peer is at most `high_water`,
    otherwise it waits (any number of callers, woken in order) until the peer has read."""

    def __init__(self, loop, high_water: int):
        self.loop = loop
        self.high_water = high_water
        self.stream = bytearray()
        self.buffered = 0
        self.write_calls = 0
        self.waiters: list = []
        self._closing = False

    def write(self, data):
        data = bytes(data)
        if self._closing:
            return
        self.stream += data
        self.buffered += len(data)
        self.write_calls += 1

    def writelines(self, lines):
        for line in lines:
            self.write(line)

    async def drain(self):
        if self.buffered > self.high_water and not self._closing:
            fut = self.loop.create_future()
            self.waiters.append(fut)
            await fut

    def peer_reads(self):
        self.buffered = 0
        ws, self.waiters = self.waiters, []
        for w in ws:
            if not w.done():
                w.set_result(None)

    def close(self):
        self._closing = True
        self.peer_reads()

    def is_closing(self):
        return self._closing

    async def wait_closed(self):
        import asyncio
        await asyncio.sleep(0)

    def get_extra_info(self, name, default=None):
        return ('127.0.0.1', 40000) if name in ('peername', 'sockname') else default

    def can_write_eof(self):
        return False

    @property
    def transport(self):
        return self


def conn_cases(thorough: bool) -> list:
    u32 = lambda n: L.limbs(n, 2)

    def userinfo(n):
        return dict(cls='PeerUserInfoReply.Request',
                    v=dict(description=_text(12), has_picture=True, picture=[(i * 31 + 7) % 256 for i in range(n)],
                           upload_slots=u32(3), queue_size=u32(7), has_slots_free=True, upload_permissions=u32(1)))
    q1 = dict(cls='PeerTransferQueue.Request', v=dict(filename=_text(30)))
    q2 = dict(cls='PeerPlaceInQueueRequest.Request', v=dict(filename=_text(17, 4)))
    chat = lambda n: dict(cls='RoomChatMessage.Request', v=dict(room=_text(6), message=_text(n, 2)))
    status = dict(cls='SetStatus.Request', v=dict(status=u32(2)))
    dsearch = lambda n: dict(cls='DistributedSearchRequest.Request',
                             v=dict(unknown=u32(0x31), username=_text(8), ticket=u32(99), query=_text(n, 1)))
    dlevel = dict(cls='DistributedBranchLevel.Request', v=dict(level=u32(3)))
    big = 128 * 1024 + 200          # just above the 128 KiB at which a sender might start to cut
    out = [
        dict(family='peer', obf=False, mode='gather', hw=65536, msgs=[userinfo(big), q1]),
        dict(family='peer', obf=True, mode='gather', hw=65536, msgs=[q1, userinfo(big), q2]),
        dict(family='peer', obf=False, mode='queue', hw=0, msgs=[q2, userinfo(big), q1]),
        dict(family='server', obf=False, mode='gather', hw=65536, msgs=[chat(big), status]),
    ]
    if thorough:
        for n in (70 * 1024, 300 * 1024, 513 * 1024):
            out.append(dict(family='peer', obf=False, mode='gather', hw=65536, msgs=[userinfo(n), q1, q2]))
            out.append(dict(family='peer', obf=True, mode='queue', hw=0, msgs=[q1, userinfo(n), q2]))
        out += [
            dict(family='peer', obf=False, mode='tasks', hw=16384, msgs=[userinfo(big), userinfo(70 * 1024), q1]),
            dict(family='server', obf=False, mode='queue', hw=0, msgs=[status, chat(300 * 1024), status]),
            dict(family='distributed', obf=False, mode='gather', hw=65536, msgs=[dsearch(big), dlevel]),
        ]
    for i, c in enumerate(out):
        c['kind'] = 'conn'
        c['key'] = [(17 * i + 3) % 256, 200, 1, 128]
    return out


def observe_conn(real: Real, case: dict) -> list:
    """Send the messages of the case concurrently through one real connection whose peer is slow to
    read; record everything the connection wrote, then let a second real connection read it back."""
    import asyncio
    from unittest.mock import AsyncMock, Mock
    from .. import vloop
    pin = real.pin
    trace = [dict(ev='conncase', obf=case['obf'], msgs=case['msgs'], family=case['family'], mode=case['mode'],
                  hw=case['hw'])]
    classes = [L.find_class(mm['cls']) for mm in case['msgs']]
    if any(c is None for c in classes):
        trace.append(dict(ev='missing', ok=False, exc='pinned message class not defined by the code'))
        return trace

    def network():
        nw = Mock()
        nw.on_state_changed = AsyncMock()
        nw.on_peer_accepted = AsyncMock()
        nw.on_message_received = AsyncMock()
        return nw

    def make_conn():
        C = real.C
        if case['family'] == 'server':
            return C.ServerConnection('server.sim', 2416, network(), obfuscated=case['obf'])
        ctype = C.PeerConnectionType.DISTRIBUTED if case['family'] == 'distributed' else C.PeerConnectionType.PEER
        c = C.PeerConnection('1.2.3.4', 1234, network(), obfuscated=case['obf'], connection_type=ctype)
        c.connection_state = C.PeerConnectionState.ESTABLISHED
        return c

    async def main(loop):
        ends = []

        async def open_connection(host=None, port=None, **kw):
            await asyncio.sleep(0)
            end = (asyncio.StreamReader(limit=2 ** 27), _GateWriter(loop, case['hw']))
            ends.append(end)
            return end

        orig = asyncio.open_connection
        asyncio.open_connection = open_connection
        try:
            msgs = [cls(**L.message_kwargs(mm['cls'], mm['v'], pin)) for cls, mm in zip(classes, case['msgs'])]
            sender = make_conn()
            await sender.connect()
            writer = ends[0][1]
            if case['mode'] == 'gather':          # Network.send_peer_messages / send_server_messages
                tasks = [asyncio.ensure_future(asyncio.gather(*[sender.send_message(x) for x in msgs],
                                                              return_exceptions=True))]
            elif case['mode'] == 'queue':         # DataConnection.queue_messages
                tasks = list(sender.queue_messages(*msgs))
            else:
                tasks = [asyncio.ensure_future(sender.send_message(x)) for x in msgs]
            for _ in range(20000):
                await vloop.settle(loop)
                if all(t.done() for t in tasks):
                    break
                if writer.waiters:
                    writer.peer_reads()           # the slow peer finally takes what is buffered
                else:
                    await asyncio.sleep(0.01)     # (virtual time) a sender that paces itself with timers
            else:
                trace.append(dict(ev='send', ok=False, exc='a send never completed'))
            for t in tasks:
                if t.done() and not t.cancelled():
                    res = [t.exception()] if t.exception() is not None else \
                        (t.result() if isinstance(t.result(), list) else [])
                    for r in res:
                        if isinstance(r, BaseException):
                            trace.append(_exc('send', r))
            stream = bytes(writer.stream)
            trace.append(dict(ev='stream', ok=True, bytes=list(stream), write_calls=writer.write_calls))
            # the receiving side: a second real connection reads the stream back
            if not (case['family'] == 'server'):
                receiver = make_conn()
                await receiver.connect()
                reader = ends[1][0]
                reader.feed_data(stream)
                reader.feed_eof()
                for _ in msgs:
                    try:
                        got = await receiver.receive_message_object()
                    except Exception as exc:
                        trace.append(_exc('recv', exc))
                        break
                    if got is None:
                        trace.append(dict(ev='recv', ok=False, exc='end of stream before every message was received'))
                        break
                    q = next((mm['cls'] for cls, mm in zip(classes, case['msgs']) if type(got) is cls), None)
                    if q is None:
                        trace.append(dict(ev='recv', ok=False, exc=f'unexpected class {type(got).__qualname__}'))
                        break
                    try:
                        a = L.record_to_abstract(pin['messages'][q]['fields'], got, pin)
                    except L.ShapeError as exc:
                        trace.append(dict(ev='recv', ok=False, exc=f'result not of the pinned shape: {exc}'[:200]))
                        break
                    trace.append(dict(ev='recv', ok=True, cls=q, v=a))
                else:
                    trace.append(dict(ev='recvdone'))
        finally:
            asyncio.open_connection = orig

    vloop.run(main)
    return trace


# ---------------------------------------------------------------------------
# histories of ONE message object: sent, changed, sent again (messages are mutable dataclasses)
# ---------------------------------------------------------------------------

HIST_CLASSES = ['DistributedSearchRequest.Request', 'PrivateChatMessageUsers.Request', 'PeerTransferRequest.Request',
                'FileSearch.Request', 'PeerInit.Request', 'PeerSearchReply.Request', 'ConnectToPeer.Request',
                'PeerUserInfoReply.Request', 'SetListenPort.Request', 'DistributedBranchLevel.Request',
                'ExecuteCommand.Request', 'PeerDirectoryContentsReply.Request']


def hist_cases(pin: dict, rng, thorough: bool) -> list:
    """Each case: a class and the successive abstract values of one object.  Step i is sent over
    connection conns[i] ('p' plain / 'o' obfuscated, index = which connection object); fresh[i] says
    that a different object of equal value is sent instead."""
    gen = L.Gen(pin, rng)
    out = []
    classes = [q for q in HIST_CLASSES if q in pin['messages']]
    if not thorough:
        classes = classes[:7]
    schedules = [['p1', 'p1', 'p1', 'p1', 'p1'], ['o1', 'o1', 'o1', 'o1', 'o1'], ['p1', 'o2', 'p1', 'p2', 'o2'],
                 ['p1', 'p2', 'p2', 'p1', 'p1']]
    for ci, q in enumerate(classes):
        m = pin['messages'][q]
        for rep in range(3 if thorough else 1):
            variants = gen.variants(q)
            var = variants[-1]                      # every optional present: more to change
            v0 = gen.message(q, var, None)
            steps = [v0]
            for _ in range(60):
                if len(steps) >= 4:
                    break
                prev = steps[-1]
                cand = json.loads(json.dumps(prev))
                names = [f['name'] for f in m['fields'] if f['name'] in cand and f['cond'] == 'none'
                         and not any(g['on'] == f['name'] for g in m['fields'])]
                if not names:
                    break
                name = rng.choice(names)
                f = next(f for f in m['fields'] if f['name'] == name)
                if f['type'] == 'array' and rng.random() < 0.7:
                    cand[name] = cand[name] + [gen.value(f['subtype'], 'none', None, 1)]        # append in place
                else:
                    cand[name] = gen.value(f['type'], f['subtype'], None)
                if all(json.dumps(cand, sort_keys=True) != json.dumps(x, sort_keys=True) for x in steps):
                    steps.append(cand)
            if len(steps) < 2:
                continue
            steps = steps + [steps[-1], steps[0]]      # an equal value again (other object), then back to the first
            sched = list(schedules[(ci + rep) % len(schedules)])
            if m['compressed']:
                sched = [c.replace('o', 'p') for c in sched]
            sched = (sched * 2)[:len(steps)]
            fresh = [False] * len(steps)
            fresh[len(steps) - 2] = True
            out.append(dict(kind='hist', cls=q, steps=steps, conns=sched, fresh=fresh,
                            how='send' if (ci + rep) % 2 == 0 else 'encode', key=[1, 2, 3, 4]))
    return out


def _mutate(obj, m, old: dict, new: dict, pin: dict):
    """Bring the real message object from abstract value `old` to `new` the way application code
    would: assign attributes; lists that only grew are appended to in place."""
    for f in m['fields']:
        name = f['name']
        a, b = old.get(name), new.get(name)
        if a == b:
            continue
        if f['type'] == 'array' and a is not None and b is not None and b[:len(a)] == a and len(b) > len(a):
            lst = getattr(obj, name)
            for x in b[len(a):]:
                lst.append(L.to_real(f['subtype'], 'none', x, pin))
        else:
            setattr(obj, name, None if b is None else L.to_real(f['type'], f['subtype'], b, pin))


def observe_hist(real: Real, case: dict) -> list:
    import asyncio
    from unittest.mock import AsyncMock, Mock
    from .. import vloop
    pin = real.pin
    q = case['cls']
    m = pin['messages'][q]
    trace = [dict(ev='histcase', cls=q, conns=case['conns'], fresh=case['fresh'], how=case['how'], steps=case['steps'])]
    cls = L.find_class(q)
    if cls is None:
        trace.append(dict(ev='missing', ok=False, exc='pinned message class not defined by the code'))
        return trace
    can_decode = not (m['family'] == 'server' and m['direction'] == 'Request')

    def network():
        nw = Mock()
        nw.on_state_changed = AsyncMock()
        nw.on_peer_accepted = AsyncMock()
        nw.on_message_received = AsyncMock()
        return nw

    def make_conn(obf):
        C = real.C
        if m['family'] == 'server':
            return C.ServerConnection('server.sim', 2416, network(), obfuscated=obf)
        ctype = C.PeerConnectionType.DISTRIBUTED if m['family'] == 'distributed' else C.PeerConnectionType.PEER
        c = C.PeerConnection('1.2.3.4', 1234, network(), obfuscated=obf, connection_type=ctype)
        c.connection_state = (C.PeerConnectionState.AWAITING_INIT if m['family'] == 'peerinit'
                              else C.PeerConnectionState.ESTABLISHED)
        return c

    async def main(loop):
        writers = []

        async def open_connection(host=None, port=None, **kw):
            await asyncio.sleep(0)
            end = (asyncio.StreamReader(limit=2 ** 27), _GateWriter(loop, 1 << 40))
            writers.append(end[1])
            return end

        orig = asyncio.open_connection
        asyncio.open_connection = open_connection
        try:
            conns = {}
            for name in sorted(set(case['conns'])):
                c = make_conn(name[0] == 'o')
                await c.connect()
                conns[name] = (c, writers[-1])
            receivers = {True: make_conn(True), False: make_conn(False)}
            obj = cls(**L.message_kwargs(q, case['steps'][0], pin))
            cur = case['steps'][0]
            for i, v in enumerate(case['steps']):
                if v != cur:
                    try:
                        _mutate(obj, m, cur, v, pin)
                    except Exception as exc:          # the harness could not change the object: not an observation
                        raise MachineryFailure(f'cannot mutate {q}: {exc!r}')
                    cur = v
                sent_obj = cls(**L.message_kwargs(q, v, pin)) if case['fresh'][i] else obj
                conn, writer = conns[case['conns'][i]]
                obf = case['conns'][i][0] == 'o'
                try:
                    if case['how'] == 'encode':
                        data = conn.encode_message_data(sent_obj)
                    else:
                        before = len(writer.stream)
                        await conn.send_message(sent_obj)
                        data = bytes(writer.stream[before:])
                except Exception as exc:
                    trace.append(_exc('hsend', exc))
                    break
                ev = _wire_event('hsend', m, data) if not obf else (
                    dict(ev='hsend', ok=True, bytes=list(data), zok=True, inflated=[]) if isinstance(data, (bytes, bytearray))
                    else dict(ev='hsend', ok=False, exc=f'not bytes: {type(data).__name__}'))
                ev['obf'] = obf
                ev['v'] = v
                ev['conn'] = case['conns'][i]
                trace.append(ev)
                if can_decode and ev.get('ok'):
                    try:
                        got = receivers[obf].decode_message_data(bytes(data))
                        name = q if type(got) is cls else f'{type(got).__module__}.{type(got).__qualname__}'
                        a = L.record_to_abstract(m['fields'], got, pin)
                        trace.append(dict(ev='hrecv', ok=True, cls=name, v=v, got=a))
                    except L.ShapeError as exc:
                        trace.append(dict(ev='hrecv', ok=False, exc=f'result not of the pinned shape: {exc}'[:200]))
                    except Exception as exc:
                        trace.append(_exc('hrecv', exc))
        finally:
            asyncio.open_connection = orig

    vloop.run(main)
    return trace


# ---------------------------------------------------------------------------

def _fingerprint(tid, info, trace):
    ev = info.get('event') or {}
    first = trace[0]
    if first.get('ev') == 'conncase':
        subject = f"connection:{first.get('family')}:{'obfuscated' if first.get('obf') else 'plain'}:{first.get('mode')}"
    elif first.get('ev') == 'gcase':
        subject = f"{first.get('cls')}:giant"
    elif first.get('ev') == 'histcase':
        subject = f"{first.get('cls')}:object-sent-again"
    else:
        subject = first.get('cls', 'obfuscation')
    what = ev.get('ev', '?') + (f":{ev['via']}" if 'via' in ev else '')
    if info.get('kind') == 'property':
        return f"C01:{info.get('name')}:{what}:{subject}"
    return f"C01:unexplained:{what}:{subject}"


def _shorten(o, n=48):
    if isinstance(o, dict):
        return {k: _shorten(v, n) for k, v in o.items()}
    if isinstance(o, list):
        return [_shorten(x, n) for x in o[:n]] + (['...'] if len(o) > n else [])
    return o


def _trace_key(tr):
    return json.dumps(tr[0], sort_keys=True)


def run(chk: Check, args):
    thorough = chk.tier == 'thorough'
    per_class = 400 if thorough else 25
    keys_per_len = 24 if thorough else 3
    chk.cov['rule'] = ('case = (pinned message class, abstract value) or (obfuscation key, payload); values come from '
                       'per-type boundary sets and a seeded generator, covering every conditional branch and every '
                       'prefix of the optional tail of each class; TLC (MC_Codec) evaluates the theorems on each case and '
                       'prescribes its bytes; the real codec is run on each case and TLC (CodecTrace) judges every '
                       'observation; distinct = distinct cases; non-trivial = every case (each has >= 1 byte comparison)')
    pin = L.load_pin()
    tmp = tempfile.mkdtemp(prefix='c01-')
    chk.selftest_requested = bool(getattr(args, 'selftest', False))
    try:
        # deterministic obfuscation keys inside DataConnection.encode_message_data
        import secrets
        krng = __import__('random').Random(chk.seed + 17)
        orig_token_bytes = secrets.token_bytes
        secrets.token_bytes = lambda n=32: bytes(krng.getrandbits(8) for _ in range(n))
        try:
            _run(chk, pin, tmp, per_class, keys_per_len, thorough, getattr(args, 'replay_case', None))
        finally:
            secrets.token_bytes = orig_token_bytes
    finally:
        shutil.rmtree(tmp, ignore_errors=True)


def _run(chk: Check, pin: dict, tmp: str, per_class: int, keys_per_len: int, thorough: bool, replay_case=None):
    # ---- design level -------------------------------------------------------------------
    anchors = []
    if replay_case is None:
        r = tlc.model_check(MC, 'MC_self.cfg', expect_actions=['EvalPrim', 'EvalArr', 'EvalObf', 'EvalDoc'],
                            workers=WORKERS, timeout=900, env=JENV)
        chk.add_model('Codec primitives at boundaries + obfuscation lengths 0..140 x boundary keys + documented example '
                      '(exhaustive over the spec-defined domain)', r)
        with open(ANCHORS) as fh:
            anchors = json.load(fh)
    if replay_case is None:
        # the few big cases first: they are part of the first batch (and of its self-test)
        cases = (giant_cases(thorough) + conn_cases(thorough)
                 + hist_cases(pin, __import__('random').Random(chk.seed + 31), thorough)
                 + build_cases(chk, pin, per_class, keys_per_len))
    else:
        cases = [replay_case]
    nmsg = sum(1 for c in cases if c['kind'] == 'msg')
    nk = {k: sum(1 for c in cases if c['kind'] == k) for k in ('obf', 'giant', 'conn', 'hist')}
    chk.log(f'{len(cases)} cases ({nmsg} message values over {len(pin["messages"])} classes, {nk["obf"]} obfuscation '
            f'vectors, {nk["giant"]} giant compressed payloads, {nk["conn"]} concurrent-send scenarios, '
            f'{nk["hist"]} send-change-send histories), '
            f'{len(anchors)} hand-written anchors')
    chk.cov['giant_payload_cases'] = [f"{c['cls']}: {c.get('note', '')} (K={c['K']})" for c in cases if c['kind'] == 'giant']
    chk.cov['connection_scenarios'] = [
        f"{c['family']} {'obfuscated' if c['obf'] else 'plain'} {c['mode']} high-water {c['hw']}: " +
        ' + '.join(f"{mm['cls']}" for mm in c['msgs']) for c in cases if c['kind'] == 'conn']
    chk.cov['anchors_checked_by_tlc'] = len(anchors)
    chk.cov['message_shapes_covered'] = len({(c['cls'], tuple(sorted(c['v']))) for c in cases if c['kind'] == 'msg'})
    chk.cov['classes_covered'] = len({c['cls'] for c in cases if c['kind'] == 'msg'})
    chk.cov['cases_evaluated_by_tlc'] = len(cases)
    real = Real(pin)
    drift = L.metadata_drift(pin)
    chk.cov['metadata_drift_vs_pin'] = drift[:40]
    if drift:
        chk.log(f'note: the code\'s field metadata differs from the pin in {len(drift)} place(s) (diagnostic only): '
                + '; '.join(drift[:3]))
    chk.cov['byte_and_value_comparisons'] = 0
    rejected_subjects = set()
    nacc = nrej = 0
    # the first batch holds the big cases; it is kept small so that TLC's heap is not the limit
    nspecial = sum(1 for c in cases if c['kind'] in ('giant', 'conn'))
    first = min(len(cases), nspecial + 1500) if len(cases) > BATCH else len(cases)
    bounds = [(0, first)] + [(b, min(b + BATCH, len(cases))) for b in range(first, len(cases), BATCH)]
    for base, stop in bounds:
        batch = cases[base:stop]
        extra = [{k: v for k, v in a.items() if k != 'src'} for a in anchors] if base == 0 else []
        # ---- pass 1: theorems + prescribed bytes ----------------------------------------------
        prescribed = prescribe(chk, batch + extra, tmp, label=f'(batch at {base}' + (f', incl. {len(extra)} anchors)' if extra else ')'))
        # ---- the real code ---------------------------------------------------------------------
        traces = []
        for i, c in enumerate(batch):
            if c['kind'] == 'msg':
                tr = observe_message(real, c, prescribed[i])
            elif c['kind'] == 'obf':
                tr = observe_obf(real, c, prescribed[i])
            elif c['kind'] == 'giant':
                tr = observe_giant(real, c, prescribed[i], thorough)
            elif c['kind'] == 'hist':
                tr = observe_hist(real, c)
            else:
                tr = observe_conn(real, c)
            traces.append(tr)
            chk.count(_trace_key(tr))
        chk.cov['byte_and_value_comparisons'] += sum(1 for tr in traces for e in tr[1:] if e['ev'] not in ('fed', 'obffed', 'gfed', 'histcase'))
        if base == 0:
            for i in (0, len(traces) // 3, len(traces) // 2, len(traces) - 1, min(8, len(traces) - 1)):
                chk.sample([_shorten(e) for e in traces[i][:4]])
        # ---- pass 2: TLC judges ------------------------------------------------------------------
        v = tlc.validate_traces(TRACE, 'Trace.cfg', traces, diag_cfg='TraceDiag.cfg', workers=WORKERS, timeout=1500,
                                env=JENV, chunk=BATCH, max_diag=5 if nrej == 0 else 1)
        for tid, info in v.rejected.items():
            if info.get('name') == 'FedValid':
                raise MachineryFailure(f'harness fed bytes that are not a wire form of case {base + tid - 1}: {str(info)[:600]}')
        chk.apply_verdicts(v, traces, _fingerprint, meta_of=lambda tid, base=base: dict(case_index=base + tid - 1))
        nacc += len(v.accepted)
        nrej += len(v.rejected)
        rejected_subjects |= {traces[t - 1][0].get('cls', traces[t - 1][0].get('ev')) for t in v.rejected}
        chk.log(f'cases [{base}..{base + len(batch)}): {len(v.accepted)} accepted, {len(v.rejected)} rejected by TLC')
        if replay_case is not None:
            for e in traces[0]:
                chk.log('replay: ' + json.dumps(e)[:400])
        elif base == 0:
            # binding self-test: corrupt recorded fields -> must be rejected
            chk.cov['binding_selftest'] = selftest(chk, traces, v)
    if replay_case is None and (thorough or getattr(chk, 'selftest_requested', False)):
        st = inprocess_selftest(chk, pin, tmp)
        if st.pop('unpatched_rerun_rejected'):
            # the unpatched code is judged by the main run; here it only shows that the patches were undone
            st['note'] = 'unpatched rerun had rejections (see the main run)'
        chk.cov['binding_selftest'].update(st)
    chk.log(f'trace validation: {nacc} accepted, {nrej} rejected; {chk.cov["byte_and_value_comparisons"]} observations judged')
    if rejected_subjects:
        rs = sorted(rejected_subjects)
        chk.cov['rejected_subjects'] = rs[:80]
        chk.log(f'rejected cases concern: {", ".join(rs[:12])}{" ..." if len(rs) > 12 else ""}')

    chk.assumptions += [
        'the pinned layout specs/Codec/layout.json (generated once from the unchanged tree, cross-checked against '
        'docs/source/deprecated/MESSAGES.rst and 151 hand-written byte strings of tests/unit/protocol) is the oracle '
        'for field order/types/codes; Codec.tla is the oracle for the encoding of each type, the frame and obfuscation',
        'zlib is an uninterpreted bijection: for the 3 compressed messages the frame header and inflate(payload) are judged',
        'text enters the specification as UTF-8 bytes (the Unicode codec is trusted); strings are valid Unicode',
        'an absent optional field with a pinned default (PrivateChatMessage.Response.is_direct, JoinRoom.Request.'
        'is_private) reads back as that default',
        'in-domain = condition false => field absent, condition true => field present, optionals present as a prefix '
        'of the optional tail (anything else is not representable on the wire)',
        'obfuscation keys drawn inside encode_message_data come from secrets.token_bytes, replaced by a seeded generator',
        'giant compressed payloads (inflated body 16..66 MiB): the value is K copies of one element in one array field; '
        'TLC prescribes and judges the pieces (prefix, count, one unit, suffix), the total length, the number of decoded '
        'elements, the first decoded element and every other field; that the inflated byte string equals prefix + count '
        '+ K x unit + suffix and that all K decoded elements are equal is computed by the harness (bytes / == comparison), '
        'not shipped through TLC',
        'connection level: the peer is modelled by asyncio flow control (drain() waits, for any number of callers, while '
        'more than the high-water mark is unread; the slow peer reads whenever the loop is quiescent); the messages are '
        'sent with asyncio.gather(send_message...), queue_messages and one task per message, as the library does',
    ]


def selftest(chk: Check, traces: list, v) -> dict:
    """Corrupt one recorded field in a few accepted traces; every corrupted trace must be rejected."""
    rng = __import__('random').Random(chk.seed + 5)
    accepted = [t for t in sorted(v.accepted)]
    rng.shuffle(accepted)
    bad, kinds = [], []

    def pick(pred, n):
        got = 0
        for tid in accepted:
            tr = traces[tid - 1]
            for i, e in enumerate(tr):
                if pred(tr, e):
                    yield tid, i
                    got += 1
                    break
            if got >= n:
                return

    def flip(lst, rng):
        lst = list(lst)
        j = rng.randrange(len(lst))
        lst[j] = (lst[j] + 1 + rng.randrange(255)) % 256
        return lst

    # (a) one byte of the real serializer's output
    for tid, i in pick(lambda tr, e: e['ev'] == 'ser' and e.get('ok') and e['bytes'] and not e['inflated'], 4):
        tr = copy.deepcopy(traces[tid - 1]); tr[i]['bytes'] = flip(tr[i]['bytes'], rng); bad.append(tr); kinds.append('ser-byte')
    # (b) the length prefix of a compressed frame / its inflated body
    for tid, i in pick(lambda tr, e: e['ev'] == 'ser' and e.get('ok') and e['inflated'], 2):
        tr = copy.deepcopy(traces[tid - 1]); tr[i]['inflated'] = flip(tr[i]['inflated'], rng); bad.append(tr); kinds.append('z-inner')
        tr = copy.deepcopy(traces[tid - 1]); tr[i]['bytes'][0] = (tr[i]['bytes'][0] + 1) % 256; bad.append(tr); kinds.append('z-length')
    # (c) a deserialized value: drop a field / change the reported class
    for tid, i in pick(lambda tr, e: e['ev'] == 'deser' and e.get('ok') and e['v'], 4):
        tr = copy.deepcopy(traces[tid - 1]); tr[i]['v'].pop(sorted(tr[i]['v'])[-1]); bad.append(tr); kinds.append('deser-field-dropped')
    for tid, i in pick(lambda tr, e: e['ev'] == 'deser' and e.get('ok') and e['via'] == 'dispatch', 2):
        tr = copy.deepcopy(traces[tid - 1]); tr[i]['cls'] = 'Ping.Request' if tr[i]['cls'] != 'Ping.Request' else 'Ping.Response'
        bad.append(tr); kinds.append('dispatch-class')
    # (d) obfuscated output, decoded payload
    for tid, i in pick(lambda tr, e: e['ev'] == 'encobf' and e.get('ok') and len(e['bytes']) > 8, 3):
        tr = copy.deepcopy(traces[tid - 1]); tr[i]['bytes'] = flip(tr[i]['bytes'], rng); bad.append(tr); kinds.append('encobf-byte')
    for tid, i in pick(lambda tr, e: e['ev'] == 'obfenc' and e.get('ok') and len(e['bytes']) > 4, 3):
        tr = copy.deepcopy(traces[tid - 1]); tr[i]['bytes'] = flip(tr[i]['bytes'], rng); bad.append(tr); kinds.append('obfenc-byte')
    for tid, i in pick(lambda tr, e: e['ev'] == 'obfdec' and e.get('ok') and len(e['bytes']) > 0, 3):
        tr = copy.deepcopy(traces[tid - 1]); tr[i]['bytes'] = flip(tr[i]['bytes'], rng); bad.append(tr); kinds.append('obfdec-byte')
    # (f) a frame cut in two by another frame on a connection; a message lost by the receiver
    for tid, i in pick(lambda tr, e: e['ev'] == 'stream' and e.get('ok') and len(e['bytes']) > 2000, 2):
        tr = copy.deepcopy(traces[tid - 1]); b = tr[i]['bytes']; tr[i]['bytes'] = b[:1000] + b[-40:] + b[1000:-40]
        bad.append(tr); kinds.append('stream-interleaved')
    for tid, i in pick(lambda tr, e: e['ev'] == 'recv' and e.get('ok'), 1):
        tr = copy.deepcopy(traces[tid - 1]); del tr[i]; bad.append(tr); kinds.append('recv-lost')
    # (g) giant payloads: a truncated decode, a wrong total length
    for tid, i in pick(lambda tr, e: e['ev'] == 'gdeser' and e.get('ok') and len(e['rest']) > 1, 2):
        tr = copy.deepcopy(traces[tid - 1]); tr[i]['rest'].pop(sorted(tr[i]['rest'])[0]); bad.append(tr); kinds.append('giant-field-lost')
        tr = copy.deepcopy(traces[tid - 1]); tr[i]['n'] -= 1; bad.append(tr); kinds.append('giant-element-lost')
    for tid, i in pick(lambda tr, e: e['ev'] == 'gser' and e.get('ok'), 1):
        tr = copy.deepcopy(traces[tid - 1]); tr[i]['sum']['len'] += 1; bad.append(tr); kinds.append('giant-length')
        tr = copy.deepcopy(traces[tid - 1]); tr[i]['sum']['periodic'] = False; bad.append(tr); kinds.append('giant-not-periodic')
    # (h) a re-send that wrote the bytes of the object's earlier value; a buffer whose old contents were touched
    for tid, _ in pick(lambda tr, e: e['ev'] == 'histcase', 3):
        tr = copy.deepcopy(traces[tid - 1])
        hs = [j for j, e in enumerate(tr) if e['ev'] == 'hsend' and e.get('ok') and not e['obf']]
        pair = next(((a, b) for a in hs for b in hs if a < b and tr[a]['bytes'] != tr[b]['bytes']), None)
        if pair:
            tr[pair[1]]['bytes'] = list(tr[pair[0]]['bytes']); tr[pair[1]]['inflated'] = list(tr[pair[0]]['inflated'])
            bad.append(tr); kinds.append('stale-resend')
    for tid, i in pick(lambda tr, e: e['ev'] == 'into' and e.get('ok') and len(e['prefix']) >= 4, 2):
        tr = copy.deepcopy(traces[tid - 1]); tr[i]['bytes'][0] = (tr[i]['bytes'][0] + 1) % 256; bad.append(tr); kinds.append('into-prefix-touched')
    # (e) an exception event
    for tid, i in pick(lambda tr, e: e['ev'] == 'ser' and e.get('ok'), 1):
        tr = copy.deepcopy(traces[tid - 1]); tr[i] = dict(ev='ser', ok=False, exc='struct.error'); bad.append(tr); kinds.append('exception')
    if not bad:
        raise MachineryFailure('binding self-test: no accepted trace to corrupt')
    cv = tlc.validate_traces(TRACE, 'Trace.cfg', bad, max_diag=0, workers=WORKERS, timeout=600, env=JENV)
    res = dict(corrupted_traces_rejected=f'{len(cv.rejected)}/{len(bad)}', kinds=sorted(set(kinds)))
    if len(cv.rejected) != len(bad):
        missed = [kinds[t - 1] for t in cv.accepted]
        raise MachineryFailure(f'binding self-test: corrupted traces were accepted by the trace spec: {missed}')
    chk.log(f'binding self-test: {res["corrupted_traces_rejected"]} corrupted traces rejected')
    return res


# ---------------------------------------------------------------------------
# in-process mutants (thorough tier / --selftest): the binding must reject each of them
# ---------------------------------------------------------------------------

def _inprocess_mutants():
    """(name, apply() -> undo()) pairs; monkey-patches inside this process only."""
    import struct
    from aioslsk.protocol import primitives as P, messages as M, obfuscation as O

    def swap(obj, attr, new):
        old = obj.__dict__[attr] if attr in getattr(obj, '__dict__', {}) else getattr(obj, attr)
        setattr(obj, attr, new)
        return lambda: setattr(obj, attr, old)

    def ip_into(self, buffer):
        import socket
        buffer.extend(socket.inet_aton(self))

    orig_rot = O.rotate_key
    orig_needs = P.ProtocolDataclass.__dict__['_field_needs_deserialization'].__func__

    def needs(cls, field, field_map, pos, message):
        if 'optional' in field.metadata and 'if_true' not in field.metadata and 'if_false' not in field.metadata:
            return pos + 4 < len(message)
        return orig_needs(cls, field, field_map, pos, message)

    return [
        ('uint32 packed as signed', lambda: swap(P.uint32, 'STRUCT', struct.Struct('<i'))),
        ('uint64 parsed big-endian', lambda: swap(P.uint64, 'deserialize', classmethod(
            lambda cls, pos, data: (pos + 8, struct.unpack_from('>Q', data, pos)[0])))),
        ('ip address not reversed', lambda: swap(P.ipaddr, 'serialize_into', ip_into)),
        ('key rotated by 2 bits', lambda: swap(O, 'rotate_key', lambda key, rot_bits=31: orig_rot(key, rot_bits - 1))),
        ('message code of SetStatus changed', lambda: swap(M.SetStatus.Request, 'MESSAGE_ID', P.uint32(0x1D))),
        ('optional read only if more than 4 bytes are left', lambda: swap(P.ProtocolDataclass, '_field_needs_deserialization',
                                                                classmethod(needs))),
    ]


def inprocess_selftest(chk: Check, pin: dict, tmp: str) -> dict:
    sub = Check(chk.pid, chk.tier, chk.seed + 99)
    cases = [c for c in build_cases(sub, pin, 6, 1) if len(json.dumps(c)) < 20000]
    res = tlc.run_tlc(MC, 'MC_cases.cfg', env={'CASE_FILE': _dump(cases, tmp, 'selfcases.json'), **JENV}, workers=WORKERS,
                      timeout=900)
    if not res.ok:
        raise MachineryFailure('in-process self-test: pass 1 failed')
    pres = {int(m.group(2)) - 1: json.loads(m.group(3)) for m in _OUT.finditer(' '.join(res.prints))}
    traces, owner = [], []
    names = []
    for name, apply in _inprocess_mutants():
        names.append(name)
        undo = apply()
        try:
            real = Real(pin)
            for i, c in enumerate(cases):
                tr = observe_message(real, c, pres[i]) if c['kind'] == 'msg' else observe_obf(real, c, pres[i])
                traces.append(tr)
                owner.append(name)
        finally:
            undo()
    v = tlc.validate_traces(TRACE, 'Trace.cfg', traces, max_diag=0, workers=WORKERS, timeout=1200, env=JENV,
                            chunk=len(traces))
    out = {}
    for name in names:
        out[name] = sum(1 for t in v.rejected if owner[t - 1] == name)
    missed = [n for n, k in out.items() if k == 0]
    if missed:
        raise MachineryFailure(f'in-process mutants not rejected by the binding: {missed}')
    # the same cases on the unpatched code must all be accepted again (patches were undone)
    real = Real(pin)
    clean = [observe_message(real, c, pres[i]) if c['kind'] == 'msg' else observe_obf(real, c, pres[i])
             for i, c in enumerate(cases)]
    cv = tlc.validate_traces(TRACE, 'Trace.cfg', clean, max_diag=0, workers=WORKERS, timeout=1200, env=JENV,
                             chunk=len(clean))
    chk.log(f'in-process mutants: rejected traces per mutant {out}; unpatched again: {len(cv.rejected)} rejected')
    return dict(inprocess_mutants_rejected_traces=out, unpatched_rerun_rejected=len(cv.rejected))


def _dump(obj, tmp, name):
    f = os.path.join(tmp, name)
    with open(f, 'w') as fh:
        json.dump(obj, fh)
    return f


def replay(chk: Check, data: dict):
    """./check C01 --replay FILE: re-run the case of a replay file on the current code and judge it."""
    first = data['replay']['trace'][0]
    if first['ev'] == 'case':
        case = dict(kind='msg', cls=first['cls'], v=first['v'], key=[1, 2, 3, 4])
    elif first['ev'] == 'gcase':
        case = dict(kind='giant', **{k: first[k] for k in ('cls', 'rest', 'rep', 'elem', 'K')})
    elif first['ev'] == 'histcase':
        case = dict(kind='hist', key=[1, 2, 3, 4], **{k: first[k] for k in ('cls', 'steps', 'conns', 'fresh', 'how')})
    elif first['ev'] == 'conncase':
        case = dict(kind='conn', key=[1, 2, 3, 4], **{k: first[k] for k in ('obf', 'msgs', 'family', 'mode', 'hw')})
    else:
        case = dict(kind='obf', key=first['key'], data=first['data'])

    class A:
        replay_case = case
        selftest = False
    run(chk, A)

"""C05 - upload slots, one per user, priority, eventual start (spec: UploadSlots).

A real SoulSeekClient (TransferManager, UserManager, SharesManager, Network) runs on the
in-memory network in virtual time.  The server and the downloading peers are scripted, so an
upload stays INITIALIZING / UPLOADING exactly as long as the behaviour says.  TLC behaviours of
the design spec (simulation of several configurations) and enumerated directed scenarios are
turned into stimuli; what the client does is recorded at the public surfaces named by the
property (Transfer state listeners, PeerTransferRequest frames leaving the uploader) and every
recorded execution is judged by TLC against UploadSlotsTrace.
"""
from __future__ import annotations

import asyncio
import copy
import itertools
import json
import os
import random
import re
import shutil
import struct
import tempfile

from .. import tlc, vloop
from ..core import Check, MachineryFailure
from ..simnet import SimNet
from ..simserver import ScriptedServer, ScriptedPeer, make_settings, make_client

SPEC = 'UploadSlots/UploadSlots.tla'
TRACE = 'UploadSlots/UploadSlotsTrace.tla'

PER_USER = 2                 # as in every cfg: upload u belongs to user (u-1)//2 + 1
MAX_USERS = 5                # Trace.cfg: uploads 1..10
BOUND = 2.0                  # seconds; Trace.cfg Bound (microseconds)
IDLE = BOUND + 0.2           # how long a scenario is left alone to observe a stall
FILE_SIZE = 20000            # > one 8192-byte chunk, so an upload can fail in the middle
CLIENT_PORT = 61000

STATUS_CODE = {'offline': 0, 'away': 1, 'online': 2}
STATUS_NAME = {-1: 'unknown', 0: 'offline', 1: 'away', 2: 'online'}

UNFINISHED = ('QUEUED', 'INITIALIZING', 'UPLOADING', 'PAUSED')


def owner(u: int) -> int:
    return (u - 1) // PER_USER + 1


def file_index(u: int) -> int:
    return (u - 1) % PER_USER


# ---------------------------------------------------------------------------
# behaviours -> driver operations
# ---------------------------------------------------------------------------

_LABEL = re.compile(r'^(\w+)(?:\((.*)\))?$')
_ENV = {'ERequest': 'req', 'ERequeue': 'req', 'EResume': 'resume', 'ENegotiated': 'neg', 'EComplete': 'complete',
        'EFail': 'fail', 'EBackToQueue': 'back', 'EAbort': 'abort', 'EPause': 'pause'}


def ops_of(labels):
    """Project a behaviour (sequence of TLC action labels) onto driver operations."""
    out = []
    for lab in labels:
        m = _LABEL.match(lab.strip())
        if not m:
            continue
        name, arg = m.group(1), (m.group(2) or '')
        args = [a.strip().strip('"') for a in arg.split(',')] if arg else []
        if name in _ENV:
            out.append((_ENV[name], int(args[0])))
        elif name == 'ESetSlots':
            out.append(('slots', int(args[0])))
        elif name == 'EStatus':
            out.append(('status', int(args[0]), args[1]))
        elif name == 'EFriend':
            out.append(('friend', int(args[0])))
        elif name == 'EPriv':
            out.append(('priv', int(args[0])))
        elif name == 'TimerStep':
            out.append(('tick',))
        elif name == 'PollStep':
            out.append(('wait', 1.05))           # the idle job's 1 s wait for a request times out
        elif name == 'TailEnd':
            out.append(('tailend', int(args[0])))
        elif name in ('Cycle', 'FirstStep', 'ETracked'):
            if not out or out[-1] != ('run',):
                out.append(('run',))
    while out and out[-1] == ('run',):
        out.pop()
    return tuple(out)


def init_of(state):
    """Initial limit and user attributes (status = the server's view) from the first state of a behaviour."""
    def seq(v):
        # TLC prints a function with domain 1..n as a tuple
        if isinstance(v, tuple):
            return {i + 1: x for i, x in enumerate(v)}
        return {int(k): x for k, x in v.items()}
    status, friend, priv = seq(state['truth']), seq(state['friend']), seq(state['priv'])
    users = tuple((o, str(status[o]), bool(friend[o]), bool(priv[o])) for o in sorted(status))
    return (int(state['slots']), users)


# ---------------------------------------------------------------------------
# the world: one real client, a scripted server, scripted peers
# ---------------------------------------------------------------------------

NAME_POOL = ['alice', 'bob', 'carol', 'dave', 'erin', 'Frank_7', 'grace hopper', 'heidi', 'ivan', 'judy',
             'mallory', 'niaj', 'olivia', 'peña', 'quentin', 'rupert', 'sybil', 'trent', 'uma', 'victor']


class Recorder:
    """Records at the public surfaces: state listeners, frames, the event bus, the settings."""

    def __init__(self, world):
        self.w = world
        self.events = []
        self.last_snap = None
        self.told = {}                    # user index -> last status the server told, before the init record

    def t(self):
        return int(round((self.w.loop.time() - self.w.t0) * 1e6))

    def snap(self):
        w = self.w
        users = []
        for o in range(1, w.nusers + 1):
            # public view; the object is a throw-away one unless the client keeps the user tracked
            users.append([w.names[o] in w.settings.users.friends,
                          bool(w.client.users.get_user_object(w.names[o]).privileged)])
        return dict(slots=int(w.settings.transfers.limits.upload_slots), users=users)

    def maybe_attr(self):
        if self.last_snap is None:        # before the init record nothing is recorded
            return
        s = self.snap()
        if s != self.last_snap:
            self.last_snap = s
            self.events.append(dict(ev='attr', t=self.t(), **copy.deepcopy(s)))

    def add(self, ev, **kw):
        if ev != 'init':
            if self.last_snap is None:
                return
            self.maybe_attr()
        else:
            self.last_snap = self.snap()
            kw['told'] = [self.told.get(o, 'unknown') for o in range(1, self.w.nusers + 1)]
        self.events.append(dict(ev=ev, t=self.t(), **copy.deepcopy(self.last_snap), **kw))

    def status_told(self, o, s):
        if self.last_snap is None:
            self.told[o] = s
        else:
            self.add('told', o=o, s=s)


class World:
    """Everything of one scenario."""

    def __init__(self, loop, share_dir, tmpdir, nusers, slots0, rng, users=()):
        self.loop = loop
        self.share_dir = share_dir
        self.tmpdir = tmpdir
        self.nusers = nusers
        self.slots0 = slots0
        self.rng = rng
        names = rng.sample(NAME_POOL, nusers)
        self.names = {o: names[o - 1] for o in range(1, nusers + 1)}
        self.index_of = {n: o for o, n in self.names.items()}
        self.rec = Recorder(self)
        self.transfers = {}           # u -> Transfer
        self.tickets = {}             # u -> last ticket seen in a PeerTransferRequest
        self.p_conn = {}              # o -> Endpoint of the peer (P) connection
        self.f_conn = {}              # u -> dict(ep, link, received)
        self.neg_mode = {}            # u -> 'up' | 'back'  what the peer does with the file connection
        self.api_tasks = []
        self.bg = []
        self.keep = []                # strong refs for event-bus listeners
        self.link_owner = {}          # link id -> user index, for links dialled by a scripted peer
        # the server's view of the users: status (None: no such user), privilege; whom the client has it watch
        self.truth = {o: None for o in self.names}
        self.priv_truth = {o: False for o in self.names}
        self.init_friends = set()
        for (o, st, f, p) in users:
            self.truth[o] = None if st == 'unknown' else st
            self.priv_truth[o] = bool(p)
            if f:
                self.init_friends.add(o)
        self.watched = set()          # names
        # a server never answers within the same loop iteration (the client registers its waiter after the send)
        self.reply_delay = rng.choice([0.005, 0.02])
        # work handed to the executor (stat, open, read of shared files) takes no time at all in the virtual loop;
        # in some scenarios it takes longer than one sleep of the management job
        self.exec_delay = rng.choice([0.0, 0.0, 0.0, 0.06])
        self.friends_by_assignment = rng.random() < 0.5
        self.refuse = {}              # o -> delay: connections to this peer fail (after the delay)
        self.slow_dial = {}           # o -> delay: the next connection to this peer takes that long

    # -- set up -------------------------------------------------------------
    async def start(self):
        from aioslsk.events import MessageReceivedEvent, TransferAddedEvent
        from aioslsk.protocol import messages as M
        self.M = M
        self.net = SimNet(self.loop).install()
        self.net.on_link = self._on_link
        self.net.policy = self._policy
        self.srv = await ScriptedServer(self.net).start()
        self.srv.handlers[M.AddUser.Request] = self._srv_add_user
        self.srv.handlers[M.RemoveUser.Request] = self._srv_remove_user
        self.srv.handlers[M.ConnectToPeer.Request] = self._srv_connect_to_peer
        self.settings = make_settings('me', port=CLIENT_PORT, download_dir=self.tmpdir,
                                      shared=[dict(path=self.share_dir, share_mode='everyone')])
        self.settings.transfers.limits.upload_slots = self.slots0
        for o in self.init_friends:
            self.settings.users.friends.add(self.names[o])
        self.client = make_client(self.settings)
        # listeners first: what the server says during the log-on (friends are watched from then on) counts
        def on_added(event):
            tr = event.transfer
            u = self.upload_of.get((tr.username, tr.remote_path))
            if u is not None and tr.is_upload():
                self.transfers[u] = tr
                tr.state_listeners.append(_Listener(self, u))

        def on_message(event):
            msg = event.message
            if isinstance(msg, M.AddUser.Response):
                o = self.index_of.get(msg.username)
                if o is not None and msg.exists and msg.status in STATUS_NAME:
                    self.rec.status_told(o, STATUS_NAME[msg.status])
            elif isinstance(msg, M.GetUserStatus.Response):
                o = self.index_of.get(msg.username)
                if o is not None and msg.status in STATUS_NAME:
                    self.rec.status_told(o, STATUS_NAME[msg.status])
            self.rec.maybe_attr()
        self.keep += [on_added, on_message]
        self.client.events.register(TransferAddedEvent, on_added)
        self.client.events.register(MessageReceivedEvent, on_message)
        await self.client.start()
        await self.client.login()
        await self.client.shares.scan()
        self.paths = sorted(it.get_remote_path() for d in self.client.shares.shared_directories for it in d.items)
        if len(self.paths) < PER_USER:
            raise MachineryFailure('share scan did not find the files')
        self.upload_of = {}
        for o in range(1, self.nusers + 1):
            for k in range(PER_USER):
                self.upload_of[(self.names[o], self.paths[k])] = (o - 1) * PER_USER + k + 1
        # NO reference to a User object is kept: the user store of the client is weak, what the server said about
        # a user lives exactly as long as the client keeps the user tracked
        if any(self.priv_truth.values()):
            self._server_send(M.PrivilegedUsers.Response(sorted(self.names[o] for o in self.names if self.priv_truth[o])))
        self.peers = {}
        for o in self.names:
            p = ScriptedPeer(self.net, self.names[o], 40000 + o)
            p.on_accept = self._make_accept(o)
            await p.listen()
            self.srv.addresses[self.names[o]] = (f'10.0.0.{o}', 40000 + o, 0)
            self.peers[o] = p

        await vloop.settle(self.loop)
        await asyncio.sleep(0.3)          # let the start-up cycle and its sleep pass
        await vloop.settle(self.loop)
        if self.exec_delay:
            self.loop.executor_gate = self._slow_executor
        self.t0 = self.loop.time()

    def _slow_executor(self, func, args):
        fut = self.loop.create_future()

        def finish():
            if fut.done():
                return
            try:
                fut.set_result(func(*args))
            except BaseException as exc:  # noqa
                fut.set_exception(exc)
        self.loop.call_later(self.exec_delay, finish)
        return fut

    async def stop(self):
        for t in self.bg + self.api_tasks:
            t.cancel()
        try:
            await self.client.stop()
        finally:
            self.net.uninstall()

    # -- the scripted server's side of user tracking and of indirect connections ---------------
    def _srv_add_user(self, srv, sess, msg):
        M = self.M
        o = self.index_of.get(msg.username)
        if o is None:                                   # the client itself
            return [M.AddUser.Response(msg.username, True, status=2, user_stats=self._stats(), country_code='BE')]
        if self.truth[o] is None:
            resp = M.AddUser.Response(msg.username, False)
        else:
            self.watched.add(msg.username)
            resp = M.AddUser.Response(msg.username, True, status=STATUS_CODE[self.truth[o]],
                                      user_stats=self._stats(), country_code='BE')
        if self.reply_delay:
            self.loop.call_later(self.reply_delay, self._late_reply, sess, msg.username, o)
            return None
        return [resp]

    def _late_reply(self, sess, name, o):
        M = self.M
        if sess.closed:
            return
        if self.truth[o] is None or name not in self.watched:
            if self.truth[o] is None:
                sess.send(M.AddUser.Response(name, False))
            return
        sess.send(M.AddUser.Response(name, True, status=STATUS_CODE[self.truth[o]], user_stats=self._stats(),
                                     country_code='BE'))

    def _stats(self):
        from aioslsk.protocol.primitives import UserStats
        return UserStats(1000, 2, 30, 4)

    def _srv_remove_user(self, srv, sess, msg):
        self.watched.discard(msg.username)
        o = self.index_of.get(msg.username)
        if o is not None:
            self.rec.add('forget', o=o)
        return None

    def _srv_connect_to_peer(self, srv, sess, msg):
        o = self.index_of.get(msg.username)
        if o is not None and o in self.refuse:
            return [self.M.CannotConnect.Response(msg.ticket)]
        return None

    def _policy(self, host, port):
        o = port - 40000 if 40000 < port <= 40000 + MAX_USERS else None
        if o is None:
            return 'ok'
        if o in self.refuse:
            d = self.refuse[o]
            if not d:
                return 'refuse'
            fut = self.loop.create_future()
            self.loop.call_later(d, lambda: fut.done() or fut.set_result('refuse'))
            return ('gate', fut)
        if o in self.slow_dial:
            d = self.slow_dial.pop(o)
            fut = self.loop.create_future()
            self.loop.call_later(d, lambda: fut.done() or fut.set_result('ok'))
            return ('gate', fut)
        return 'ok'

    # -- observation of frames leaving the uploader ----------------------------
    def _on_link(self, link):
        port = link.addr[1][1]
        if port == CLIENT_PORT:
            client_side = 1
        elif 40000 < port <= 40000 + MAX_USERS:
            client_side = 0
        else:
            return
        orig = link._deliver

        def deliver(from_side, data):
            if from_side == client_side:
                self._sniff(link, port, bytes(data))
            return orig(from_side, data)
        link._deliver = deliver

    def _sniff(self, link, port, data):
        """A write of the client on a peer link: is it a PeerTransferRequest frame (code 40)?"""
        if len(data) < 8:
            return
        ln, code = struct.unpack_from('<II', data)
        if ln != len(data) - 4 or code != 40:
            return
        try:
            msg = self.M.PeerMessage.deserialize_request(data)
        except Exception:
            return
        if not isinstance(msg, self.M.PeerTransferRequest.Request):
            return
        o = self.link_owner.get(link.id) if port == CLIENT_PORT else port - 40000
        u = self.upload_of.get((self.names.get(o), msg.filename))
        if u is None:
            self.rec.add('req', u=0)
        else:
            self.rec.add('req', u=u)

    # -- peers ---------------------------------------------------------------------
    async def p_endpoint(self, o):
        ep = self.p_conn.get(o)
        if ep is not None and not ep.at_eof and not ep.writer.is_closing():
            return ep
        ep = await self.peers[o].dial(CLIENT_PORT, 'P')
        self.link_owner[ep.link.id] = o
        self._adopt_p(o, ep)
        return ep

    def _adopt_p(self, o, ep):
        self.p_conn[o] = ep
        self.bg.append(asyncio.create_task(self._p_reader(o, ep), name=f'sim-peer-{o}'))

    async def _p_reader(self, o, ep):
        M = self.M
        while True:
            frame = await ep.read_frame()
            if frame is None:
                if self.p_conn.get(o) is ep:
                    self.p_conn.pop(o, None)
                return
            try:
                msg = M.PeerMessage.deserialize_request(frame)
            except Exception:
                continue
            if isinstance(msg, M.PeerTransferRequest.Request):
                u = self.upload_of.get((self.names[o], msg.filename))
                if u is not None:
                    self.tickets[u] = msg.ticket

    def _make_accept(self, o):
        async def on_accept(ep):
            M = self.M
            frame = await ep.read_frame()
            if frame is None:
                return
            try:
                init = M.PeerInitializationMessage.deserialize_request(frame)
            except Exception:
                ep.close()
                return
            typ = getattr(init, 'typ', None)
            if typ == 'P':
                self._adopt_p(o, ep)
                return
            if typ != 'F':
                ep.close()
                return
            try:
                raw = await ep.reader.readexactly(4)
            except (asyncio.IncompleteReadError, ConnectionError):
                return
            ticket = struct.unpack('<I', raw)[0]
            u = next((x for x, tk in self.tickets.items() if tk == ticket and owner(x) == o), None)
            if u is None or self.neg_mode.get(u) != 'up':
                ep.close()                      # no offset: the uploader puts the upload back in the queue
                return
            # hold the upload: the uploader's writes go through, its drain() blocks until released
            ep.link.writers[0].paused = True
            self.f_conn[u] = dict(ep=ep, link=ep.link, received=0)
            ep.send(struct.pack('<Q', 0))
            got = 0
            while got < FILE_SIZE:
                try:
                    data = await ep.reader.read(65536)
                except ConnectionError:
                    return
                if not data:
                    return
                got += len(data)
                self.f_conn[u]['received'] = got
            ep.close()
        return on_accept

    # -- stimuli ---------------------------------------------------------------------
    async def op_req(self, u):
        ep = await self.p_endpoint(owner(u))
        ep.send_message(self.M.PeerTransferQueue.Request(self.paths[file_index(u)]))

    def _api(self, coro, leaving=None):
        """Call the public API in a task of its own.  For abort / pause the call and its return are recorded: in
        between the upload is on its way out."""
        if leaving is not None:
            self.rec.add('call', u=leaving)

        async def run():
            try:
                await coro
            except Exception as exc:      # InvalidStateTransition etc.: the stimulus did not apply
                return exc
            finally:
                if leaving is not None:
                    self.rec.add('ret', u=leaving)
        self.api_tasks.append(asyncio.create_task(run(), name='sim-api'))

    def task_in_flight(self, u, other_than_current=False):
        """Is a task that runs upload u (Transfer._transfer_task, the slot manage_transfers fills) still going?"""
        tr = self.transfers.get(u)
        task = getattr(tr, '_transfer_task', None) if tr is not None else None
        if task is None or task.done():
            return False
        if other_than_current:
            try:
                return task is not asyncio.current_task()
            except RuntimeError:
                return True
        return True

    async def op_tailend(self, u):
        """Wait (bounded) until the task that is still busy with a finished attempt of upload u has ended."""
        tr = self.transfers.get(u)
        for _ in range(30):
            if tr is None or tr.state.VALUE.name in ('INITIALIZING', 'UPLOADING') or not self.task_in_flight(u):
                return
            await asyncio.sleep(0.05)

    async def op_life(self, kind, u, delay=None):
        tr = self.transfers.get(u)
        M = self.M
        if tr is None:
            return
        state = tr.state.VALUE.name
        if kind == 'resume':
            # TransferManager.queue is for paused / aborted uploads (UploadSlots!Resume); on an upload that is being
            # initialised it would pull the state from under the running task
            if state in ('PAUSED', 'ABORTED'):
                self._api(self.client.transfers.queue(tr))
        elif kind == 'abort':
            self._api(self.client.transfers.abort(tr), leaving=u)
        elif kind == 'pause':
            self._api(self.client.transfers.pause(tr), leaving=u)
        elif kind in ('neg', 'back', 'nofile'):
            if state != 'INITIALIZING' or u not in self.tickets:
                return
            if kind == 'back' and self.rng.random() < 0.4:
                kind = 'nofile'                  # concretisation: another way back to the queue
            self.neg_mode[u] = 'up' if kind == 'neg' else 'back'
            if kind == 'nofile':
                # the peer accepts, but no file connection can be made to it (direct refused, indirect: CannotConnect)
                self.refuse[owner(u)] = delay if delay is not None else self.rng.choice([0.0, 0.3])
            ep = await self.p_endpoint(owner(u))
            ep.send_message(M.PeerTransferReply.Request(ticket=self.tickets[u], allowed=True))
        elif kind in ('fail', 'failslow'):
            if state == 'INITIALIZING' and u in self.tickets:
                ep = await self.p_endpoint(owner(u))
                ep.send_message(M.PeerTransferReply.Request(ticket=self.tickets[u], allowed=False,
                                                            reason='Cancelled'))
            elif state == 'UPLOADING' and u in self.f_conn:
                if kind == 'failslow' or self.rng.random() < 0.4:
                    # the peer is gone altogether: its message connection too, and reaching it again takes a while -
                    # the uploader's task stays busy telling it PeerUploadFailed
                    ep = self.p_conn.pop(owner(u), None)
                    if ep is not None:
                        ep.close()
                    self.slow_dial[owner(u)] = delay if delay is not None else 1.0
                w = self.f_conn[u]['link'].writers[0]
                w.fail_writes = ConnectionResetError(104, 'Connection reset by peer')
                w.resume()
        elif kind == 'complete':
            if state == 'UPLOADING' and u in self.f_conn:
                self.f_conn[u]['link'].writers[0].resume()

    def op_slots(self, n):
        self.settings.transfers.limits.upload_slots = n
        self.rec.maybe_attr()

    def op_friend(self, o, how=None):
        """The application changes its friend list: in place, or by assigning a new set to the setting."""
        name = self.names[o]
        friends = self.settings.users.friends
        if how == 'assign' or (how is None and self.friends_by_assignment):
            self.settings.users.friends = (set(friends) - {name}) if name in friends else (set(friends) | {name})
        elif name in friends:
            friends.discard(name)
        else:
            friends.add(name)
        self.rec.maybe_attr()

    def _server_send(self, *msgs):
        sess = self.srv.session_of('me')
        if sess is None:
            raise MachineryFailure('client has no server session')
        sess.send(*msgs)

    def op_status(self, o, s):
        """The user's status changes on the server; the client is told only if it has the user watched."""
        M = self.M
        name = self.names[o]
        self.truth[o] = s
        if name in self.watched:
            self._server_send(M.GetUserStatus.Response(name, STATUS_CODE[s], self.priv_truth[o]))

    def op_priv(self, o):
        M = self.M
        name = self.names[o]
        self.priv_truth[o] = not self.priv_truth[o]
        self._server_send(M.PrivilegedUsers.Response(sorted(self.names[x] for x in self.names if self.priv_truth[x])))
        if name in self.watched and self.truth[o] is not None and self.rng.random() < 0.3:
            self._server_send(M.GetUserStatus.Response(name, STATUS_CODE[self.truth[o]], self.priv_truth[o]))


class _Listener:
    def __init__(self, world, u):
        self.w, self.u = world, u

    async def on_transfer_state_changed(self, transfer, old, new):
        w = self.w
        if old.name == 'INITIALIZING':
            w.refuse.pop(owner(self.u), None)         # the fault lasted for this attempt
        w.rec.add('st', u=self.u, old=old.name, new=new.name,
                  busy=w.task_in_flight(self.u, other_than_current=True))


LIFE_OPS = ('req', 'resume', 'neg', 'complete', 'fail', 'failslow', 'back', 'nofile', 'abort', 'pause', 'tailend')


def _subject(op):
    """What an operation touches; two operations on the same subject are not injected together."""
    k = op[0]
    if k in LIFE_OPS:
        return ('u', op[1]), ('o', owner(op[1]))
    if k in ('status', 'friend', 'priv'):
        return (('o', op[1]),)
    if k == 'slots':
        return (('slots',),)
    return ()


class Scenario:
    """(initial limit and attributes, operations, concretisation seed) -> recorded trace."""

    def __init__(self, share_dir, tmpdir):
        self.share_dir = share_dir
        self.tmpdir = tmpdir
        self.other_exceptions = 0     # loop-level exceptions of tasks that are not C05's business

    def run(self, init, ops, conc):
        events = []
        holder = {}

        async def main(loop):
            return await self._main(loop, init, ops, conc, holder)
        try:
            _, loop = vloop.run(main)
        except vloop.Deadlock as exc:
            raise MachineryFailure(f'virtual loop deadlock in scenario {ops}: {exc}')
        events = holder['events']
        def relevant(c):
            # only what the transfer manager itself raised is C05's observation (module of the anchor code)
            tb = getattr(c.get('exception'), '__traceback__', None)
            while tb is not None:
                fn = tb.tb_frame.f_code.co_filename.replace(os.sep, '/')
                if fn.endswith('aioslsk/transfer/manager.py'):
                    return True
                tb = tb.tb_next
            return False
        unh = [c for c in loop.unhandled if 'exception' in c and not isinstance(c.get('exception'), asyncio.CancelledError)]
        bad = [c for c in unh if relevant(c)]
        self.other_exceptions += len(unh) - len(bad)
        if bad:
            last = events[-1]
            events.append(dict(ev='exc', t=last['t'], slots=last['slots'], users=last['users'],
                               what=repr(bad[0].get('exception'))[:200]))
        return events

    async def _main(self, loop, init, ops, conc, holder):
        rng = random.Random(conc)
        slots0, users = init
        nusers = max([len(users)] + [owner(op[1]) for op in ops if op and op[0] in LIFE_OPS] +
                     [op[1] for op in ops if op and op[0] in ('status', 'friend', 'priv')])
        if nusers > MAX_USERS:
            raise MachineryFailure('scenario uses more users than Trace.cfg allows')
        # the initial statuses are the SERVER's; the client learns them when (and while) it watches a user
        w = World(loop, self.share_dir, self.tmpdir, nusers, slots0, rng, users)
        await w.start()
        try:
            await vloop.settle(loop)
            await asyncio.sleep(0.3)
            await vloop.settle(loop)
            w.t0 = loop.time()
            w.rec.add('init')
            await self._drive(w, ops, rng)
            holder['events'] = w.rec.events
        finally:
            holder.setdefault('events', w.rec.events)
            await w.stop()

    async def _settle(self, w):
        for _ in range(4):
            await vloop.settle(w.loop)
            pend = [t for t in w.api_tasks if not t.done()]
            if not pend:
                break
        w.api_tasks = [t for t in w.api_tasks if not t.done()]

    async def _drive(self, w, ops, rng):
        loop = w.loop
        group = set()
        need_tick = False
        for op in ops:
            k = op[0]
            if k == 'tick':
                need_tick = True
                continue
            if k == 'run':
                await self._settle(w)
                group.clear()
                if need_tick:
                    need_tick = False
                    # normally wake just after the management job's timer; sometimes in the very same loop
                    # iteration, so that the next stimuli fall between a cycle and the first steps of its tasks
                    same_batch = rng.random() < 0.25
                    await asyncio.sleep(0.05 if same_batch else 0.05 + 1e-6)
                    if not same_batch:
                        await self._settle(w)
                continue
            if k in ('idle', 'wait'):
                await self._settle(w)
                group.clear()
                need_tick = False
                await asyncio.sleep(IDLE if k == 'idle' else (op[1] if len(op) > 1 else 0.4))
                await self._settle(w)
                continue
            subj = _subject(op)
            if any(s in group for s in subj):
                await self._settle(w)
                group.clear()
            group.update(subj)
            if k == 'req':
                await w.op_req(op[1])
            elif k == 'tailend':
                await w.op_tailend(op[1])
            elif k in LIFE_OPS:
                await w.op_life(k, op[1], op[2] if len(op) > 2 else None)
            elif k == 'slots':
                w.op_slots(op[1])
            elif k == 'status':
                w.op_status(op[1], op[2])
            elif k == 'friend':
                w.op_friend(op[1], op[2] if len(op) > 2 else None)
            elif k == 'priv':
                w.op_priv(op[1])
        await self._settle(w)
        if need_tick:
            await asyncio.sleep(0.05 + 1e-6)
            await self._settle(w)
        await asyncio.sleep(IDLE)
        await self._settle(w)
        w.rec.add('end')


# ---------------------------------------------------------------------------
# directed (enumerated) scenarios, in the same vocabulary as the TLC behaviours
# ---------------------------------------------------------------------------

STEP = (('run',), ('tick',), ('run',))        # let the pending management cycle happen


def _plain(n):
    return tuple((o, 'unknown', False, False) for o in range(1, n + 1))


def directed_scenarios(rng, thorough):
    out = []
    combos = [(s, f, p) for s in ('unknown', 'offline', 'away', 'online') for f in (False, True) for p in (False, True)]
    # D1 priority matrix: user 3 holds the only slot while users 1 and 2 queue up (both orders); when the slot
    # comes free the cycle has to choose between them
    pairs = [(a, b, order) for a in combos for b in combos for order in (0, 1)]
    if not thorough:
        pairs = rng.sample(pairs, 140)
    for a, b, order in pairs:
        users = ((1,) + a, (2,) + b, (3, 'online', False, False))
        first, second = ((1, 3) if order == 0 else (3, 1))
        ops = (('req', 5),) + STEP + (('req', first), ('run',), ('req', second)) + STEP + (('fail', 5),) + STEP
        out.append(((1, users), ops, 'd1-priority'))
    # D2 limit and one-per-user: n users with two uploads each, limit s; then every upload is served in turn
    for n in range(1, MAX_USERS + 1):
        for s in range(0, 5):
            ups = [u for u in range(1, n * PER_USER + 1)]
            rng.shuffle(ups)
            ops = tuple(('req', u) for u in ups) + STEP
            for rnd in range(2):
                for u in ups:
                    ops += (('neg', u), ('run',), ('complete', u)) + STEP
            out.append(((s, _plain(n)), ops, 'd2-limit'))
    # D3 the limit changes while uploads wait / run
    for s, s2 in itertools.permutations(range(0, 4), 2):
        n = 3
        ups = [1, 3, 5, 2]
        ops = tuple(('req', u) for u in ups) + STEP + (('slots', s2), ('idle',))
        for u in ups:
            ops += (('neg', u), ('run',), ('complete', u)) + STEP
        out.append(((s, _plain(n)), ops, 'd3-limit-change'))
    # D4 offline users: they queue up while the limit is 0 (the client starts watching them and is told their
    # status), then slots appear; later they come back
    for s in ('away', 'online'):
        for first_off in (True, False):
            users = ((1, 'offline' if first_off else 'online', False, False), (2, 'online', False, False))
            ops = (('req', 1), ('req', 3)) + STEP
            if not first_off:
                ops += (('status', 1, 'offline'),) + STEP
            ops += (('slots', 2), ('wait', 1.2), ('neg', 3), ('run',), ('complete', 3)) + STEP + \
                   (('status', 1, s),) + STEP + (('back', 1),) + STEP
            out.append(((0, users), ops, 'd4-offline'))
    # D5 abort / pause / resume around the hand-out
    for k in ('abort', 'pause'):
        for s in (1, 2):
            ops = (('req', 1), ('req', 3), ('req', 2)) + STEP + ((k, 1),) + STEP + ((k, 3),) + STEP + \
                  (('resume', 1),) + STEP + (('resume', 3),) + STEP + (('fail', 2),) + STEP
            out.append(((s, _plain(2)), ops, 'd5-abort-pause'))
    # D6 whole life cycles under a tight limit: pause / fail / abort while uploading, back to the queue,
    # completed and failed uploads asked for again
    for s in (1, 2):
        for n in (2, 3):
            for variant in range(3 if thorough else 2):
                ups = [1, 2] + [2 * o - 1 for o in range(2, n + 1)]
                rng.shuffle(ups)
                ops = tuple(('req', u) for u in ups) + STEP
                blocks = [
                    lambda u: (('neg', u), ('run',), ('pause', u)) + STEP + (('resume', u),) + STEP,
                    lambda u: (('neg', u), ('run',), ('fail', u)) + STEP + (('req', u),) + STEP,
                    lambda u: (('back', u),) + STEP,
                    lambda u: (('neg', u), ('run',), ('abort', u)) + STEP + (('resume', u),) + STEP,
                    lambda u: (('neg', u), ('run',), ('complete', u)) + STEP + (('req', u),) + STEP,
                    lambda u: (('fail', u),) + STEP + (('req', u),) + STEP,
                ]
                rng.shuffle(blocks)
                for b in blocks:
                    for u in ups:
                        ops += b(u)
                out.append(((s, _plain(n)), ops, 'd6-life-cycles'))
    # D7 the file connection cannot be made (peer accepted the request, direct connect refused, indirect: CannotConnect)
    # while the management job is idle, and nothing else happens afterwards
    for n in (1, 2):
        for delay in (0.0, 0.3):
            for lim in (1, 2):
                ops = tuple(('req', 2 * o - 1) for o in range(1, n + 1)) + STEP + (('wait', 0.4), ('nofile', 1, delay), ('idle',)) + \
                      (('neg', 1), ('run',), ('complete', 1)) + STEP
                out.append(((lim, _plain(n)), ops, 'd7-no-file-connection'))
    # D8 an upload fails while uploading and the peer is hard to reach (the old task stays busy telling it so);
    # the peer asks again before that task has ended; nothing else happens afterwards
    for n in (1, 2):
        for delay in (0.5, 1.0):
            for gap in (0.1, 0.3):
                ops = tuple(('req', 2 * o - 1) for o in range(1, n + 1)) + STEP + \
                      (('neg', 1), ('run',), ('wait', 0.4), ('failslow', 1, delay), ('wait', gap), ('req', 1), ('idle',)) + \
                      (('neg', 1), ('run',), ('complete', 1)) + STEP
                out.append(((n, _plain(n)), ops, 'd8-asked-again-while-old-task-busy'))
    # D10 limit changes and transfer events interleaved within one settings-poll period: the limit is lowered, an
    # active upload ends (its cycle runs at the lower limit), the limit goes back up; nothing else happens afterwards
    for lim in (2, 3):
        for how in ('fail', 'abort', 'back'):
            for low in range(1, lim):
                ups = [2 * o - 1 for o in range(1, lim + 2)]
                ops = tuple(('req', u) for u in ups) + STEP + (('slots', low), (how, 1)) + STEP + (('slots', lim), ('idle',)) + \
                      tuple(x for u in ups for x in (('neg', u), ('run',), ('complete', u))) + STEP
                out.append(((lim, _plain(lim + 1)), ops, 'd10-limit-lowered-event-raised'))
    # D11 the friend list changes (in place or by assignment of a new set, see World.op_friend) while two users wait
    # for the one slot user 3 holds
    for first, pre, how in itertools.product((1, 2), (False, True), ('assign', 'inplace')):
        if True:
            users = ((1, 'online', pre, False), (2, 'online', pre, False), (3, 'online', False, False))
            other = 3 - first
            ops = (('req', 5),) + STEP + (('req', 1), ('run',), ('req', 3)) + STEP
            ops += ((('friend', other, how),) if pre else (('friend', first, how),)) + (('wait', 0.2), ('fail', 5)) + STEP + \
                   (('neg', 1), ('neg', 3), ('run',), ('complete', 1), ('complete', 3)) + STEP
            out.append(((1, users), ops, 'd11-friend-list-changed'))
    # D9 what the client knows about a user must survive as long as the user has an unfinished upload: user 1 has a
    # queued upload, then user 2 queues one, then a later upload of user 1 is finished (aborted / failed); user 3
    # holds the only slot meanwhile.  Afterwards the slot is handed on twice.
    for st1, st2 in (('offline', 'online'), ('online', 'unknown'), ('away', 'unknown'), ('offline', 'unknown')):
        for second in (2, 4):
            # user 1's later upload is aborted while queued; `second`: user 2 has one or two uploads in between
            users = ((1, st1, False, False), (2, st2, False, False), (3, 'online', False, False))
            ops = (('req', 5),) + STEP + (('req', 1), ('run',), ('req', 3), ('run',)) + \
                  ((('req', 4), ('run',)) if second == 4 else ()) + (('req', 2),) + STEP + (('abort', 2),) + STEP
            ops += (('wait', 0.4), ('fail', 5)) + STEP + (('neg', 3), ('neg', 1), ('run',), ('complete', 3), ('complete', 1)) + STEP + \
                   (('neg', 3), ('neg', 1), ('neg', 4), ('run',), ('complete', 3), ('complete', 1), ('complete', 4)) + STEP
            out.append(((1, users), ops, 'd9-knowledge-kept'))
    return out


# ---------------------------------------------------------------------------
# verdicts
# ---------------------------------------------------------------------------

def _fingerprint(tid, info, trace):
    ev = info.get('event') or {}
    name = str(info.get('name'))
    if info.get('kind') == 'property':
        name = re.sub(r'[TBC]$', '', name) if name not in ('OnePerUser',) else name
        if name == 'EventuallyStarted':
            # the site: how the upload that is not started got where it is, if a task of its own was in the way;
            # otherwise the kind of event that began the stall
            det = info.get('detail') or ''
            c = re.findall(r'"cause": "([^"]+)"', det)
            k = re.findall(r'"culprit": "([^"]+)"', det)
            what = k[-1] if k and 'task-in-flight' in k[-1] else (c[-1] if c else 'unknown')
            return f"C05:EventuallyStarted:not-started-within-bound-after-{what}"
        return f'C05:{name}'
    if ev.get('ev') == 'st':
        return f"C05:unexplained-transition:{ev.get('old')}->{ev.get('new')}"
    if ev.get('ev') == 'req':
        return 'C05:PeerTransferRequest-for-upload-not-initializing'
    if ev.get('ev') == 'exc':
        return 'C05:exception-in-loop'
    return f"C05:unexplained:{ev.get('ev')}"


ALL_ACTIONS = ['Cycle', 'TimerStep', 'FirstStep', 'ERequest', 'ERequeue', 'EResume', 'ENegotiated', 'EComplete', 'EFail',
               'EBackToQueue', 'EAbort', 'EPause']


def _models(chk: Check, thorough: bool):
    st = chk.cov['binding_selftest']
    r = tlc.model_check(SPEC, 'MC_quick.cfg', expect_actions=ALL_ACTIONS + ['TailEnd', 'ETracked'], timeout=900)
    chk.add_model('UploadSlots 2 users/3 uploads, 3 life-cycle events (exhaustive)', r)
    r = tlc.model_check(SPEC, 'MC_quick2.cfg', expect_actions=ALL_ACTIONS + ['TailEnd', 'ETracked', 'ESetSlots', 'PollStep'], timeout=900)
    chk.add_model('UploadSlots 2 users/2 uploads, limit changes, unbounded life cycles (exhaustive)', r)
    r = tlc.model_check(SPEC, 'MC_prio.cfg', expect_actions=['Cycle', 'TimerStep', 'FirstStep', 'ERequest', 'ETracked',
                                                             'ESetSlots'], timeout=900)
    chk.add_model('UploadSlots 2 users, all server statuses / friend / privilege (exhaustive)', r)
    r = tlc.model_check(SPEC, 'MC_live.cfg', expect_actions=['Cycle', 'FirstStep', 'EFail', 'ERequeue', 'TailEnd'], timeout=900)
    chk.add_model('UploadSlots liveness, end of a task requests a cycle (repaired position)', r)
    # the code's position (HEAD 77cb0ff): an upload asked for again while its old task is in flight is skipped by the
    # cycle and nothing follows when the task ends -> EventuallyStarted fails, the counterexample contains TailEnd
    rc = tlc.run_tlc(SPEC, 'MC_live_code.cfg', timeout=300)
    labels = [lab for i in rc.issues for lab, _ in i.trace]
    hit = any(i.kind == 'temporal' for i in rc.issues) and any(l.startswith('TailEnd') for l in labels)
    st['model_in_code_position_violates_EventuallyStarted_after_TailEnd'] = hit
    if not hit:
        raise MachineryFailure('design model in the code position did not show the task-in-flight stall')
    teeth = []
    if thorough:
        teeth = [('MC_teeth_grantall.cfg', {'StartRespectsLimit'}), ('MC_teeth_offline.cfg', {'NeverOffline'}),
                 ('MC_teeth_users.cfg', {'OnePerUser'}), ('MC_teeth_countinit.cfg', {'OnePerUser', 'StartRespectsLimit'}),
                 ('MC_teeth_weights.cfg', {'PriorityHolds'}), ('MC_teeth_track.cfg', {'KnowledgeKept', 'NeverOffline'}),
                 ('MC_live_lost.cfg', {'Temporal'}), ('MC_live_slots.cfg', {'Temporal'}), ('MC_live_managed.cfg', {'Temporal'}),
                 ('MC_live_requeuetail.cfg', {'Temporal'})]
    for cfg, want in teeth:
        rt = tlc.run_tlc(SPEC, cfg, timeout=300)
        got = {i.name for i in rt.issues}
        st[f'model_{cfg[3:-4]}_violates_{"_or_".join(sorted(want))}'] = bool(got & want)
        if not got & want:
            raise MachineryFailure(f'{cfg}: the broken variant of the model violated {got}, expected {want}')
    if thorough:
        # the big ones run without -coverage (vacuity is established by the small configurations above)
        for cfg, label in THOROUGH_MODELS:
            r = tlc.run_tlc(SPEC, cfg, timeout=2400)
            chk.add_model(label, r)


THOROUGH_MODELS = [
    ('MC_quick3.cfg', 'UploadSlots 2 users/3 uploads, limit changes, unbounded life cycles (exhaustive)'),
    ('MC_prio_attr.cfg', 'UploadSlots 2 users, all attributes, one change (exhaustive)'),
    ('MC_big.cfg', 'UploadSlots 3 users/4 uploads (exhaustive)'),
    ('MC_prio_big.cfg', 'UploadSlots 2 users/3 uploads, all attributes (exhaustive)'),
    ('MC_live2.cfg', 'UploadSlots liveness 2 users, limit and attribute change'),
    ('MC_live_big.cfg', 'UploadSlots liveness 2 users/3 uploads'),
]


_SIM_STATE = re.compile(r'\\\* <(.*?)(?: line \d+[^>]*)?>\nSTATE_\d+ == ?\n(.*?)\n\n', re.S)


def _simulate(cfg, num, depth, seed, timeout=900):
    """Random behaviours from TLC's simulator as (first state, labels).  Like tlc.simulate_behaviours, but only
    the first state of a behaviour is parsed (the labels carry the arguments of every later step)."""
    d = tempfile.mkdtemp(prefix='tlcsim-')
    try:
        res = tlc.run_tlc(SPEC, cfg, simulate=f'file={d}/tr,num={num}', depth=depth, workers=1, seed=seed,
                          timeout=timeout, parse_traces=False)
        out = []
        for fn in sorted(os.listdir(d)):
            if not fn.startswith('tr'):
                continue
            with open(os.path.join(d, fn), encoding='utf8') as fh:
                txt = fh.read() + '\n\n'
            steps = _SIM_STATE.findall(txt)
            if len(steps) < 2:
                continue
            try:
                first = tlc.parse_state(steps[0][1])
            except Exception as exc:
                raise MachineryFailure(f'cannot parse simulated state: {exc}')
            out.append((first, [lab for lab, _ in steps[1:]]))
        return out, res
    finally:
        shutil.rmtree(d, ignore_errors=True)


_DEEP = ('PollStep', 'ENegotiated', 'EComplete', 'EFail', 'EBackToQueue', 'ERequeue', 'ESetSlots', 'EStatus', 'TailEnd', 'ETracked')


def _score(labels):
    kinds = [l.split('(')[0] for l in labels]
    return 3 * len(set(kinds)) + sum(2 for k in kinds if k in _DEEP) + sum(1 for k in kinds if k == 'FirstStep')


def collect(chk: Check, thorough: bool):
    """(init, ops) -> source label."""
    scen = {}
    plan = [('MC_sim.cfg', 1200 if thorough else 300, 45), ('MC_sim5.cfg', 800 if thorough else 160, 45),
            ('MC_prio_big.cfg', 600 if thorough else 120, 18)]
    if thorough:
        plan += [('MC_quick.cfg', 500, 32), ('MC_big.cfg', 500, 36)]
    for i, (cfg, num, depth) in enumerate(plan):
        # the simulator walks uniformly; most steps are abort/pause/resume of queued uploads and attribute
        # flips.  Generate three times as many behaviours and keep those that get furthest into the life cycle.
        behs, res = _simulate(cfg, num * 3, depth, chk.seed + 11 + i)
        if not behs:
            raise MachineryFailure(f'simulation of {cfg} produced no behaviour: {res.raw[-800:]}')
        behs = [b for _, _, b in sorted(((-_score(b[1]), j, b) for j, b in enumerate(behs)), key=lambda x: x[:2])[:num]]
        new = 0
        for first, labels in behs:
            init = init_of(first)
            ops = ops_of(labels)
            if ops and (init, ops) not in scen:
                scen[(init, ops)] = f'sim:{cfg[3:-4]}'
                new += 1
        chk.log(f'simulation {cfg}: {len(behs)} behaviours, {new} new scenarios')
        chk.cov[f'sim_behaviours_{cfg[3:-4]}'] = len(behs)
    d = directed_scenarios(random.Random(chk.seed + 5), thorough)
    for init, ops, src in d:
        scen.setdefault((init, ops), src)
    chk.log(f'{len(d)} directed scenarios')
    chk.cov['directed_scenarios'] = len(d)
    return scen


def _make_share():
    tmp = tempfile.mkdtemp(prefix='c05-')
    share = os.path.join(tmp, 'share')
    os.makedirs(share)
    for i in range(PER_USER):
        with open(os.path.join(share, f'song{i + 1}.mp3'), 'wb') as fh:
            fh.write(bytes([65 + i]) * FILE_SIZE)
    return tmp, share


def _nontrivial(trace):
    return any(e['ev'] == 'st' and e['new'] == 'INITIALIZING' for e in trace)


def _edge_counts(traces):
    c = {}
    for t in traces:
        for e in t:
            if e['ev'] == 'st':
                k = f"{e['old']}->{e['new']}"
                c[k] = c.get(k, 0) + 1
            elif e['ev'] in ('req', 'attr', 'told', 'forget'):
                c[e['ev']] = c.get(e['ev'], 0) + 1
    return c


def _key(trace):
    return tuple((e['ev'], e.get('u'), e.get('old'), e.get('new'), e['slots'], json.dumps(e['users'])) for e in trace)


def _corruptions(traces, limit=6):
    """Recorded traces with one field falsified; each must be rejected."""
    out = []
    kinds = set()
    for tr in traces:
        inits = [i for i, e in enumerate(tr) if e['ev'] == 'st' and e['new'] == 'INITIALIZING']
        if not inits:
            continue
        i = inits[0]
        u = tr[i]['u']
        # (1) the limit was 0 all along: the start breaks StartRespectsLimit
        bad = copy.deepcopy(tr)
        for e in bad:
            e['slots'] = 0
        out.append(('limit-0', bad))
        # (2) the server said the owner is offline, and never anything else: NeverOffline
        bad = [copy.deepcopy(e) for e in tr if not (e['ev'] in ('told', 'forget') and e['o'] == owner(u))]
        told = dict(bad[0], ev='told', o=owner(u), s='offline')
        told.pop('told', None)
        bad.insert(1, told)
        i2 = next(j for j, e in enumerate(bad) if e['ev'] == 'st' and e['u'] == u and e['new'] == 'INITIALIZING')
        out.append(('owner-offline', bad))
        # (2b) ... and the client had the server stop watching the owner while the upload was queued: no excuse
        bad2 = copy.deepcopy(bad)
        fg = dict(bad2[i2 - 1], ev='forget', o=owner(u))
        for k2 in ('u', 'old', 'new', 'busy', 's'):
            fg.pop(k2, None)
        if bad2[i2 - 1]['ev'] == 'st' and bad2[i2 - 1]['u'] == u:
            bad2.insert(i2, fg)
            out.append(('forgotten-while-queued', bad2))
        # (3) the start is reported as QUEUED -> UPLOADING: no action of the spec
        bad = copy.deepcopy(tr)
        bad[i]['new'] = 'UPLOADING'
        for e in bad[i + 1:]:
            if e['ev'] == 'st' and e['u'] == u:
                e['old'] = 'UPLOADING'
                break
        out.append(('skip-initializing', bad))
        # (4) a second upload of the same user is reported started at the same moment: OnePerUser
        other = u + 1 if (u - 1) % PER_USER == 0 else u - 1
        bad = copy.deepcopy(tr)
        bad.insert(i, dict(bad[i], ev='st', u=other, old='VIRGIN', new='QUEUED'))
        bad.insert(i + 2, dict(bad[i + 1], u=other, old='QUEUED', new='INITIALIZING'))
        if not any(e['ev'] == 'st' and e['u'] == other for e in tr):
            out.append(('two-of-one-user', bad))
        # (5) the start never happened and nothing else did for longer than the bound: bounded EventuallyStarted
        if not any(e['ev'] in ('attr', 'told', 'forget') for e in tr[:i]) and tr[i]['slots'] > 0:
            bad = copy.deepcopy(tr[:i])
            bad.append(dict(bad[-1], ev='end', t=bad[-1]['t'] + int((BOUND + 1) * 1e6)))
            for k2 in ('u', 'old', 'new', 'busy', 'o', 's', 'told'):
                bad[-1].pop(k2, None)
            if len(bad) > 1 and not any(e['ev'] in ('call', 'ret') for e in bad):
                out.append(('never-started', bad))
    # keep a few of every kind
    res, per = [], {}
    for k, t in out:
        if per.get(k, 0) < limit:
            per[k] = per.get(k, 0) + 1
            res.append((k, t))
    return res


def run(chk: Check, args):
    thorough = chk.tier == 'thorough'
    chk.cov['rule'] = ('scenario = (initial limit and user attributes, operation sequence) projected from TLC behaviours '
                       '(simulation of several configurations of the design spec) or enumerated (priority matrix, limits x '
                       'populations, limit changes, offline, abort/pause, life cycles, file connection failures, re-requests '
                       'while the old task is busy, interleaved finished/unfinished uploads of one user); each is executed '
                       'once per concretisation seed (user names, server reply delay, ways back to the queue, slow/fast '
                       'failure tails, same-iteration wake-ups) '
                       'on a real SoulSeekClient in virtual time; distinct = distinct recorded traces; non-trivial = at '
                       'least one upload was started (entered INITIALIZING)')
    _models(chk, thorough)
    scen = collect(chk, thorough)
    keys = sorted(scen, key=repr)
    tmp, share = _make_share()
    traces, metas = [], []
    try:
        sc = Scenario(share, tmp)
        for (init, ops) in keys:
            # thorough: the enumerated scenarios are run with two concretisations
            nconc = 2 if thorough and not scen[(init, ops)].startswith('sim:') else 1
            for c in range(nconc):
                conc = chk.rng.randrange(1 << 30)
                ev = sc.run(init, ops, conc)
                traces.append(ev)
                metas.append(dict(init=init, ops=ops, conc=conc, source=scen[(init, ops)]))
                chk.count(_key(ev), nontrivial=_nontrivial(ev))
    finally:
        shutil.rmtree(tmp, ignore_errors=True)
    chk.log(f'executed {len(traces)} scenarios on the real client, '
            f'{sum(1 for t in traces if _nontrivial(t))} with at least one start')
    for i in (0, len(traces) // 3, 2 * len(traces) // 3, len(traces) - 1):
        chk.sample(dict(meta=metas[i], trace=[{k: v for k, v in e.items() if k != 'users'} for e in traces[i]][:60]))
    started = sum(1 for t in traces for e in t if e['ev'] == 'st' and e['new'] == 'INITIALIZING')
    chk.cov['starts_observed'] = started
    chk.cov['transitions_observed'] = dict(sorted(_edge_counts(traces).items()))
    chk.cov['unrelated_loop_exceptions_ignored'] = sc.other_exceptions
    chk.cov['records'] = sum(len(t) for t in traces)

    v = tlc.validate_traces(TRACE, 'Trace.cfg', traces, diag_cfg='TraceDiag.cfg', timeout=1500)
    chk.apply_verdicts(v, traces, _fingerprint, meta_of=lambda tid: metas[tid - 1])
    marked = sum(1 for m in v.accepted.values() if m)
    chk.log(f'trace validation: {len(v.accepted)} accepted ({marked} only with a tolerated deviation), '
            f'{len(v.rejected)} rejected')

    # binding self-test: falsify recorded fields -> every falsified trace must be rejected
    clean = [traces[t - 1] for t, m in sorted(v.accepted.items()) if not m]
    cor = _corruptions(clean)
    if not cor:
        raise MachineryFailure('no accepted trace with a start to corrupt')
    cv = tlc.validate_traces(TRACE, 'Trace.cfg', [t for _, t in cor], max_diag=0, timeout=900)
    per = {}
    for i, (k, _) in enumerate(cor, 1):
        a, b = per.get(k, (0, 0))
        per[k] = (a + (1 if i in cv.rejected else 0), b + 1)
    chk.cov['binding_selftest']['corrupted_traces_rejected'] = {k: f'{a}/{b}' for k, (a, b) in sorted(per.items())}
    if any(a != b for a, b in per.values()):
        raise MachineryFailure(f'corrupted traces were accepted by the trace spec: {per}')
    chk.assumptions += [
        'an upload counts as started when the manager hands it the slot (creates its task): a limit lowered between that '
        'decision and the task\'s first step (same loop iteration) does not make the start a violation; an owner going '
        'offline in that window neither',
        'the bounded-time form of "eventually started" uses 2 s of virtual time (8 x MAX_TRANSFER_MGMT_INTERVAL)',
        'state listeners do not suspend; the transfer lock of a QUEUED upload is therefore free when its task starts',
        'a user\'s status is what the server told the client (AddUser / GetUserStatus responses seen on the event bus); it '
        'counts as forgotten only when the client has the server stop watching the user (RemoveUser) while the user has no '
        'unfinished upload; the scripted server answers AddUser with its status, reports changes only for watched users',
        'privileges are announced with PrivilegedUsers lists (what AddPrivilegedUser sets on a User object is lost with it)',
        'share removal / blocking (a QUEUED upload failing as not shared) is outside this check (C08)',
        'CPython asyncio ready queue is FIFO; timers that are due are appended behind the handles already ready',
    ]


def replay(chk: Check, data: dict):
    """Re-execute the scenario of a replay file on the current tree and validate the new trace."""
    meta = (data.get('replay') or {}).get('meta')
    if not meta:
        raise MachineryFailure('replay file has no scenario')
    init = (meta['init'][0], tuple(tuple(u) for u in meta['init'][1]))
    ops = tuple(tuple(o) for o in meta['ops'])
    tmp, share = _make_share()
    try:
        ev = Scenario(share, tmp).run(init, ops, meta['conc'])
    finally:
        shutil.rmtree(tmp, ignore_errors=True)
    chk.count(_key(ev), nontrivial=_nontrivial(ev))
    print('scenario:', init, ops)
    for e in ev:
        print('  ', {k: v for k, v in e.items() if k != 'users'}, e['users'] if e['ev'] in ('init', 'attr') else '')
    v = tlc.validate_traces(TRACE, 'Trace.cfg', [ev], diag_cfg='TraceDiag.cfg', timeout=600)
    chk.apply_verdicts(v, [ev], _fingerprint, meta_of=lambda tid: meta)

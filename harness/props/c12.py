"""C12 - a reply completes exactly the requests it answers; a timeout is a timeout
(spec: ExpectedResponse).

Direction A: behaviours of the TLC model (edge cover of small state graphs + simulation of the larger
ones) are projected onto *schedules* - what the environment does at which loop-iteration boundary:
start a caller (wait_for_*_message / create_*_response_future + timeout / SoulSeekClient.execute with
a real command / TransferManager.request_place_in_queue), each asking for a timeout below or above the
library's built-in 10 s (or none: the documented default), write a batch of frames to the server / a peer connection (optionally with one frame
whose handling suspends in a slow application listener of MessageReceivedEvent), release that listener,
cancel a caller's task (also while it is still sending), make its send fail, move the clock to just before
and past the deadline a caller asked for - also while a message is being handled.  Every schedule is executed on a real SoulSeekClient (real Network,
connections, reader loops, managers) on harness.simnet in harness.vloop virtual time.  The driver is a
zero-delay timer, i.e. the last handle of every loop iteration, which is exactly the model's "D".

Direction B: every execution is recorded (call / msg / hdl / stim / out / err / q events) and judged by TLC
against ExpectedResponseTrace, which binds only the observation layer of the design spec.
"""
from __future__ import annotations

import asyncio
import copy
import logging
import os
import random
import re
import shutil
import tempfile
from typing import Any, Optional

from .. import tlc, vloop
from ..core import Check, MachineryFailure
from ..simnet import SimNet
from ..simserver import ScriptedPeer, ScriptedServer, make_client, make_settings

SPEC = 'ExpectedResponse/MC.tla'
TRACE = 'ExpectedResponse/ExpectedResponseTrace.tla'

LISTEN_PORT = 61000
OWN_NAME = 'me'                     # the user name the client logs in with
PEER_NAMES = {'P1': 'peer-one', 'P2': 'peer-two'}


# ---------------------------------------------------------------------------
# concretisation: abstract (conn, cls, f1, f2) -> real message classes / commands
# ---------------------------------------------------------------------------

def _families():
    """Message families: a real message class with two matchable fields, a constructor from abstract
    field values (1|2) and - where the library has one - the command whose expected response it is."""
    from aioslsk.protocol import messages as M
    from aioslsk.protocol.primitives import DirectoryData
    from aioslsk import commands as C

    S = [
        dict(name='GetUserStatus', cls=M.GetUserStatus.Response, f=('username', 'status'), kinds=('str', 'status'),
             make=lambda a, b, uid: M.GetUserStatus.Response(username=a, status=b, privileged=bool(uid % 2)),
             cmd=('lit', 'any', lambda a, b, peer: C.GetUserStatusCommand(a))),
        dict(name='PrivateRoomGrantMembership', cls=M.PrivateRoomGrantMembership.Response, f=('room', 'username'),
             kinds=('str', 'str'),
             make=lambda a, b, uid: M.PrivateRoomGrantMembership.Response(room=a, username=b),
             cmd=('lit', 'lit', lambda a, b, peer: C.GrantRoomMembershipCommand(a, b))),
        dict(name='GetUserInterests', cls=M.GetUserInterests.Response, f=('username', 'interests'),
             kinds=('str', 'strlist'),
             make=lambda a, b, uid: M.GetUserInterests.Response(username=a, interests=b, hated_interests=[f'h{uid}']),
             cmd=('lit', 'any', lambda a, b, peer: C.GetUserInterestsCommand(a))),
        # echoes of what we did in a room: the server sends them under the name we are LOGGED IN with, which is
        # what the command expects in `username` (kind 'ownname': one abstract value is that name)
        dict(name='RoomChatMessage', cls=M.RoomChatMessage.Response, f=('room', 'username'), kinds=('str', 'ownname'),
             make=lambda a, b, uid: M.RoomChatMessage.Response(room=a, username=b, message='hello there'),
             cmd=('lit', 'lit', lambda a, b, peer: C.RoomMessageCommand(a, 'hello there'))),
        dict(name='RoomTickerAdded', cls=M.RoomTickerAdded.Response, f=('room', 'username'), kinds=('str', 'ownname'),
             make=lambda a, b, uid: M.RoomTickerAdded.Response(room=a, username=b, ticker='now playing'),
             cmd=('lit', 'lit', lambda a, b, peer: C.SetRoomTickerCommand(a, 'now playing'))),
        dict(name='CheckPrivileges', cls=M.CheckPrivileges.Response, f=('time_left', None), kinds=('int', None),
             make=lambda a, b, uid: M.CheckPrivileges.Response(time_left=a),
             cmd=('any', 'any', lambda a, b, peer: C.CheckPrivilegesCommand())),
    ]
    P = [
        dict(name='PeerPlaceInQueueReply', cls=M.PeerPlaceInQueueReply.Request, f=('filename', 'place'),
             kinds=('str', 'int'), place=True,     # the reply of TransferManager.request_place_in_queue
             make=lambda a, b, uid: M.PeerPlaceInQueueReply.Request(filename=a, place=b), cmd=None),
        dict(name='PeerTransferReply', cls=M.PeerTransferReply.Request, f=('ticket', 'filesize'), kinds=('int', 'int'),
             make=lambda a, b, uid: M.PeerTransferReply.Request(ticket=a, allowed=True, filesize=b), cmd=None),
        dict(name='PeerDirectoryContentsReply', cls=M.PeerDirectoryContentsReply.Request, f=('ticket', 'directory'),
             kinds=('ticket', 'str'),
             make=lambda a, b, uid: M.PeerDirectoryContentsReply.Request(
                 ticket=a, directory=b, directories=[DirectoryData(name=b, files=[])]),
             cmd=('late', 'lit', lambda a, b, peer: C.PeerGetDirectoryContentCommand(peer, b))),
        dict(name='PeerUserInfoReply', cls=M.PeerUserInfoReply.Request, f=('description', 'upload_slots'),
             kinds=('str', 'int'),
             make=lambda a, b, uid: M.PeerUserInfoReply.Request(description=a, has_picture=False, upload_slots=b,
                                                              queue_size=uid, has_slots_free=True),
             cmd=('any', 'any', lambda a, b, peer: C.PeerGetUserInfoCommand(peer))),
    ]
    return dict(S=S, P=P)


def _shape(m: str) -> str:
    return 'any' if m == 'any' else 'lit' if m in ('v1', 'v2') else 'pred'


def _kind_of(conn: str) -> str:
    return 'S' if conn == 'S' else 'P'


class Concretisation:
    """Chooses, for one schedule, the real message class standing for each abstract (connection kind,
    class) and the real values standing for the abstract field values 1 and 2."""

    def __init__(self, schedule: dict, rng: random.Random):
        fam = _families()
        self.rng = rng
        self.family: dict[tuple[str, str], dict] = {}
        self.other_name: Optional[str] = None
        self.values: dict[tuple[str, str, int], dict[int, Any]] = {}
        regs = [s for step in schedule['steps'] for s in step['stims'] if s[0] == 'reg']
        specs = [r[2] for r in regs]
        msgs = [m for step in schedule['steps'] for s in step['stims'] if s[0] == 'feed' for m in s[1]]
        # which API variant stands for the abstract one: "wait" and "fut" are the same request in the design
        # (create_*_response_future + timeout is what wait_for_* does); in schedules without cancel/expiry a
        # "wait" may also go through execute() with the real command when the library has one for its shape
        mix = schedule.get('api_mix')
        self.api: dict[int, str] = {}
        for r in regs:
            c, spec, api = r[1], r[2], r[3]
            if api == 'wait' and mix in ('fut', 'full'):
                x = rng.random()
                if mix == 'full' and x < 0.3:
                    api = 'exec'
                elif x < 0.6:
                    api = 'fut'
            self.api[c] = api
        keys = sorted({(_kind_of(x['conn']), x['cls']) for x in specs + msgs})
        used: dict[str, set] = dict(S=set(), P=set())
        for key in keys:
            kind, cls = key
            mine = [r for r in regs if (_kind_of(r[2]['conn']), r[2]['cls']) == key]
            need_f2 = any(r[2]['m2'] != 'any' for r in mine)
            late = any(r[2].get('late') for r in mine)
            place = any(self.api[r[1]] == 'place' for r in mine)
            execs = {(_shape(r[2]['m1']), _shape(r[2]['m2'])) for r in mine
                     if self.api[r[1]] == 'exec' and not r[2].get('late')}
            cands = []
            for f in fam[kind]:
                if f['name'] in used[kind]:
                    continue
                if need_f2 and f['f'][1] is None:
                    continue
                if late and not (f['cmd'] and f['cmd'][0] == 'late'):
                    continue
                if place and not f.get('place'):
                    continue
                score = 0
                if f['cmd'] and (f['cmd'][0], f['cmd'][1]) in execs:
                    score += 2
                    if schedule.get('family_hint') == 'ownname' and 'ownname' in f['kinds']:
                        score += 2
                if 'ownname' in f['kinds'] and ('lit', 'lit') not in execs:
                    continue                     # (only worth it for the command that expects the own name)
                if not late and f['cmd'] and f['cmd'][0] == 'late':
                    score -= 1
                cands.append((score, f))
            if not cands:
                raise MachineryFailure(f'no message family for {key} in {schedule}')
            best = max(sc for sc, _ in cands)
            f = rng.choice([f for sc, f in cands if sc == best])
            used[kind].add(f['name'])
            self.family[key] = f
            for idx in (0, 1):
                k = f['kinds'][idx]
                if k == 'ownname':
                    # the abstract value the command's caller asks for stands for the name we are logged in with
                    mine_k = next((int(r[2]['m2'][1]) for r in mine
                                   if self.api[r[1]] == 'exec' and _shape(r[2]['m2']) == 'lit'), 1)
                    other = rng.choice(['somebody else', 'Me', 'me2', 'ü'])
                    self.values[key + (idx,)] = {mine_k: OWN_NAME, 3 - mine_k: other}
                    self.other_name = other
                else:
                    self.values[key + (idx,)] = self._values(k, idx)
        # a caller that should go through execute() but whose message family has no command of its shape
        # makes the same request through create_*_response_future
        for r in regs:
            c, spec = r[1], r[2]
            if self.api[c] == 'exec':
                f = self.family[(_kind_of(spec['conn']), spec['cls'])]
                shape = ('late' if spec.get('late') else _shape(spec['m1']), _shape(spec['m2']))
                if not (f['cmd'] and (f['cmd'][0], f['cmd'][1]) == shape):
                    self.api[c] = 'fut'
            if self.api[c] == 'place' and (_shape(spec['m1']), _shape(spec['m2'])) != ('lit', 'any'):
                self.api[c] = 'fut'

    def _values(self, kind, idx):
        """Real values for the abstract field values 1 and 2.  Often one of the two is the "empty" value of its
        type ('' / 0 / [] ...): an expected value is a value like any other."""
        r = self.rng
        if kind is None:
            return {1: None, 2: None}
        if kind == 'ticket':
            return {1: None, 2: None}       # bound to the command's own ticket at run time
        if kind == 'str':
            a = r.choice(['alice', 'Bob', 'música', 'x y', 'room#1', 'dir\\sub', 'ü', 'q' * 40])
            vals, empty = {1: a, 2: a + r.choice(['2', '_', ' ', 'é'])}, ''
        elif kind == 'strlist':
            a = [r.choice(['rock', 'jazz', 'ambient'])]
            vals, empty = {1: a, 2: a + ['more']}, []
        elif kind == 'status':
            vals, empty = r.choice([{1: 1, 2: 2}, {1: 2, 2: 1}]), 0
        else:
            a = r.randrange(1, 2 ** 31 - 8)
            vals, empty = {1: a, 2: a + 1 + r.randrange(0, 5)}, 0
        if r.random() < 0.4:
            vals[r.choice([1, 2])] = empty
        return vals

    def fam(self, conn, cls):
        return self.family[(_kind_of(conn), cls)]

    def val(self, conn, cls, idx, v):
        return self.values[(_kind_of(conn), cls, idx)][v]


# ---------------------------------------------------------------------------
# one execution on the real client
# ---------------------------------------------------------------------------

_SETTINGS: dict[str, Any] = {}


def _settings(tmpdir):
    """One Settings object per process (building one costs as much as the rest of a run)."""
    if tmpdir not in _SETTINGS:
        _SETTINGS[tmpdir] = make_settings(OWN_NAME, port=LISTEN_PORT, obfuscated_port=0, download_dir=tmpdir)
    return _SETTINGS[tmpdir]


class _ErrLog(logging.Handler):
    def __init__(self, sink):
        super().__init__(level=logging.ERROR)
        self.sink = sink

    def emit(self, record):
        # an exception logged by the connection layer: the reader swallowed what handling a message raised
        # (DataConnection logs it and goes on); recognised by the exception, not by the text
        exc = record.exc_info[1] if record.exc_info else None
        if exc is not None:
            self.sink(type(exc).__name__)


class Execution:
    """Runs one schedule; `events` is the recorded trace."""

    def __init__(self, schedule: dict, seed: int, tmpdir: str):
        self.schedule = schedule
        self.rng = random.Random(seed)
        self.tmpdir = tmpdir
        self.events: list[dict] = []
        self.handled: list[Any] = []          # message objects in the order the client handled them
        self.tasks: dict[int, asyncio.Task] = {}
        self.deadline: dict[int, float] = {}
        self.peer_frames: dict[str, list] = {}
        self.req: dict[int, dict] = {}           # per caller: when it called, the timeout it asked for
        self.told: dict[int, set] = {}           # per caller: "due" / "maydue" already in the trace
        self.sent_logged: set[int] = set()
        self.place_path: dict[int, str] = {}
        self.gave_up: set[int] = set()
        self.probed: set[int] = set()
        self.edited_credentials = False
        self.hdl_done: set[int] = set()
        self.slowq: dict[str, list] = {}
        self.gates: dict[str, asyncio.Future] = {}
        self.callinfo: dict[int, tuple] = {}
        self.late_cls: dict[int, str] = {}
        self.closing = False
        self.sendfail: set[int] = set()

    # -- recording -------------------------------------------------------------
    def ev(self, **kw):
        self.events.append(kw)

    # -- main --------------------------------------------------------------------
    def run(self):
        lg = logging.getLogger('aioslsk.network.connection')
        top = logging.getLogger('aioslsk')
        handler = _ErrLog(lambda exc: self.ev(ev='err', exc=exc))
        saved = (logging.root.manager.disable, lg.level, lg.propagate, top.level)
        logging.disable(logging.NOTSET)
        top.setLevel(logging.CRITICAL + 10)
        lg.setLevel(logging.ERROR)
        lg.propagate = False
        lg.addHandler(handler)
        try:
            _, loop = vloop.run(self._main)
        finally:
            lg.removeHandler(handler)
            logging.disable(saved[0])
            lg.setLevel(saved[1])
            lg.propagate = saved[2]
            top.setLevel(saved[3])
        for ctx in loop.unhandled:
            exc = ctx.get('exception')
            self.ev(ev='err', exc='loop:' + (type(exc).__name__ if exc is not None else str(ctx.get('message'))[:60]))
        return self.events

    async def _main(self, loop):
        from aioslsk.events import MessageReceivedEvent
        from aioslsk.protocol.messages import PeerMessage
        from aioslsk.utils import ticket_generator

        self.loop = loop
        self.conc = Concretisation(self.schedule, self.rng)
        net = SimNet(loop).install()
        try:
            self.server = await ScriptedServer(net).start()
            from aioslsk.protocol import messages as M
            from aioslsk.protocol.primitives import UserStats
            from aioslsk.events import PeerInitializedEvent
            # like the real server: the client's own AddUser (tracking itself after login) is answered, so that
            # the registry of expected responses holds nothing of the library's own when the schedule starts
            self.server.handlers[M.AddUser.Request] = lambda srv, sess, msg: [M.AddUser.Response(
                msg.username, exists=True, status=2, user_stats=UserStats(0, 0, 0, 0), country_code='NL')]
            settings = _settings(self.tmpdir)
            self.client = client = make_client(settings)
            # the virtual clock is moved across requested timeouts of up to a minute: the connections' own read
            # timeouts (not this property's subject) are switched off
            client.network.server_connection.read_timeout = 0

            def no_read_timeout(event):
                event.connection.read_timeout = 0
            self._no_read_timeout = no_read_timeout
            client.events.register(PeerInitializedEvent, no_read_timeout)
            await client.start()
            await client.login()
            await vloop.settle(loop)
            self.network = client.network
            self.first_ticket = next(ticket_generator())
            # the peers connect to us and announce themselves (PeerInit)
            conns = set()
            for step in self.schedule['steps']:
                for st in step['stims']:
                    if st[0] == 'reg':
                        conns.add(st[2]['conn'])
                    elif st[0] == 'feed':
                        conns.update(m['conn'] for m in st[1])
            conns = sorted(conns)
            self.peer_eps = {}
            for name in conns:
                if name == 'S':
                    continue
                peer = ScriptedPeer(net, PEER_NAMES[name])
                ep = await peer.dial(LISTEN_PORT, typ='P', ticket=77)
                self.peer_eps[name] = ep
                self.peer_frames[name] = []
                loop.create_task(self._peer_reader(name, ep, PeerMessage), name=f'sim-peer-{name}')
            await vloop.settle(loop)
            self.server_sess = self.server.sessions[-1]

            async def on_message(event):
                # the last listener of the event: "msg" when the message reaches it, "hdl" when it returns (the
                # completion of the waiters follows in the same slot).  For the frames the schedule marks, it
                # is a slow application listener: it suspends until the schedule releases it.
                self.handled.append(event.message)
                j = len(self.handled)
                ab = self._abstract_message(event.message, event.connection)
                self.ev(ev='msg', **ab)
                q = self.slowq.get(ab['conn'])
                if q and q.pop(0):
                    gate = loop.create_future()
                    self.gates[ab['conn']] = gate
                    try:
                        await gate
                    finally:
                        self.gates.pop(ab['conn'], None)
                self.hdl_done.add(j)
                self.ev(ev='hdl', j=j)
            self._listener = on_message      # the bus holds listeners weakly
            client.events.register(MessageReceivedEvent, on_message, priority=1000)

            # environment choice: the (mutable) settings are edited while the session lives on - they hold the
            # credentials for the NEXT login; who we are logged in as does not change
            if self.conc.other_name is not None and self.rng.random() < 0.6:
                self.edited_credentials = True
                client.settings.credentials.username = self.conc.other_name
            self.t0 = loop.time()
            self.finished = loop.create_future()
            self.step_i = 0
            self.flushed = False
            self.ticks = 0
            loop.call_at(loop.time(), self._tick)
            await self.finished
            self.closing = True
            # the ticket-bearing command: the harness answered with the ticket it predicted; make sure the
            # request really carried it (otherwise the run says nothing - a harness problem, not a verdict)
            for c, (conn, api) in self.callinfo.items():
                if api == 'exec' and self.conc.fam(conn, self.late_cls.get(c, ''))['kinds'][0] == 'ticket' if c in self.late_cls else False:
                    seen = [getattr(m, 'ticket', None) for m in self.peer_frames.get(conn, [])
                            if type(m).__qualname__.startswith('PeerDirectoryContentsRequest')]
                    if seen and seen[0] != self.first_ticket:
                        raise MachineryFailure(f'ticket of the directory request is {seen[0]}, predicted {self.first_ticket}')
            client.events.unregister(MessageReceivedEvent, on_message)
            await client.stop()
        finally:
            if self.edited_credentials:
                self.client.settings.credentials.username = OWN_NAME      # (the Settings object is shared)
            net.uninstall()

    async def _peer_reader(self, name, ep, PeerMessage):
        while True:
            frame = await ep.read_frame()
            if frame is None:
                return
            try:
                msg = PeerMessage.deserialize_request(frame)
            except Exception:
                msg = frame
            self.peer_frames[name].append(msg)

    # -- abstraction of what the client handled ----------------------------------------
    def _abstract_message(self, message, conn):
        """Project a handled message onto (conn, cls, f1, f2) using the run's concretisation; anything
        the harness did not send is reported as class 'other'."""
        from aioslsk.network.connection import PeerConnection, ServerConnection
        if isinstance(conn, ServerConnection):
            cname = 'S'
        elif isinstance(conn, PeerConnection):
            cname = next((k for k, v in PEER_NAMES.items() if v == conn.username), 'P?')
        else:
            cname = '?'
        for (kind, cls), fam in self.conc.family.items():
            if kind == _kind_of(cname) and type(message) is fam['cls']:
                out = dict(conn=cname, cls=cls)
                for idx, key in ((0, 'f1'), (1, 'f2')):
                    fname = fam['f'][idx]
                    if fname is None:
                        out[key] = 1
                        continue
                    actual = getattr(message, fname)
                    vals = self._vals(cname, cls, idx)
                    out[key] = next((a for a in (1, 2) if vals[a] == actual), 0)
                return out
        return dict(conn=cname, cls='other', f1=0, f2=0)

    def _vals(self, conn, cls, idx):
        vals = dict(self.conc.values[(_kind_of(conn), cls, idx)])
        if self.conc.fam(conn, cls)['kinds'][idx] == 'ticket':
            base = self.first_ticket
            vals = {1: base, 2: base + 1000}
        return vals

    # -- the driver: last handle of every loop iteration ------------------------------------
    def _tick(self):
        try:
            self._tick_inner()
        except BaseException as exc:  # harness bug: surface it
            if not self.finished.done():
                self.finished.set_exception(exc)

    def _tick_inner(self):
        loop = self.loop
        self.ticks += 1
        if self.ticks > 4000:
            raise MachineryFailure('driver did not finish')
        quiescent = len(loop._ready) == 0
        if quiescent:
            # a negotiation that is still going on when the loop has quiesced: its send is over, its request made
            news = sorted(c for c, (conn, api) in self.callinfo.items()
                          if api == 'place' and c not in self.sent_logged and not self.tasks[c].done())
            for c in news:
                self.sent_logged.add(c)
                self.ev(ev='sent', c=c)
            if news or not (self.events and self.events[-1]['ev'] == 'q'):
                futs = list(self.network._expected_response_futures)
                self.ev(ev='q', n=len(futs), ndone=sum(1 for f in futs if f.done()))
        steps = self.schedule['steps']
        if self.step_i < len(steps):
            step = steps[self.step_i]
            if step.get('quiet') and not quiescent:
                pass                               # the behaviour acts at a quiescent moment: wait for it
            else:
                self.step_i += 1
                for stim in step['stims']:
                    self._stimulus(stim)
        elif not quiescent:
            pass
        elif any(not g.done() for g in self.gates.values()):
            for g in list(self.gates.values()):      # the end: every suspended listener is let go
                if not g.done():
                    g.set_result(None)
        else:
            # the end: whoever still waits is taken to its deadline, one after the other: first to just
            # before it (nothing may happen), then past it (the caller gets its timeout)
            pending = [(self._target(c), c) for c, t in sorted(self.tasks.items())
                       if not t.done() and c not in self.gave_up and c in self.req]
            pending = sorted((w[1], w[0], c) for w, c in pending if w is not None)
            if not pending:
                self.finished.set_result(None)
                return
            past, before, c = pending[0]
            if c not in self.probed and before > loop._vtime:
                self.probed.add(c)
                self._advance_clock(before)
            else:
                self.gave_up.add(c)                  # (if it is still there afterwards, that is for TLC to judge)
                self._advance_clock(max(past, loop._vtime), force=[c])
        loop.call_at(loop.time(), self._tick)

    def _timer_of(self, c) -> Optional[float]:
        """Deadline of the timeout caller c is currently inside of (asyncio.Timeout arms a TimerHandle whose
        callback is bound to the Timeout object, which knows its task), None if it has none."""
        task = self.tasks.get(c)
        for h in self.loop._scheduled:
            if h.cancelled():
                continue
            owner = getattr(getattr(h, '_callback', None), '__self__', None)
            if owner is not None and getattr(owner, '_task', None) is task and isinstance(owner, asyncio.Timeout):
                return h.when()
        return None

    def _target(self, c):
        """(just before, just past) the deadline to take caller c to at a quiescent moment: the one it asked
        for - for execute(), whose timeout starts when its send is over (it is, at a quiescent moment): not
        before call + timeout, not after now + timeout; for the negotiation: the library's own timeout."""
        r = self.req[c]
        if r['api'] in ('wait', 'fut'):
            return r['tcall'] + r['T'] - 0.5, r['tcall'] + r['T'] + 0.25
        if r['api'] == 'exec':
            return r['tcall'] + r['T'] - 0.5, self.loop._vtime + r['T'] + 0.25
        w = self._timer_of(c)
        return None if w is None else (w - 0.5, w + 0.25)

    def _advance_clock(self, to: float, force=()):
        """Move the virtual clock.  Every caller is told in the trace what that means for the timeout IT ASKED
        FOR: "due" when its deadline is certainly passed, "maydue" when only the earliest possible one is (the
        timeout of execute() starts when the send is over, which is not observable)."""
        prev = self.loop._vtime
        hit = []
        for c, t in sorted(self.tasks.items()):
            r = self.req.get(c)
            if t.done() or r is None:
                continue
            timer = self._timer_of(c)
            if r['api'] in ('wait', 'fut'):
                earliest = latest = r['tcall'] + r['T']
            elif r['api'] == 'exec':
                earliest = r['tcall'] + r['T']
                latest = prev + r['T'] if (timer is not None or c in force) else float('inf')
            else:                                # the negotiation: the library's own timeout
                earliest = latest = timer if timer is not None else (prev if c in force else float('inf'))
            told = self.told.setdefault(c, set())
            if to >= latest and 'due' not in told:
                told.add('due')
                hit.append((latest, c, 'due'))
            elif to >= earliest and not told:
                told.add('maydue')
                hit.append((earliest, c, 'maydue'))
        for _, c, what in sorted(hit):
            self.ev(ev='stim', c=c, what=what)
        self.loop._vtime = max(prev, to)

    def _stimulus(self, stim):
        loop = self.loop
        kind = stim[0]
        if kind == 'reg':
            c, spec, api, fails = stim[1:5]
            tm = stim[5] if len(stim) > 5 else 'short'
            self.tasks[c] = loop.create_task(self._caller(c, spec, api, fails, tm), name=f'caller-{c}')
        elif kind == 'release':
            gate = self.gates.get(stim[1])
            if gate is not None and not gate.done():
                gate.set_result(None)
        elif kind == 'feed':
            msgs = stim[1]
            conn = msgs[0]['conn']
            sl = stim[2] if len(stim) > 2 else 0
            self.slowq.setdefault(conn, []).extend((i + 1) == sl for i in range(len(msgs)))
            data = b''
            for m in msgs:
                fam = self.conc.fam(conn, m['cls'])
                a = self._vals(conn, m['cls'], 0)[m['f1']]
                b = self._vals(conn, m['cls'], 1)[m['f2']]
                self.uid = getattr(self, 'uid', 0) + 1
                data += fam['make'](a, b, self.uid).serialize()
            ep = self.server_sess.ep if conn == 'S' else self.peer_eps[conn]
            ep.send(data)                           # one write -> one feed_data with all frames
        elif kind == 'cancel':
            c = stim[1]
            t = self.tasks.get(c)
            if t is not None and not t.done():
                self.ev(ev='stim', c=c, what='cancel')
                t.cancel()
        elif kind in ('due', 'elapse'):
            c = stim[1]
            t = self.tasks.get(c)
            if t is not None and not t.done() and c in self.req:
                r = self.req[c]
                when = r['tcall'] + r['T'] if r['api'] in ('wait', 'fut') else self._timer_of(c)
                if when is not None:
                    if kind == 'due':
                        self._advance_clock(max(when, loop._vtime) + 0.25)
                    elif when - 0.5 > loop._vtime:
                        self.probed.add(c)
                        self._advance_clock(when - 0.5)
        else:
            raise MachineryFailure(f'unknown stimulus {stim}')

    # -- callers -----------------------------------------------------------------------------
    def _fields(self, spec):
        """The `fields` matcher dict of the real API for an abstract spec (insertion order m1, m2)."""
        fam = self.conc.fam(spec['conn'], spec['cls'])
        fields = {}
        for idx, key in ((0, 'm1'), (1, 'm2')):
            m = spec[key]
            if m == 'any':
                continue
            fname = fam['f'][idx]
            if fname is None:
                raise MachineryFailure(f'family {fam["name"]} has no field {idx}')
            vals = self._vals(spec['conn'], spec['cls'], idx)
            if m in ('v1', 'v2'):
                fields[fname] = vals[int(m[1])]
            elif m in ('p1', 'p2'):
                want = vals[int(m[1])]
                fields[fname] = (lambda w: (lambda actual: actual == w))(want)
            else:
                raise MachineryFailure(f'matcher {m}')
        return fields

    def _timeout_for(self, c, tm):
        """The timeout caller c asks for.  "short": below the library's built-in 10 s - deadlines are spaced one
        virtual second apart in the order the schedule expires them (callers it never expires come last);
        "long": 20 s more."""
        order = self.schedule.get('due_order', [])
        rank = order.index(c) + 1 if c in order else len(order) + 1 + c
        when = self.t0 + rank * 1.0
        timeout = min(max(when - self.loop.time(), 0.5), 9.0)
        return timeout + 20.0 if tm == 'long' else timeout

    def _index_of(self, message) -> int:
        for i, m in enumerate(self.handled):
            if m is message:
                return i + 1
        return 0

    async def _caller(self, c, spec, api, fails, tm='short'):
        import inspect
        from async_timeout import timeout as atimeout
        network = self.network
        fam = self.conc.fam(spec['conn'], spec['cls'])
        kind = _kind_of(spec['conn'])
        peer = PEER_NAMES.get(spec['conn'])
        real_api = self.conc.api.get(c, api)
        cmd = transfer = None
        if real_api == 'exec':
            shape = ('late' if spec.get('late') else _shape(spec['m1']), _shape(spec['m2']))
            a = None if shape[0] in ('any', 'late') else self._vals(spec['conn'], spec['cls'], 0)[int(spec['m1'][1])]
            b = None if shape[1] == 'any' else self._vals(spec['conn'], spec['cls'], 1)[int(spec['m2'][1])]
            cmd = _probe(fam['cmd'][2](a, b, peer))
        if real_api == 'wait':
            site = 'wait_for_server_message' if kind == 'S' else 'wait_for_peer_message'
            func = network.wait_for_server_message if kind == 'S' else network.wait_for_peer_message
        elif real_api == 'fut':
            site = 'create_server_response_future' if kind == 'S' else 'create_peer_response_future'
            func = None
        elif real_api == 'place':
            from aioslsk.transfer.model import Transfer, TransferDirection
            site = 'TransferManager.request_place_in_queue'
            func = None
            self.place_path[c] = self._vals(spec['conn'], spec['cls'], 0)[int(spec['m1'][1])]
            transfer = Transfer(peer, self.place_path[c], TransferDirection.DOWNLOAD)
        else:
            site = 'execute:' + type(cmd).__mro__[1].__name__
            func = self.client.execute
        fields = self._fields(spec) if real_api in ('wait', 'fut') else None
        writer = None
        sends = real_api in ('exec', 'place')
        if sends and fails:
            writer = (self.server_sess.ep.link.writers[0] if kind == 'S'
                      else self.peer_eps[spec['conn']].link.writers[1])
        fails = bool(fails and sends)
        # the timeout: the value asked for, or - sometimes, for the long ones - none at all, which means the
        # default documented in the signature of the call
        timeout = self._timeout_for(c, tm)
        kwargs = dict(timeout=timeout)
        if func is not None and tm == 'long' and self.rng.random() < 0.4:
            default = inspect.signature(func).parameters['timeout'].default
            if isinstance(default, (int, float)) and default >= 10:
                timeout, kwargs = float(default), {}
        self.req[c] = dict(api=real_api, tcall=self.loop.time(), T=None if real_api == 'place' else timeout)
        self.callinfo[c] = (spec['conn'], real_api)
        if spec.get('late'):
            self.late_cls[c] = spec['cls']
        if fails:
            self.sendfail.add(c)
        self.ev(ev='call', c=c, conn=spec['conn'], cls=spec['cls'], m1=spec['m1'], m2=spec['m2'],
                api=real_api, late=bool(spec.get('late')), tm=tm, site=site, fails=fails,
                deferred=real_api == 'place')
        # (for the negotiation, which returns a number, not the reply: the messages it can have been completed
        # with are those still being handled now and the later ones)
        open_at_call = set(range(1, len(self.handled) + 1)) - self.hdl_done
        called_at = len(self.handled)
        try:
            if real_api == 'wait':
                if kind == 'S':
                    msg = await network.wait_for_server_message(fam['cls'], fields=fields, **kwargs)
                else:
                    msg = await network.wait_for_peer_message(peer, fam['cls'], fields=fields, **kwargs)
            elif real_api == 'fut':
                if kind == 'S':
                    fut = network.create_server_response_future(fam['cls'], fields=fields)
                else:
                    fut = network.create_peer_response_future(peer, fam['cls'], fields=fields)
                async with atimeout(timeout):
                    conn, msg = await fut
            else:
                if writer is not None:
                    writer.fail_writes = ConnectionResetError(104, 'Connection reset by peer')
                    # writes fail for the whole connection: who is still sending on it is told so too
                    for c2, (conn2, api2) in self.callinfo.items():
                        t2 = self.tasks.get(c2)
                        if (c2 != c and conn2 == spec['conn'] and api2 in ('exec', 'place') and t2 is not None
                                and not t2.done() and self._timer_of(c2) is None and c2 not in self.sendfail):
                            self.sendfail.add(c2)
                            self.ev(ev='stim', c=c2, what='sendfail')
                if real_api == 'exec':
                    await self.client.execute(cmd, response=True, **kwargs)
                    msg = cmd.seen
                else:
                    place = await self.client.transfers.request_place_in_queue(transfer)
                    # the reply it was completed with: the first handled one since the call that says so
                    msg = next((m for k, m in enumerate(self.handled, start=1)
                                if (k > called_at or k in open_at_call) and type(m) is fam['cls']
                                and m.filename == self.place_path[c] and m.place == place), None)
        except asyncio.CancelledError:
            if not self.closing:                     # (not the harness tearing the loop down)
                self.ev(ev='out', c=c, kind='exc', j=0, exc='CancelledError')
            raise
        except BaseException as exc:   # an exception of the code under test is an observation
            name = type(exc).__name__
            if real_api == 'place' and name == 'RequestPlaceFailedError':
                # the documented error of the negotiation for both a failed send and a timeout: told apart by
                # what it was raised from
                inner = exc.__cause__ or exc.__context__
                name = type(inner).__name__ if inner is not None else name
            if c in self.sendfail and name in ('ConnectionWriteError', 'PeerConnectionError', 'ConnectionResetError'):
                name = 'SendError'
            self.ev(ev='out', c=c, kind='exc', j=0, exc=name)
            return
        self.ev(ev='out', c=c, kind='result', j=self._index_of(msg), exc='')


def _probe(cmd):
    """The real command, remembering which response object execute() handed to handle_response."""
    base = type(cmd)

    class Probe(base):  # type: ignore[misc, valid-type]
        seen = None

        def handle_response(self, client, response):
            self.seen = response
            return super().handle_response(client, response)

    cmd.__class__ = Probe
    return cmd


# ---------------------------------------------------------------------------
# TLC behaviours -> schedules
# ---------------------------------------------------------------------------

_LABEL = re.compile(r'^S?(Reg|Feed|Cancel|Due|Elapse|Release|DStep|Observe|Run)(?:\((.*)\))?$', re.S)


def _spec_of(rec) -> dict:
    return dict(conn=str(rec['conn']), cls=str(rec['cls']), m1=str(rec['m1']), m2=str(rec['m2']),
                late=bool(rec.get('late', False)), pl=bool(rec.get('pl', False)))


def schedule_of(labels) -> Optional[dict]:
    """Project a behaviour (action labels) onto what the environment does at which iteration boundary."""
    steps: list[dict] = []
    cur = dict(quiet=False, stims=[])
    due_order = []
    for lab in labels:
        m = _LABEL.match(lab.strip())
        if not m:
            continue
        name, args = m.group(1), m.group(2)
        if name == 'Run':
            continue
        if name == 'Observe':
            if not cur['stims']:
                cur['quiet'] = True
            continue
        if name == 'DStep':
            steps.append(cur)
            cur = dict(quiet=False, stims=[])
            continue
        vals = tlc.parse_value('<<' + args + '>>')
        if name == 'Reg':
            c, s, api, fails, tm = vals
            cur['stims'].append(('reg', int(c), _spec_of(s), str(api), bool(fails), str(tm)))
        elif name == 'Feed':
            b, sl = vals
            cur['stims'].append(('feed', [dict(conn=str(x['conn']), cls=str(x['cls']), f1=int(x['f1']), f2=int(x['f2']))
                                          for x in b], int(sl)))
        elif name == 'Release':
            cur['stims'].append(('release', str(vals[0])))
        elif name == 'Cancel':
            cur['stims'].append(('cancel', int(vals[0])))
        elif name == 'Elapse':
            cur['stims'].append(('elapse', int(vals[0])))
        elif name == 'Due':
            cur['stims'].append(('due', int(vals[0])))
            due_order.append(int(vals[0]))
    if cur['stims']:
        steps.append(cur)
    while steps and not steps[-1]['stims']:
        steps.pop()
    if not any(st['stims'] for st in steps):
        return None
    return dict(steps=steps, due_order=due_order)


def _key(sched: dict) -> str:
    return repr((sched['steps'], sched.get('due_order'), sched.get('api_mix'), sched.get('family_hint')))


_SIM_LABEL = re.compile(r'^\\\* <(.*?)(?: line \d+[^>]*)?>$', re.M)


def simulate_schedules(cfg: str, num: int, depth: int, seed: int, timeout: float = 900):
    """Behaviours of MCSim (labels only; tlc.simulate_behaviours would parse every state)."""
    d = tempfile.mkdtemp(prefix='c12sim-')
    try:
        res = tlc.run_tlc('ExpectedResponse/MCSim.tla', cfg, simulate=f'file={d}/tr,num={num}', depth=depth,
                          workers=1, seed=seed, timeout=timeout, parse_traces=False)
        if res.issues:
            raise MachineryFailure(f'simulation of {cfg} reported {[(i.kind, i.name, i.message[:300]) for i in res.issues]}')
        out = []
        for fn in sorted(os.listdir(d)):
            with open(os.path.join(d, fn), encoding='utf8') as fh:
                txt = fh.read()
            sc = schedule_of(_SIM_LABEL.findall(txt))
            if sc is None:
                continue
            # what the model says each caller got by the end of the behaviour (informational, see _run)
            try:
                last = tlc.parse_state(re.findall(r'STATE_\d+ == ?\n(.*?)\n\n', txt + '\n\n', re.S)[-1])
                sc = dict(sc, model_out=[[str(o['kind']), int(o['j']), str(o['exc'])] for o in last['out']])
            except Exception:
                pass
            out.append(sc)
        return out, res
    finally:
        shutil.rmtree(d, ignore_errors=True)


_EDGE = re.compile(r'^(-?\d+) -> (-?\d+) \[label="((?:[^"\\]|\\.)*)"')


def _dump_edges(cfg: str, timeout: float):
    """tlc.dump_graph without reading the (large) state labels: edges and the initial states only."""
    d = tempfile.mkdtemp(prefix='c12dot-')
    try:
        path = os.path.join(d, 'g')
        res = tlc.run_tlc(SPEC, cfg, dump_dot=path, timeout=timeout,
                          workers=max(2, min(4, int(os.environ.get('VERIF_TLC_WORKERS', '4')))))
        g = tlc.Graph({}, [], [])
        with open(path + '.dot', encoding='utf8') as fh:
            for line in fh:
                head = line[:44]
                if ' -> ' in head:
                    m = _EDGE.match(line)
                    if m:
                        g.edges.append((m.group(1), m.group(3).replace('\\"', '"').replace('\\\\', '\\'), m.group(2)))
                elif ' [label=' in head:
                    nid = head.split(' ', 1)[0]
                    g.states[nid] = None
                    if 'style = filled' in line[-24:]:
                        g.init.append(nid)
        return g, res
    finally:
        shutil.rmtree(d, ignore_errors=True)


def cover_schedules(cfg: str, timeout: float = 900):
    """Edge cover of the exhaustively enumerated state graph of `cfg`, projected onto schedules."""
    g, res = _dump_edges(cfg, timeout)
    if not res.ok:
        raise MachineryFailure(f'graph dump of {cfg} failed: {[(i.kind, i.name, i.message[:300]) for i in res.issues]}')
    if not g.init or not g.edges:
        raise MachineryFailure(f'graph dump of {cfg} could not be read')
    paths = tlc.path_cover(_canonical(g))
    out = {}
    for p in paths:
        sc = schedule_of([e[1] for e in p])
        if sc is not None:
            out.setdefault(_key(sc), sc)
    return [out[k] for k in sorted(out)], res, len(g.states), len(g.edges), len(paths)


def _canonical(g):
    """TLC's node ids (fingerprints) and the order of the dump differ from run to run; renumber the states
    in BFS order with out-edges sorted by label (labels are unique per source state), so that the edge
    cover - and with it the set of schedules - is the same every time."""
    from collections import defaultdict, deque
    out = defaultdict(list)
    for s, lab, d in g.edges:
        out[s].append((lab, d))
    ids = {}
    dq = deque()
    for i in sorted(g.init):
        ids[i] = len(ids)
        dq.append(i)
    while dq:
        s = dq.popleft()
        for lab, d in sorted(out[s]):
            if d not in ids:
                ids[d] = len(ids)
                dq.append(d)
    edges = sorted((ids[s], lab, ids[d]) for s, lab, d in g.edges if s in ids and d in ids)
    return tlc.Graph({str(v): None for v in ids.values()}, [str(ids[i]) for i in sorted(g.init)],
                     [(str(a), lab, str(b)) for a, lab, b in edges])


# ---------------------------------------------------------------------------
# trace validation helpers
# ---------------------------------------------------------------------------

_ACCEPT = re.compile(r'<<\s*"ACCEPT",\s*(\d+),\s*(\{[^}]*\})\s*>>')


def classify_traces(traces: list, timeout: float = 900) -> tuple[dict, Any]:
    """Run the trace spec WITHOUT the properties as constraints: every followable trace reaches Done and
    prints the set of property violations (by site) TLC evaluated along it.  Same contract as
    tlc.validate_traces, but tolerant of PrintT wrapping long values over several lines."""
    d = tempfile.mkdtemp(prefix='c12cls-')
    try:
        f = os.path.join(d, 'batch.json')
        with open(f, 'w') as fh:
            import json
            json.dump(traces, fh)
        res = tlc.run_tlc(TRACE, 'TraceClassify.cfg', workers=4, deadlock=False, env={'TRACE_FILE': f},
                          timeout=timeout, parse_traces=False)
        if res.issues or not res.finished:
            raise MachineryFailure(f'classification run failed: {[(i.kind, i.name, i.message[:300]) for i in res.issues]}')
        out = {}
        for m in _ACCEPT.finditer(' '.join(res.prints)):
            out[int(m.group(1))] = set(tlc.parse_value(m.group(2)))
        return out, res
    finally:
        shutil.rmtree(d, ignore_errors=True)


def _signature(trace):
    return tuple((e['ev'], e.get('c'), e.get('conn'), e.get('cls'), e.get('m1'), e.get('m2'), e.get('api'),
                  e.get('f1'), e.get('f2'), e.get('what'), e.get('kind'), e.get('j'), e.get('exc'), e.get('ndone'))
                 for e in trace)


def _corruptions(trace):
    """Recorded traces with one field falsified; each must be rejected."""
    out = []
    for i, e in enumerate(trace):
        if e['ev'] == 'out' and e['kind'] == 'result':
            bad = copy.deepcopy(trace)
            bad[i]['j'] = 0                        # "returned something that is not a handled message"
            out.append(('result-not-a-handled-message', bad))
            bad = copy.deepcopy(trace)
            del bad[i]                               # the answered caller never returns
            out.append(('answered-caller-never-returns', bad))
            bad = copy.deepcopy(trace)
            bad.insert(i + 1, copy.deepcopy(trace[i]))
            out.append(('second-outcome', bad))
            break
    for i, e in enumerate(trace):
        if e['ev'] == 'out' and e['exc'] == 'TimeoutError':
            bad = copy.deepcopy(trace)
            bad[i]['exc'] = 'InvalidStateError'
            out.append(('timeout-becomes-InvalidStateError', bad))
            bad = copy.deepcopy(trace)
            bad[i]['exc'] = 'CancelledError'
            out.append(('timeout-becomes-CancelledError', bad))
            break
    for i, e in enumerate(trace):
        if e['ev'] == 'msg':
            bad = copy.deepcopy(trace)
            bad.insert(i + 1, dict(ev='err', exc='InvalidStateError'))
            out.append(('error-during-callback', bad))
            break
    for i in range(len(trace) - 1, -1, -1):
        if trace[i]['ev'] == 'q':
            bad = copy.deepcopy(trace)
            bad[i]['ndone'] = 1
            out.append(('done-waiter-left-in-list', bad))
            break
    # a caller answered by a message of the wrong class / peer / field value
    for i, e in enumerate(trace):
        if e['ev'] == 'out' and e['kind'] == 'result' and e['j'] > 0:
            msgs = [k for k, x in enumerate(trace) if x['ev'] == 'msg']
            k = msgs[e['j'] - 1]
            for fld, val in (('cls', 'Z'), ('conn', 'P2' if trace[k]['conn'] != 'P2' else 'P1')):
                bad = copy.deepcopy(trace)
                bad[k][fld] = val
                out.append((f'answer-with-other-{fld}', bad))
            break
    return out


# ---------------------------------------------------------------------------
# the check
# ---------------------------------------------------------------------------

CODE_CFGS = {
    'MC_code_F1_set_exception_on_cancelled.cfg': 'TimeoutIsTimeout',
    'MC_code_F2_set_result_on_done.cfg': 'DeliveryUnbroken',
    'MC_code_F3_predicate_ends_matching.cfg': 'OnlyMatching',
    'MC_code_F4_ticket_after_register.cfg': 'AllAnsweredCompleted',
    'MC_code_F5_waiter_kept_when_send_cancelled.cfg': 'NoResidue',
}

# designs that are not the pinned code's but were tried against the check (seeded changes): same treatment
DEV_CFGS = {
    'MC_dev_snapshot_at_arrival.cfg': 'DeliveryUnbroken',
    'MC_dev_timeout_not_forwarded.cfg': 'TimeoutIsTimeout',
    'MC_dev_timeout_not_forwarded_long.cfg': 'TimeoutIsTimeout',
    'MC_dev_negotiation_registers_first.cfg': 'NoResidue',
}

ACTIONS = ['Reg', 'Feed', 'Cancel', 'Due', 'Observe', 'DStep', 'Run']


def replay(chk: Check, data: dict):
    """`./check C12 --replay PATH`: re-execute the schedule of a replay file (same concretisation seed) on the
    current tree and let TLC judge the new trace."""
    meta = (data.get('replay') or {}).get('meta') or {}
    sched = meta.get('schedule')
    if not sched:
        raise MachineryFailure('replay file has no schedule')
    sched = _from_json(sched)
    seed = int(meta.get('seed', 0))
    tmp = tempfile.mkdtemp(prefix='c12-')
    try:
        trace = Execution(sched, seed, tmp).run()
    finally:
        shutil.rmtree(tmp, ignore_errors=True)
    for e in trace:
        print('  ', e)
    chk.count(_signature(trace))
    _judge(chk, [trace], [dict(schedule=sched, seed=seed, source='replay')])


def _from_json(sched):
    steps = []
    for st in sched['steps']:
        stims = []
        for s in st['stims']:
            s = list(s)
            stims.append(tuple(s))
        steps.append(dict(quiet=bool(st.get('quiet')), stims=stims))
    return dict(steps=steps, due_order=list(sched.get('due_order', [])), api_mix=sched.get('api_mix'),
                family_hint=sched.get('family_hint'))


def _judge(chk: Check, traces, metas):
    """Direction B: TLC decides.  Trace.cfg has the properties as constraints (accepted iff the whole
    trace can be followed without breaking one); rejected traces are classified by a second TLC run."""
    v = tlc.validate_traces(TRACE, 'Trace.cfg', traces, max_diag=0, timeout=1500, workers=4)
    chk.cov['traces_validated_against_impl'] += v.n
    chk.add_trace_run(v.result)
    chk.log(f'trace validation: {len(v.accepted)} accepted, {len(v.rejected)} rejected')
    if not v.rejected:
        return v
    rej = sorted(v.rejected)
    marks, cres = classify_traces([traces[t - 1] for t in rej])
    chk.add_trace_run(cres)
    diagnosed = 0
    hist: dict[str, int] = {}
    for mk in marks.values():
        for name in mk:
            hist[name] = hist.get(name, 0) + 1
    chk.log('violations by fingerprint: ' + '; '.join(f'{k} x{n}' for k, n in sorted(hist.items())))
    chk.cov['violations_by_fingerprint'] = hist
    for k, tid in enumerate(rej, start=1):
        mk = marks.get(k)
        meta = metas[tid - 1]
        replay = dict(trace=traces[tid - 1], meta=meta)
        if mk:
            for name in sorted(mk):
                chk.violation(f'C12:{name}', f'trace {tid} ({meta.get("source")}): TLC evaluates {name.split(":")[0]} to FALSE; '
                              f'all violations on this trace: {sorted(mk)}', replay)
            continue
        # rejected although no property is marked, or not even followable: ask TLC where
        if diagnosed < 3:
            info = tlc.diagnose_trace(TRACE, 'TraceDiag.cfg', traces[tid - 1])
            diagnosed += 1
        else:
            info = dict(kind='rejected', name='?', at=None, event=None)
        ev = info.get('event') or {}
        fp = (f"C12:{info.get('name')}" if info.get('kind') == 'property'
              else f"C12:unexplained-event:{ev.get('ev')}" if info.get('kind') == 'unexplained_event'
              else 'C12:rejected-trace')
        chk.violation(fp, f"trace {tid} {info.get('kind')} {info.get('name')} at event #{info.get('at')} {ev}", replay)
    return v


def _tlc_jobs(chk: Check, thorough: bool):
    """All TLC runs that produce models / schedules, run concurrently (each is its own JVM)."""
    from concurrent.futures import ThreadPoolExecutor
    w = max(2, min(4, int(os.environ.get('VERIF_TLC_WORKERS', '4'))))
    jobs = {}
    with ThreadPoolExecutor(max_workers=5 if not thorough else 3) as pool:
        def mc(cfg):
            return tlc.model_check(SPEC, cfg, expect_actions=ACTIONS, workers=w, timeout=3000)
        jobs['wait2'] = pool.submit(mc, 'MC_wait2.cfg')
        jobs['exec'] = pool.submit(mc, 'MC_exec2.cfg' if thorough else 'MC_exec1.cfg')
        jobs['match'] = pool.submit(cover_schedules, 'MC_match.cfg')
        jobs['slow2'] = pool.submit(cover_schedules, 'MC_slow2.cfg')
        jobs['time2'] = pool.submit(cover_schedules, 'MC_time2.cfg')
        jobs['place2'] = pool.submit(cover_schedules, 'MC_place2.cfg')
        jobs['own1'] = pool.submit(cover_schedules, 'MC_own1.cfg')
        if thorough:
            jobs['pair'] = pool.submit(cover_schedules, 'MC_pair.cfg', 3000)
            jobs['sim4'] = pool.submit(simulate_schedules, 'MC_sim4.cfg', 2500, 110, chk.seed + 11, 3000)
            jobs['sim3'] = pool.submit(simulate_schedules, 'MC_sim3.cfg', 1500, 100, chk.seed + 12, 3000)
            jobs['mixed2'] = pool.submit(mc, 'MC_mixed2.cfg')
            jobs['wait3'] = pool.submit(mc, 'MC_wait3.cfg')
            jobs['slow2b'] = pool.submit(tlc.model_check, SPEC, 'MC_slow2b.cfg', expect_actions=ACTIONS + ['Release'],
                                         workers=w, timeout=3000)
        else:
            jobs['pair_due'] = pool.submit(cover_schedules, 'MC_pair_due.cfg')
            jobs['pair_cancel'] = pool.submit(cover_schedules, 'MC_pair_cancel.cfg')
            jobs['sim3'] = pool.submit(simulate_schedules, 'MC_sim3.cfg', 350, 100, chk.seed + 12)
        for cfg in list(CODE_CFGS) + list(DEV_CFGS):
            jobs[cfg] = pool.submit(tlc.run_tlc, SPEC, cfg, workers=2, timeout=900)
        return {k: f.result() for k, f in jobs.items()}


def run(chk: Check, args):
    thorough = chk.tier == 'thorough'
    chk.cov['rule'] = (
        'a case = one schedule (what the environment does at which loop-iteration boundary: start caller / write '
        'batch of frames, possibly one handled by a suspending listener / release it / cancel / expire timeout) '
        'projected from a TLC behaviour (edge covers of the enumerated state graphs MC_match, MC_pair* and MC_slow2, '
        'simulation of MCSim with 3-4 callers, the counterexamples of the code-position and deviating-design '
        'configs), executed with one seeded concretisation (real message classes, commands, field '
        'values, API variant) on a real SoulSeekClient in virtual time; distinct = distinct recorded traces; '
        'non-trivial = the trace has a caller and at least one handled message, cancellation or expiry')
    tmp = tempfile.mkdtemp(prefix='c12-')
    try:
        _run(chk, thorough, tmp)
    finally:
        shutil.rmtree(tmp, ignore_errors=True)


def _run(chk: Check, thorough: bool, tmp: str):
    res = _tlc_jobs(chk, thorough)

    # ---- design model ------------------------------------------------------------
    chk.add_model('ExpectedResponse 2 callers wait_for/create (MC_wait2, exhaustive)', res['wait2'])
    chk.add_model(f'ExpectedResponse 2 callers execute ({"MC_exec2" if thorough else "MC_exec1"}, exhaustive)', res['exec'])
    if thorough:
        chk.add_model('ExpectedResponse 2 callers peers+ticket command (MC_mixed2, exhaustive)', res['mixed2'])
        chk.add_model('ExpectedResponse 3 callers (MC_wait3, exhaustive)', res['wait3'])
        chk.add_model('ExpectedResponse 2 callers, slow listener, 2 messages (MC_slow2b, exhaustive)', res['slow2b'])
    for cfg, inv in list(CODE_CFGS.items()) + list(DEV_CFGS.items()):
        r = res[cfg]
        hit = any(i.name == inv for i in r.issues)
        key = 'model_in_code_position_violates' if cfg in CODE_CFGS else 'deviating_design_violates'
        chk.cov['binding_selftest'][f'{key}:{cfg[7:-4].lstrip("_")}'] = f'{inv}: {hit}'
        if not hit:
            raise MachineryFailure(f'{cfg} does not violate {inv}: {[(i.kind, i.name) for i in r.issues]}')

    # ---- schedules ---------------------------------------------------------------
    scheds: list[tuple[dict, str]] = []
    seen = set()

    def add(sc, source, api_mix=None):
        sc = dict(sc)
        if api_mix:
            sc['api_mix'] = api_mix
        k = _key(sc)
        if k not in seen:
            seen.add(k)
            scheds.append((sc, source))

    # the counterexamples of the code-position models always run: if the tree has the defect, they show it
    for cfg in list(CODE_CFGS) + list(DEV_CFGS):
        for iss in res[cfg].issues:
            sc = schedule_of([lab for lab, _ in iss.trace])
            if sc:
                add(sc, 'cex:' + cfg[7:-4].lstrip('_'))
    for name in ('match', 'pair', 'pair_due', 'pair_cancel', 'slow2', 'time2', 'place2', 'own1'):
        if name not in res:
            continue
        sc_list, r, ns, ne, npaths = res[name]
        chk.add_model(f'ExpectedResponse MC_{name} (exhaustive, graph dumped)', r)
        chk.cov[f'graph_{name}'] = dict(states=ns, edges=ne, cover_paths=npaths, schedules=len(sc_list))
        cap = None if thorough else (600 if name == 'match' else 350)
        pick = sc_list
        if cap is not None and len(sc_list) > cap:
            pick = sorted(chk.rng.sample(sc_list, cap), key=_key)
        chk.cov[f'graph_{name}']['replayed'] = len(pick)
        for sc in pick:
            if name == 'own1':
                sc = dict(sc, family_hint='ownname')
            add(sc, 'cover:' + name, api_mix='full' if name == 'match' else None if name in ('time2', 'own1') else 'fut')
    for name in ('sim3', 'sim4'):
        if name not in res:
            continue
        sc_list, r = res[name]
        chk.cov[f'{name}_behaviours'] = len(sc_list)
        for sc in sc_list:
            add(sc, name)
    chk.log(f'{len(scheds)} distinct schedules')

    # ---- direction A: run them on the real client ---------------------------------------
    traces, metas = [], []
    reps = 2 if thorough else 1
    for i, (sc, source) in enumerate(scheds):
        for r_ in range(reps if source.startswith('sim') or source.startswith('cex') else 1):
            seed = (chk.seed * 1000003 + i * 7 + r_) & 0x7fffffff
            trace = Execution(sc, seed, tmp).run()
            traces.append(trace)
            metas.append(dict(schedule=sc, seed=seed, source=source))
            chk.count(_signature(trace),
                      nontrivial=any(e['ev'] == 'call' for e in trace) and
                      any(e['ev'] in ('msg', 'stim') for e in trace))
    chk.log(f'executed {len(traces)} schedules on the real client')
    # informational: does the design model (repaired position) predict what the code did?  Compared per caller
    # that finished within the simulated behaviour, when the concretisation kept the model's API variant.
    agree = differ = 0
    for trace, meta in zip(traces, metas):
        mo = meta['schedule'].get('model_out')
        if not mo:
            continue
        model_api = {st[1]: st[3] for step in meta['schedule']['steps'] for st in step['stims'] if st[0] == 'reg'}
        real_api = {e['c']: e['api'] for e in trace if e['ev'] == 'call'}
        if any(real_api.get(c) != a for c, a in model_api.items() if a in ('exec', 'place')):
            continue
        # (the model has no clock: with timeouts on both sides of 10 s one clock move may pass several deadlines)
        if any(len(st) > 5 and st[5] == 'long' for step in meta['schedule']['steps'] for st in step['stims']
               if st[0] == 'reg'):
            continue
        real = {e['c']: [e['kind'], e['j'], e['exc']] for e in trace if e['ev'] == 'out'}
        for c, m in enumerate(mo, start=1):
            if m[0] != 'none':
                if real.get(c) == m:
                    agree += 1
                else:
                    differ += 1
    chk.cov['model_predicts_outcome'] = dict(compared=agree + differ, agree=agree, differ=differ)
    chk.log(f'design model vs code, caller outcomes of simulated behaviours: {agree} agree, {differ} differ')
    for i in (0, len(traces) // 3, 2 * len(traces) // 3, len(traces) - 1):
        chk.sample(dict(meta=metas[i], trace=traces[i]))
    chk.cov['exhaustive'] = False

    # ---- direction B ---------------------------------------------------------------------
    v = _judge(chk, traces, metas)

    # ---- binding self-test: falsified records must be rejected ---------------------------
    corrupted, kinds = [], {}
    for tid in sorted(v.accepted):
        for kind, bad in _corruptions(traces[tid - 1]):
            if kinds.get(kind, 0) < 3:
                kinds[kind] = kinds.get(kind, 0) + 1
                corrupted.append((kind, bad))
        if len(kinds) >= 9 and all(n >= 3 for n in kinds.values()):
            break
    if corrupted:
        cv = tlc.validate_traces(TRACE, 'Trace.cfg', [b for _, b in corrupted], max_diag=0, timeout=600, workers=4)
        per = {}
        for k, (kind, _) in enumerate(corrupted, start=1):
            ok = k in cv.rejected
            a, b = per.get(kind, (0, 0))
            per[kind] = (a + (1 if ok else 0), b + 1)
        chk.cov['binding_selftest']['corrupted_traces_rejected'] = {k: f'{a}/{b}' for k, (a, b) in sorted(per.items())}
        if any(a != b for a, b in per.values()):
            raise MachineryFailure(f'corrupted traces were accepted by the trace spec: {per}')
    elif not chk.violations:
        raise MachineryFailure('no accepted trace to corrupt')
    chk.assumptions += [
        'CPython 3.12 asyncio: FIFO ready queue, done-callbacks and task wake-ups run one slot after a future '
        'becomes done, asyncio.Timeout (async_timeout 5 subclasses it) cancels the task and converts the '
        'CancelledError only if it is the only cancel request',
        'the environment acts at loop-iteration boundaries (the driver is the last handle of each iteration); '
        'a third party calling task.cancel() in the middle of an iteration is not modelled',
        'a request is "made" when the caller enters wait_for_*/create_*/execute (the waiter is registered in that '
        'same slot); a message "comes in" when MessageReceivedEvent reaches the harness listener (the last one) and '
        'its handling is finished when that listener returns (the completion loop follows in the same slot); a '
        'request made while a message is being handled may or may not be answered by it',
        'quiescent = nothing in the ready queue at the driver\'s turn; Network._expected_response_futures is '
        'read there (done entries counted)',
        'one ticket-bearing command (PeerGetDirectoryContentCommand) per run; its ticket is the first value of '
        'client.ticket_generator',
    ]

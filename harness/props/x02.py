"""X02 (beyond the listed properties) - the upload queue position protocol and the interests /
recommendations replica (specs/QueuePlace: QueuePlace, PlaceReplica, Interests).

Not registered in MANIFEST.checks; run with ./check X02 --tier quick|thorough.

Three parts, each: exhaustive TLC run of the design spec (vacuity checked), a design run with the
deviation switch in the code's position that must fail (teeth / demonstration of the observation),
TLC-generated behaviours (edge cover of the dumped state graph + simulation of a larger configuration)
replayed on a real logged-in SoulSeekClient (harness/lib_x02.py), every recorded execution judged by
TLC against the trace spec.

Observations.  Where the code contradicts its own documentation the trace specs have a *marked
deviation* (Tolerate = TRUE).  A trace that is only accepted through a marked deviation is reported as
OBSERVATION (never as VIOLATION, the exit code stays 0); the marks a run may use are exactly the ones
in OBSERVATIONS below.  Anything else that is not accepted is a VIOLATION.
"""
from __future__ import annotations

import copy
import os
import random
import re
import shutil
import tempfile

from .. import tlc, lib_x02 as L
from ..core import Check, MachineryFailure

DIR = 'QueuePlace/'

OBSERVATIONS = {
    'place-zero-based':
        'TransferManager.get_place_in_queue returns uploads.index(transfer): the first upload of the queue is told '
        '0 (= "not in the queue", so its PeerPlaceInQueueRequest is never answered) and every other one a place too '
        'few; the docstring promises 0 only outside the queue and a position >= 1 inside',
    'stale-place-after-requeue':
        'Transfer.place_in_queue survives TransferManager.queue() from PAUSED / ABORTED / FAILED / COMPLETE (only '
        'start_transferring calls reset_queue_vars): the download is queued anew at the uploader but still shows '
        'the place of the old queue entry',
    'request-raises-peer-connection-error':
        'TransferManager.request_place_in_queue lets PeerConnectionError escape when the peer cannot be reached; '
        'the docstring promises RequestPlaceFailedError "when the request failed to send to the peer"',
    'interest-command-not-persisted':
        'Add/Remove(Hated)InterestCommand only send the server message and leave settings.interests alone: the '
        'server and the settings disagree until the next logon, where the change is lost (USAGE.rst: the commands '
        '"add or remove them", them = the interests defined in the settings)',
}


# ---------------------------------------------------------------------------
# TLC helpers (light readers: only labels are needed, states are not parsed)
# ---------------------------------------------------------------------------

def model_with_graph(chk: Check, spec, cfg, label, expect_actions, want_graph=True, timeout=1500):
    """One exhaustive TLC run: properties, vacuity and - optionally - the dumped state graph.  With a graph the
    vacuity check counts the transitions per action in the graph itself (cheaper than -coverage)."""
    d = tempfile.mkdtemp(prefix='x02dot-')
    try:
        kw = dict(timeout=timeout, extra=['-fp', '0'])
        if want_graph:
            kw['dump_dot'] = os.path.join(d, 'g')
        # (no -coverage for the larger configurations: it slows TLC down tenfold here.  They have the same actions as
        # the small configuration of the same spec, whose vacuity check is done on its graph; only constants grow.)
        res = tlc.run_tlc(spec, cfg, **kw)
        g = None
        if want_graph and res.ok:
            g = tlc.Graph({}, [], [])
            per_action: dict[str, int] = {}
            with open(os.path.join(d, 'g.dot'), encoding='utf8') as fh:
                for line in fh:
                    line = line.rstrip('\n')
                    m = tlc._DOT_EDGE.match(line)
                    if m:
                        lab = m.group(3).replace('\\"', '"').replace('\\\\', '\\')
                        g.edges.append((m.group(1), lab, m.group(2)))
                        a = lab.split('(')[0]
                        per_action[a] = per_action.get(a, 0) + 1
                        continue
                    m = tlc._DOT_NODE.match(line)
                    if m and 'style = filled' in line:
                        txt = m.group(2).replace('\\n', '\n').replace('\\\\', '\\').replace('\\"', '"')
                        g.states[m.group(1)] = tlc.parse_state(txt)
                        g.init.append(m.group(1))
            g.edges.sort()
            g.init.sort()
            res.coverage = {a: (n, n) for a, n in per_action.items()}
        chk.add_model(label, res)
        if want_graph:
            missing = [a for a in expect_actions if res.coverage.get(a, (0, 0))[1] == 0]
            if missing:
                raise MachineryFailure(f'vacuity: actions never taken in {cfg}: {missing}')
        return g
    finally:
        shutil.rmtree(d, ignore_errors=True)


def cover_behaviours(g, max_paths, rng):
    """Edge cover of the graph as (initial state, labels) pairs; with max_paths a seeded sample of it."""
    paths = tlc.path_cover(g, max_paths=max_paths, rng=rng)
    out = []
    for p in paths:
        if not p:
            continue
        out.append((g.states.get(p[0][0]), tuple(e[1] for e in p)))
    return out


def simulate_labels(spec, cfg, num, depth, seed, timeout=900):
    """Random behaviours from TLC's simulator: (first state text, labels)."""
    d = tempfile.mkdtemp(prefix='x02sim-')
    try:
        res = tlc.run_tlc(spec, cfg, simulate=f'file={d}/tr,num={num}', depth=depth, workers=1, seed=seed,
                          timeout=timeout, parse_traces=False)
        if res.issues:
            raise MachineryFailure(f'simulation of {cfg} failed: {[(i.kind, i.name) for i in res.issues]}')
        behs = []
        for fn in sorted(os.listdir(d)):
            if not fn.startswith('tr'):
                continue
            txt = open(os.path.join(d, fn), encoding='utf8').read()
            labels = re.findall(r'\\\* <(.*?) line \d+[^>]*>\nSTATE_\d+ == ?\n', txt)
            first = re.search(r'STATE_1 == ?\n(.*?)\n\n', txt + '\n\n', re.S)
            if len(labels) > 1:
                behs.append((first.group(1) if first else '', tuple(labels[1:])))
        return behs, res
    finally:
        shutil.rmtree(d, ignore_errors=True)


def expect_violation(spec, cfg, prop, st, key, timeout=600):
    """A design configuration with a switch in the code's position must violate `prop`."""
    r = tlc.run_tlc(spec, cfg, timeout=timeout)
    hit = any(i.name == prop for i in r.issues)
    st[key] = hit
    if not hit:
        raise MachineryFailure(f'{cfg}: expected a violation of {prop}, got {[(i.kind, i.name) for i in r.issues]}')
    return r


# ---------------------------------------------------------------------------
# judging a batch of recorded traces
# ---------------------------------------------------------------------------

def diagnose(trace_spec, cfg, diag_cfg, trace):
    """Why is this trace rejected?  (Wording and fingerprint only; the verdict is the missing ACCEPT.)
    Run A (constraints, states dumped): Lc = the furthest record position a property-respecting path reaches.
    Run B (properties as INVARIANT / PROPERTY, -continue): the properties that are false right at that frontier.
    With marked deviations a trace has several readings; tlc.diagnose_trace reports the earliest false property
    of ANY reading, which names the wrong one - the frontier is what every reading runs into."""
    import json
    d = tempfile.mkdtemp(prefix='x02diag-')
    try:
        f = os.path.join(d, 'single.json')
        with open(f, 'w') as fh:
            json.dump([trace], fh)
        env = dict(TRACE_FILE=f)
        dump = os.path.join(d, 'dumpA')
        tlc.run_tlc(trace_spec, cfg, workers=1, deadlock=False, env=env, timeout=600, dump_states=dump,
                    parse_traces=False)
        lc, lc_state = tlc._max_l_in_dump(dump + '.dump' if os.path.exists(dump + '.dump') else dump)
        res = tlc.run_tlc(trace_spec, diag_cfg, workers=1, deadlock=False, cont=True, env=env, timeout=600)
        cands = []
        earliest: dict[str, int] = {}
        for iss in res.issues:
            if iss.kind in ('invariant', 'action_property', 'assert') and iss.trace:
                at = iss.trace[-1][1].get('l')
                if isinstance(at, int):
                    earliest[iss.name] = min(at, earliest.get(iss.name, at))
                if lc is not None and at == lc + 1:
                    cands.append(iss)
        # a property that some other reading already broke earlier is still false at the frontier of that reading:
        # prefer the properties that are first false at the frontier
        fresh = [i for i in cands if earliest.get(i.name) == lc + 1]
        if fresh:
            cands = fresh
        if cands:
            names = sorted({i.name for i in cands})
            iss = next(i for i in cands if i.name == names[0])
            return dict(kind='property', name='+'.join(names), at=lc, event=tlc._event_at(trace, lc, 0),
                        detail=tlc._fmt_trace_tail(iss))
        return dict(kind='unexplained_event', name='NoSpecActionMatches', at=lc, event=tlc._event_at(trace, lc or 1, 0),
                    detail=(lc_state or '')[:2000])
    finally:
        shutil.rmtree(d, ignore_errors=True)


class _Corrupted(list):
    """Corrupted copies for the binding self-test: at most three per kind."""

    def append(self, item):
        if sum(1 for name, _ in self if name == item[0]) < 3:
            super().append(item)

    def full(self, kinds):
        names = [name for name, _ in self]
        return len(set(names)) >= kinds and all(names.count(n) >= 3 for n in set(names))


def judge(chk: Check, part, trace_spec, cfg, diag_cfg, traces, metas, corrupted, seen_obs):
    """Validate `traces` (+ corrupted copies that must be rejected) in one TLC start."""
    batch = list(traces) + [c for _, c in corrupted]
    if not batch:
        raise MachineryFailure(f'{part}: nothing to validate')
    v = tlc.validate_traces(trace_spec, cfg, batch, diag_cfg=diag_cfg, max_diag=0, workers=4, timeout=1500,
                            chunk=len(batch) + 1)
    chk.cov['traces_validated_against_impl'] += len(traces)
    chk.add_trace_run(v.result)
    # every accepting path prints its own ACCEPT line: a trace is clean if one of them has no marks
    accepts: dict[int, list] = {}
    for m in re.finditer(r'<<\s*"ACCEPT",\s*(\d+),\s*(\{[^}]*\})\s*>>', ' '.join(v.result.prints)):
        accepts.setdefault(int(m.group(1)), []).append(frozenset(tlc.parse_value(m.group(2))))
    n = len(traces)
    clean = marked = 0
    rejected = []
    for tid in range(1, n + 1):
        a = accepts.get(tid)
        if not a:
            rejected.append(tid)
        elif frozenset() in a:
            clean += 1
        else:
            marked += 1
            marks = min(a, key=lambda s: (len(s), sorted(s)))
            for mk in sorted(marks):
                if mk not in OBSERVATIONS:
                    raise MachineryFailure(f'{part}: unknown deviation mark {mk!r}')
                o = seen_obs.setdefault(mk, dict(n=0, part=part, example=None))
                o['n'] += 1
                if o['example'] is None:
                    o['example'] = dict(meta=metas[tid - 1], trace=traces[tid - 1])
    # the binding self-test: corrupted traces must not be accepted on any path
    bad_ok = [name for k, (name, _) in enumerate(corrupted) if accepts.get(n + k + 1)]
    st = chk.cov['binding_selftest']
    kinds = sorted({name for name, _ in corrupted})
    for kname in kinds:
        tot = sum(1 for name, _ in corrupted if name == kname)
        rej = tot - sum(1 for name in bad_ok if name == kname)
        st[f'{part}:{kname}_rejected'] = f'{rej}/{tot}'
    if bad_ok and not rejected:
        # (with rejected real traces the run fails anyway, and copies of misbehaving executions prove nothing)
        raise MachineryFailure(f'{part}: corrupted traces were accepted: {sorted(set(bad_ok))}')
    # rejected real traces: say why (wording and fingerprint only)
    for k, tid in enumerate(rejected):
        if k < 5:
            info = diagnose(trace_spec, cfg, diag_cfg, traces[tid - 1])
        else:
            info = dict(kind='rejected', name='?', at=None, event=None)
        ev = info.get('event') or {}
        fp = f"X02:{part}:{info.get('name')}:{ev.get('ev', '?')}" if k < 5 else f'X02:{part}:rejected-trace'
        what = (f"{part} trace {tid} {info.get('kind')}: {info.get('name')} at event #{info.get('at')} "
                f"{str(ev)[:300]}")
        chk.violation(fp, what, dict(part=part, trace=traces[tid - 1], meta=metas[tid - 1],
                                     verdict={k2: v2 for k2, v2 in info.items() if k2 != 'detail'},
                                     detail=str(info.get('detail'))[:3000]))
    chk.log(f'{part}: {n} traces: {clean} accepted, {marked} accepted only through a marked deviation, '
            f'{len(rejected)} rejected; {len(corrupted)} corrupted copies rejected')
    return dict(clean=clean, marked=marked, rejected=len(rejected))


# ---------------------------------------------------------------------------
# part a1 - the uploader's answer
# ---------------------------------------------------------------------------

A1_ACTIONS = ['Serve', 'Enqueue', 'Reenqueue', 'Abort', 'Pause', 'Resume', 'Remove', 'Deny', 'Finish', 'SetSlots',
              'Status', 'Friend', 'Priv', 'Ask']
_FREES = ('SetSlots', 'Deny', 'Finish', 'Abort', 'Pause', 'Remove', 'Status')


def densify_asks(labels, rng, sweep_p=0.4):
    """Ask is enabled in every quiescent state of QueuePlace: insert sweeps of place requests (the uploads the
    client has been asked for, one it has not, sometimes all six; seeded order) before steps that may free a slot,
    after other queue changes, and at the end."""
    out = []
    every = list(range(1, L.UP_MAX + 1))
    known: set[int] = set()

    def sweep():
        if rng.random() < 0.25:
            ups = list(every)
        else:
            rest = [u for u in every if u not in known]
            ups = sorted(known) + ([rng.choice(rest)] if rest else [])
        rng.shuffle(ups)
        out.extend(f'Ask({u})' for u in ups)
    for lab in labels:
        name, a = L.parse_label(lab)
        if name in _FREES and rng.random() < 0.7:
            sweep()
        out.append(lab)
        if name == 'Enqueue':
            known.add(a[0])
        elif name == 'Remove':
            known.discard(a[0])
        if name not in ('Ask', 'Serve') and name not in _FREES and rng.random() < sweep_p:
            sweep()
    sweep()
    return tuple(out)


def _is_head(e):
    """Only used to choose WHICH recorded answer the self-test corrupts (never to judge): the asked upload is its
    user's first queued one, the user is not offline and has nothing in progress."""
    u = e['u']
    o = L.up_owner(u)
    mine = [x for x in e['order'] if L.up_owner(x) == o]
    if e['st'][u - 1] != 'QUEUED' or e['status'][o - 1] == 'offline':
        return False
    if any(e['st'][x - 1] in ('INITIALIZING', 'UPLOADING') for x in mine):
        return False
    return next(x for x in mine if e['st'][x - 1] == 'QUEUED') == u


def part_a1(chk: Check, thorough, tmp, seen_obs):
    spec, trace = DIR + 'QueuePlace.tla', DIR + 'QueuePlaceTrace.tla'
    st = chk.cov['binding_selftest']
    g = model_with_graph(chk, spec, 'MC_place_q.cfg', 'QueuePlace 2 users / 3 uploads (exhaustive)', A1_ACTIONS)
    if thorough:
        model_with_graph(chk, spec, 'MC_place_3u.cfg', 'QueuePlace 3 users (exhaustive)', A1_ACTIONS, want_graph=False)
        model_with_graph(chk, spec, 'MC_place_t.cfg', 'QueuePlace 2 users / 4 uploads (exhaustive)', A1_ACTIONS,
                         want_graph=False)
    expect_violation(spec, 'MC_place_zero.cfg', 'AnswerTruthful', st,
                     'a1:model_in_code_position(ZeroBased)_violates_AnswerTruthful')
    behs = [(int(s0['slots']), lab) for s0, lab in cover_behaviours(g, 1000 if thorough else 140, chk.rng)]
    n_cover = len(behs)
    sims, r = simulate_labels(spec, 'MC_place_sim.cfg', num=600 if thorough else 80, depth=28, seed=chk.seed + 11)
    behs += [(int(tlc.parse_state(first)['slots']), lab) for first, lab in sims]
    chk.log(f'a1: {n_cover} edge-cover paths of {len(g.edges)} edges + {len(sims)} simulated behaviours')

    share = os.path.join(tmp, 'share')
    os.makedirs(share, exist_ok=True)
    for i in range(L.UP_PER_USER):
        with open(os.path.join(share, f'track {i}.mp3'), 'wb') as fh:
            fh.write(bytes([65 + i]) * L.UP_FILE_SIZE)
    traces, metas = [], []
    seen = set()
    skipped = other = asks = answered = serves = 0
    for k, (slots0, labels) in enumerate(behs):
        conc = chk.seed * 100003 + k
        dense = densify_asks(labels, random.Random(conc))
        if (slots0, dense) in seen:
            continue
        seen.add((slots0, dense))
        ev, info = L.run_uploader(dense, conc, share, os.path.join(tmp, 'dl'), slots0)
        skipped += info['skipped']
        other += info['other_exceptions']
        a = [e for e in ev if e['ev'] == 'ask']
        asks += len(a)
        answered += sum(1 for e in a if e['place'] > 0)
        serves += sum(1 for x, y in zip(ev, ev[1:]) if y['ev'] == 'chg' and
                      any(p == 'QUEUED' and q == 'INITIALIZING' for p, q in zip(x['st'], y['st'])))
        traces.append(ev)
        metas.append(dict(part='a1', slots0=slots0, labels=list(dense), conc=conc))
        chk.count(('a1', slots0, dense, conc), nontrivial=any(e['place'] > 0 for e in a))
    chk.sample(dict(part='a1', behaviour=list(metas[0]['labels']), trace=traces[0][:12]))
    chk.cov['a1'] = dict(behaviours=len(traces), place_requests=asks, answered=answered, slots_handed_out=serves,
                         stimuli_not_applicable=skipped, unrelated_loop_exceptions=other)
    if answered == 0 or serves == 0:
        raise MachineryFailure('a1: no place request was answered / no slot was handed out: the replay is vacuous')

    # binding self-test: corrupted copies
    corrupted = _Corrupted()
    for tr in traces:
        if corrupted.full(3):
            break
        idx = [i for i, e in enumerate(tr) if e['ev'] == 'ask' and e['place'] > 0 and _is_head(e)]
        if idx:
            c = copy.deepcopy(tr)
            c[idx[len(idx) // 2]]['place'] += 3
            corrupted.append(('place_plus_3', c))
        idx = [i for i, e in enumerate(tr) if e['ev'] == 'ask' and e['place'] == 0 and
               e['st'][e['u'] - 1] not in ('QUEUED',)]
        if idx:
            c = copy.deepcopy(tr)
            c[idx[0]]['place'], c[idx[0]]['n'] = 1, 1
            corrupted.append(('answer_for_upload_not_queued', c))
        idx = [i for i, e in enumerate(tr) if e['ev'] == 'ask' and e['n'] == 1]
        if idx:
            c = copy.deepcopy(tr)
            c[idx[0]]['n'] = 2
            corrupted.append(('two_replies', c))
    res = judge(chk, 'a1', trace, 'Trace.cfg', 'TraceDiag.cfg', traces, metas, corrupted, seen_obs)
    chk.cov['a1'].update(res)


# ---------------------------------------------------------------------------
# part a2 - the downloader's copy
# ---------------------------------------------------------------------------

A2_ACTIONS = ['Timeout', 'Download', 'Request', 'Return', 'Start', 'Finish', 'Break', 'Pause', 'Abort', 'Reject',
              'Requeue', 'Reply', 'ReplyUnknown', 'Unreach', 'Reach']


def densify_replies(labels, rng, p=0.35):
    """Reply(d, p) is enabled whenever download d waits in the queue of a reachable peer: sprinkle extra replies
    over the behaviour (stimulus generation only - the trace spec gives every reply its meaning itself)."""
    waiting = {'Download': True, 'Requeue': True, 'Break': True, 'Start': False, 'Finish': False, 'Pause': False,
               'Abort': False, 'Reject': False}
    state: dict[int, bool] = {}
    up = {1: True, 2: True}
    out = []
    for lab in labels:
        out.append(lab)
        name, a = L.parse_label(lab)
        if name in waiting:
            state[a[0]] = waiting[name]
        elif name in ('Unreach', 'Reach'):
            up[a[0]] = name == 'Reach'
            if name == 'Unreach':        # a transfer in progress breaks with its peer
                continue
        if name in ('Return', 'Request', 'Timeout'):
            continue
        cands = [d for d, w in sorted(state.items()) if w and up[L.dl_peer(d)]]
        if cands and rng.random() < p:
            out.append(f'Reply({rng.choice(cands)},{rng.choice([0, 1, 2, 5, 9])})')
    return tuple(out)


def part_a2(chk: Check, thorough, tmp, seen_obs):
    spec, trace = DIR + 'PlaceReplica.tla', DIR + 'PlaceReplicaTrace.tla'
    st = chk.cov['binding_selftest']
    g = model_with_graph(chk, spec, 'MC_replica_q.cfg', 'PlaceReplica 3 downloads / 2 peers (exhaustive)', A2_ACTIONS)
    if thorough:
        model_with_graph(chk, spec, 'MC_replica_t.cfg', 'PlaceReplica 4 downloads, larger budget (exhaustive)',
                         A2_ACTIONS, want_graph=False)
    expect_violation(spec, 'MC_replica_stale.cfg', 'ReplicaExact', st,
                     'a2:model_in_code_position(ResetOnRequeue)_violates_ReplicaExact')
    expect_violation(spec, 'MC_replica_raise.cfg', 'OutcomeDocumented', st,
                     'a2:model_in_code_position(RaiseDocumented)_violates_OutcomeDocumented')
    behs = [lab for _, lab in cover_behaviours(g, 1200 if thorough else 170, chk.rng)]
    n_cover = len(behs)
    sims, _ = simulate_labels(spec, 'MC_replica_sim.cfg', num=800 if thorough else 80, depth=30, seed=chk.seed + 23)
    behs += [lab for _, lab in sims]
    chk.log(f'a2: {n_cover} edge-cover paths of {len(g.edges)} edges + {len(sims)} simulated behaviours')
    traces, metas = [], []
    seen = set()
    skipped = other = replies = dones = resets = 0
    for k, labels in enumerate(behs):
        conc = chk.seed * 100003 + k
        labels = densify_replies(labels, random.Random(conc))
        if labels in seen:
            continue
        seen.add(labels)
        ev, info = L.run_downloader(labels, conc, os.path.join(tmp, 'dl2'))
        skipped += info['skipped']
        other += info['other_exceptions']
        replies += sum(1 for e in ev if e['ev'] == 'reply')
        dones += sum(1 for e in ev if e['ev'] == 'done')
        resets += sum(1 for e in ev if e['ev'] == 'st' and e['new'] in ('DOWNLOADING',) or
                      (e['ev'] == 'st' and e['new'] == 'QUEUED' and e['old'] not in ('VIRGIN', 'INITIALIZING')))
        traces.append(ev)
        metas.append(dict(part='a2', labels=list(labels), conc=conc))
        chk.count(('a2', labels, conc), nontrivial=any(e['ev'] in ('reply', 'done') for e in ev))
    chk.sample(dict(part='a2', behaviour=metas[0]['labels'], trace=traces[0][:12]))
    chk.cov['a2'] = dict(behaviours=len(traces), replies=replies, finished_requests=dones, starts_and_requeues=resets,
                         stimuli_not_applicable=skipped, unrelated_loop_exceptions=other)
    if replies == 0 or dones == 0 or resets == 0:
        raise MachineryFailure('a2: the replay is vacuous (no reply / no finished request / no start or re-queue)')
    corrupted = _Corrupted()
    for tr in traces:
        if corrupted.full(4):
            break
        idx = [i for i, e in enumerate(tr) if e['ev'] == 'quiet' and any(p >= 0 for p in e['place'])]
        if idx:
            c = copy.deepcopy(tr)
            e = c[idx[0]]
            j = next(j for j, p in enumerate(e['place']) if p >= 0)
            e['place'][j] += 1
            corrupted.append(('place_differs_from_reply', c))
        idx = [i for i, e in enumerate(tr) if e['ev'] == 'quiet' and i > 0 and tr[i - 1]['ev'] == 'reply'
               and tr[i - 1]['d'] in (1, 3) and e['place'][tr[i - 1]['d']] == -1 and e['place'][tr[i - 1]['d'] - 1] >= 0
               and any(x['ev'] == 'st' and x['d'] == tr[i - 1]['d'] + 1 for x in tr[:i])]
        if idx:
            c = copy.deepcopy(tr)
            e = c[idx[0]]
            e['place'][tr[idx[0] - 1]['d']] = e['place'][tr[idx[0] - 1]['d'] - 1]     # cross-talk to the other file
            corrupted.append(('reply_shows_on_other_download', c))
        idx = [i for i, e in enumerate(tr) if e['ev'] == 'done' and e['k'] == 'ret']
        if idx:
            c = copy.deepcopy(tr)
            c[idx[0]]['val'] += 1
            corrupted.append(('returned_value_differs', c))
        idx = [i for i, e in enumerate(tr) if e['ev'] == 'done' and e['k'] == 'raise']
        if idx:
            c = copy.deepcopy(tr)
            c[idx[0]]['exc'] = 'TimeoutError'
            corrupted.append(('undocumented_exception', c))
    res = judge(chk, 'a2', trace, 'ReplicaTrace.cfg', 'ReplicaTraceDiag.cfg', traces, metas, corrupted, seen_obs)
    chk.cov['a2'].update(res)


# ---------------------------------------------------------------------------
# part b - interests and recommendations
# ---------------------------------------------------------------------------

B_ACTIONS = ['Login', 'Drop', 'Cmd', 'CmdOff', 'Push', 'Query']


def part_b(chk: Check, thorough, tmp, seen_obs):
    spec, trace = DIR + 'Interests.tla', DIR + 'InterestsTrace.tla'
    st = chk.cov['binding_selftest']
    g = model_with_graph(chk, spec, 'MC_interests_q.cfg', 'Interests 2 items, 6 reply kinds (exhaustive)', B_ACTIONS)
    if thorough:
        model_with_graph(chk, spec, 'MC_interests_t.cfg', 'Interests 3 items, larger budget (exhaustive)', B_ACTIONS,
                         want_graph=False)
    expect_violation(spec, 'MC_interests_nopersist.cfg', 'Agreement', st,
                     'b:model_in_code_position(Persist)_violates_Agreement')
    behs = []
    for s0, lab in cover_behaviours(g, 1200 if thorough else 200, chk.rng):
        behs.append(((tuple(sorted(s0['liked'])), tuple(sorted(s0['hated']))), lab))
    n_cover = len(behs)
    sims, _ = simulate_labels(spec, 'MC_interests_sim.cfg', num=800 if thorough else 70, depth=24, seed=chk.seed + 37)
    for first, lab in sims:
        s0 = tlc.parse_state(first)
        behs.append(((tuple(sorted(s0['liked'])), tuple(sorted(s0['hated']))), lab))
    chk.log(f'b: {n_cover} edge-cover paths of {len(g.edges)} edges + {len(sims)} simulated behaviours')
    traces, metas = [], []
    seen = set()
    skipped = other = cmds = shown = logins = 0
    for k, (init, labels) in enumerate(behs):
        if (init, labels) in seen:
            continue
        seen.add((init, labels))
        conc = chk.seed * 100003 + k
        ev, info = L.run_interests(init, labels, conc, os.path.join(tmp, 'dl3'))
        skipped += info['skipped']
        other += info['other_exceptions']
        cmds += sum(1 for e in ev if e['ev'] == 'cmd')
        logins += sum(1 for e in ev if e['ev'] == 'login')
        shown += sum(len(e.get('evs', ())) for e in ev)
        traces.append(ev)
        metas.append(dict(part='b', init=[list(init[0]), list(init[1])], labels=list(labels), conc=conc))
        chk.count(('b', init, labels, conc), nontrivial=any(e['ev'] in ('cmd', 'push', 'query', 'login') for e in ev))
    chk.sample(dict(part='b', behaviour=metas[0]['labels'], trace=traces[0][:8]))
    chk.cov['b'] = dict(behaviours=len(traces), logins=logins, commands=cmds, events_shown=shown,
                        stimuli_not_applicable=skipped, unrelated_loop_exceptions=other)
    if cmds == 0 or shown == 0 or logins == 0:
        raise MachineryFailure('b: the replay is vacuous')
    corrupted = _Corrupted()
    for tr in traces:
        if corrupted.full(6):
            break
        idx = [i for i, e in enumerate(tr) if e['ev'] == 'login' and e['got']]
        if idx:
            c = copy.deepcopy(tr)
            c[idx[0]]['got'].pop()
            corrupted.append(('interest_not_advertised', c))
            c = copy.deepcopy(tr)
            c[idx[0]]['got'].append(c[idx[0]]['got'][0])
            corrupted.append(('interest_advertised_twice', c))
        idx = [i for i, e in enumerate(tr) if e['ev'] == 'cmd']
        if idx:
            c = copy.deepcopy(tr)
            e = c[idx[0]]
            e['got'][0][0] = {'AddInterest': 'AddHatedInterest', 'AddHatedInterest': 'AddInterest',
                              'RemoveInterest': 'RemoveHatedInterest', 'RemoveHatedInterest': 'RemoveInterest'}[e['got'][0][0]]
            corrupted.append(('command_sends_other_message', c))
        idx = [i for i, e in enumerate(tr) if e['ev'] in ('push', 'query')]
        if idx:
            c = copy.deepcopy(tr)
            c[idx[0]]['evs'][0][1] += ' '
            corrupted.append(('event_content_differs', c))
            c = copy.deepcopy(tr)
            c[idx[0]]['evs'] = []
            corrupted.append(('event_missing', c))
        idx = [i for i, e in enumerate(tr) if e['ev'] == 'query']
        if idx:
            c = copy.deepcopy(tr)
            c[idx[0]]['ret'] = c[idx[0]]['ret'][:-1]
            corrupted.append(('returned_content_differs', c))
    res = judge(chk, 'b', trace, 'InterestsTrace.cfg', 'InterestsTraceDiag.cfg', traces, metas, corrupted, seen_obs)
    chk.cov['b'].update(res)


# ---------------------------------------------------------------------------

def run(chk: Check, args):
    thorough = chk.tier == 'thorough'
    chk.cov['rule'] = ('behaviours of QueuePlace / PlaceReplica / Interests (edge cover of the dumped state graphs + TLC '
                       'simulation of larger configurations) replayed on a real logged-in SoulSeekClient on the '
                       'in-memory network in virtual time, scripted server and peers; distinct = distinct (behaviour, '
                       'concretisation seed); non-trivial = the trace contains an answered place request / a place '
                       'reply or finished request / a command, logon or reply')
    chk.assumptions += [
        'a1: place requests are made at quiescent moments of the uploader (every slot the scheduler can hand out has '
        'been handed out); the handler does not suspend between look-up and reply',
        'a1: ties within a priority class (privileged > friend > online/away > unknown) are unconstrained, but the '
        'places told must be distinct and agree with the order in which uploads really start',
        'a1: queued uploads that are not their user\'s next one (or whose user is offline / being served) may be told '
        'anything: the documentation does not say',
        'a2: place_in_queue is judged at quiescent moments; replies are only generated while the download waits in '
        'the uploader\'s queue (QUEUED / INCOMPLETE)',
        'b: item strings are renamed to abstract items by the recorder (injective), reply contents are compared as '
        'canonical renderings, order included',
        'four documented-behaviour contradictions are tolerated through marked deviations and reported as '
        'OBSERVATION lines (see OBSERVATIONS in harness/props/x02.py)',
    ]
    tmp = tempfile.mkdtemp(prefix='x02-')
    seen_obs: dict = {}
    try:
        part_a1(chk, thorough, tmp, seen_obs)
        part_a2(chk, thorough, tmp, seen_obs)
        part_b(chk, thorough, tmp, seen_obs)
    finally:
        shutil.rmtree(tmp, ignore_errors=True)
    chk.cov['observations'] = {mk: dict(seen=o['n'], part=o['part'], what=OBSERVATIONS[mk],
                                         example_behaviour=o['example']['meta']) for mk, o in sorted(seen_obs.items())}
    for mk, o in sorted(seen_obs.items()):
        print(f'OBSERVATION property=X02 {mk} (part {o["part"]}, {o["n"]} traces) :: {OBSERVATIONS[mk]}', flush=True)
        print(f'  reproduce: behaviour {o["example"]["meta"]}'[:700], flush=True)


def replay(chk: Check, data):
    """./check X02 --replay FILE : re-execute the recorded scenario and judge it again."""
    rp = data.get('replay') or {}
    meta = rp.get('meta') or {}
    part = meta.get('part')
    tmp = tempfile.mkdtemp(prefix='x02-')
    try:
        if part == 'a1':
            share = os.path.join(tmp, 'share')
            os.makedirs(share)
            for i in range(L.UP_PER_USER):
                with open(os.path.join(share, f'track {i}.mp3'), 'wb') as fh:
                    fh.write(bytes([65 + i]) * L.UP_FILE_SIZE)
            ev, _ = L.run_uploader(meta['labels'], meta['conc'], share, os.path.join(tmp, 'dl'), meta.get('slots0', 0))
            cfgs = (DIR + 'QueuePlaceTrace.tla', 'Trace.cfg', 'TraceDiag.cfg')
        elif part == 'a2':
            ev, _ = L.run_downloader(meta['labels'], meta['conc'], os.path.join(tmp, 'dl'))
            cfgs = (DIR + 'PlaceReplicaTrace.tla', 'ReplicaTrace.cfg', 'ReplicaTraceDiag.cfg')
        elif part == 'b':
            ev, _ = L.run_interests((meta['init'][0], meta['init'][1]), meta['labels'], meta['conc'],
                                    os.path.join(tmp, 'dl'))
            cfgs = (DIR + 'InterestsTrace.tla', 'InterestsTrace.cfg', 'InterestsTraceDiag.cfg')
        else:
            raise MachineryFailure('replay file has no X02 scenario')
        judge(chk, part, cfgs[0], cfgs[1], cfgs[2], [ev], [meta], [], {})
    finally:
        shutil.rmtree(tmp, ignore_errors=True)

"""C04 - COMPLETE means the whole file; resume never corrupts (spec: FileTransfer).

Two real SoulSeekClients (downloader 'dwn', uploader 'upl') - or one real client and a scripted
counterpart - run on harness.simnet + harness.simserver in virtual time.  A *schedule* fixes the
file size, what is already on the downloader's disk, bandwidth limits, segmentation, and the faults
(cut the file connection after k bytes with reset/EOF, lose a PeerTransferRequest/Reply, scripted
deviations).  The recorded execution (state notifications of both transfers, the offset on the wire,
faults, the downloaded file compared with the source) is judged by TLC against FileTransferTrace.
"""
from __future__ import annotations

import asyncio
import copy
import os
import re
import shutil
import struct
import tempfile

from .. import tlc, vloop
from ..core import Check, MachineryFailure
from ..simnet import SimNet
from ..simserver import SERVER_PORT, ScriptedPeer, ScriptedServer, make_client, make_settings

SPEC = 'FileTransfer/FileTransfer.tla'
TRACE = 'FileTransfer/FileTransferTrace.tla'

U_PORT, D_PORT, U2_PORT = 61000, 62000, 63000
CHAIN_S = 300            # longest timeout chain of one attempt: reply 30 + file connection 60 + data 180 + slack
SIZES = [0, 1, 127, 128, 129, 8191, 8192, 8193, 3 * 8192 + 5]

_SRC_ALL = bytes((i * 7 + (i >> 8) * 13 + 3) % 251 for i in range(16 * 8192))
_JUNK = bytes(0xEE for _ in range(4 * 8192))


def source(size: int) -> bytes:
    return _SRC_ALL[:size]


def twin_source(size: int) -> bytes:
    """Content of the equally named file of the second uploader: differs from source() at every byte."""
    return bytes(b ^ 0x5A for b in _SRC_ALL[:size])


# ---------------------------------------------------------------------------
# schedules
# ---------------------------------------------------------------------------

def sched(mode='real2', size=0, k0=0, b0=0, resume=False, ulimit=0, dlimit=0, seg='none', fdelay=0.0, ddelay=0.0,
          faults=(), script=(), retry=True, twin=(), src='grid'):
    """faults: tuple of (attempt, kind, ...):
         (n, 'cut', mode, phase, k)   phase: 'data' (after k data bytes) | 'ticket' (after k of 4 ticket bytes)
                                       | 'offset' (after k of the 8 offset bytes)
         (n, 'lose_request') / (n, 'lose_reply')      the n-th such frame is lost with its connection
         (n, 'ufail', k)              the uploader's end of the n-th file connection breaks after k data bytes
                                      (its next write fails; what is in flight still arrives, then EOF)
         (n, 'hold_upfailed', secs)   the n-th PeerUploadFailed frame is held back secs seconds (overtaken)
       twin: () or (size2, skew, first): a second download of an equally named file (other content, size2 bytes)
             from a second (scripted, honest) uploader runs next to ours on the same downloader; the tickets of
             the two file connections are handed over together: first 'ours' | 'twin', the other one skew loop
             iterations later.  The twin download is recorded and validated as a trace of its own.
       ddelay: delay of the data phase of the file connection (bytes and close from the uploader)
       script (scripted party, per attempt): see ScriptedUploader / ScriptedDownloader."""
    return dict(mode=mode, size=size, k0=k0, b0=b0, resume=bool(resume or k0 or b0), ulimit=ulimit, dlimit=dlimit,
                seg=seg, fdelay=fdelay, ddelay=ddelay, faults=tuple(tuple(f) for f in faults), script=tuple(tuple(s) for s in script),
                retry=retry, twin=tuple(twin), src=src)


def sched_key(s):
    return tuple((k, s[k]) for k in sorted(s) if k != 'src')


def _segmenter(kind):
    if kind == 'none':
        return None
    if kind == 'one':           # one byte at a time for the first 40 bytes, then the rest
        return lambda data: [data[i:i + 1] for i in range(min(40, len(data)))] + ([data[40:]] if len(data) > 40 else [])
    if kind == 'odd':
        def seg(data):
            out, i, n = [], 0, 1
            while i < len(data):
                out.append(data[i:i + n])
                i += n
                n = n * 3 + 1
            return out
        return seg
    if kind == 'half':
        return lambda data: [data[:len(data) // 2], data[len(data) // 2:]]
    raise ValueError(kind)


# ---------------------------------------------------------------------------
# one run
# ---------------------------------------------------------------------------

class _LinkInfo:
    def __init__(self, link):
        self.link = link
        self.kind = None        # 'F' | 'P' | 'S' | '?'
        self.hdr = 0
        self.n0 = 0             # bytes written by side 0 so far
        self.u_data = bytearray()   # data bytes the uploader put on the wire (after init + ticket)
        self.d_bytes = bytearray()  # bytes written by the acceptor (the offset)
        self.uoff = -1
        self.scripted_u = False
        self.ufailed = False
        self.owner = None           # the Run that records this link (None: the primary)
        self.held_ticket = False


class Run:
    def __init__(self, s, tmp):
        self.s = s
        self.tmp = tmp
        self.events = []
        self.flink = None
        self.nflinks = 0
        self.counts = dict(request=0, reply=0, queue=0, upfailed=0)
        self.dt = None
        self.ut = None
        self.sd = None          # scripted downloader
        self.su = None          # scripted uploader
        self.src = source(s['size'])
        self.loop = None
        self.t0 = 0.0
        self.notes = []
        self._keep = []
        self.finished = False
        self.progress = {'d': -1, 'u': -1}      # bytes_transfered of the last TransferProgressEvent snapshot
        self.pending_holds = 0                  # held PeerUploadFailed frames not yet delivered
        self.req_ticket = None
        self.ticket_from = None                 # twin: use the ticket number the primary's uploader chose
        self.twin = None                        # Run of the twin download (recorder only, same loop and network)
        self.is_twin = False
        self.barrier = None

    # -- observation -----------------------------------------------------------
    def d_state(self):
        if self.sd is not None:
            return self.sd.state
        return self.dt.state.VALUE.name if self.dt is not None else 'QUEUED'

    def u_state(self):
        if self.su is not None:
            return self.su.state
        if self.ut is None:
            return 'NONE'
        n = self.ut.state.VALUE.name
        return 'NONE' if n == 'VIRGIN' else n

    def local_bytes(self):
        if self.sd is not None:
            return bytes(self.sd.buf)
        p = self.dt.local_path if self.dt is not None else None
        if p and os.path.exists(p):
            with open(p, 'rb') as fh:
                return fh.read()
        return b''

    def snap(self, entering=False):
        dst, ust = self.d_state(), self.u_state()
        valid = self.sd is not None or dst != 'DOWNLOADING' or entering
        data = self.local_bytes()
        fi = self.flink
        if fi is None:
            sent, sentok, uoff, fcs = 0, True, -1, 'none'
        else:
            sent = len(fi.u_data)
            uoff = fi.uoff
            sentok = sent == 0 or (uoff >= 0 and bytes(fi.u_data) == self.src[uoff:uoff + sent])
            lk = fi.link
            # the peer's end: alive and not closed by the downloader (the uploader's own close does not count)
            is_open = not lk.dead and not lk.closed[1]
            fcs = 'open' if is_open else 'ended'
        return dict(dst=dst, ust=ust, len=len(data) if valid else -1,
                    pre=self.src.startswith(data), iden=data == self.src,
                    sent=sent, sentok=bool(sentok), uoff=uoff, fcs=fcs,
                    rq=bool(self.dt.remotely_queued) if self.dt is not None else bool(self.sd and self.sd.rq),
                    nq=self.counts['queue'],
                    t=int(round((self.loop.time() - self.t0) * 1000)))

    def event(self, ev, entering=False, **kw):
        if self.finished:
            return
        rec = dict(ev=ev, **kw)
        rec['snap'] = self.snap(entering=entering)
        self.events.append(rec)

    # -- the network ------------------------------------------------------------
    def _faults_for(self, attempt, kind):
        return [f for f in self.s['faults'] if f[0] == attempt and f[1] == kind]

    def on_link(self, link):
        info = _LinkInfo(link)
        if link.addr[1][1] == SERVER_PORT:
            info.kind = 'S'
            return
        orig = link._deliver
        orig_cut = link.cut

        seq = [0]

        def delayed(side, data):
            # an own FIFO delay for the uploader's bytes on the file connection (distinct deadlines keep
            # the order; Link.delay may reorder segments that fall on the same deadline)
            d = (info.owner or self).s['fdelay']
            if d and side == 0 and info.kind == 'F':
                seq[0] += 1
                self.loop.call_later(d + seq[0] * 1e-6, orig, side, data)
                return None
            return orig(side, data)

        if link.addr[1][1] == U2_PORT:
            info.owner = self.twin

        def deliver(side, data):
            return (info.owner or self)._deliver(info, delayed, side, bytes(data))

        def cut(mode='eof'):
            was_open = not link.dead and not any(link.closed)
            orig_cut(mode)
            if was_open and info.kind == 'F':        # cutting a connection one side has already left is no fault
                (info.owner or self).event('fault', kind=mode)

        link._deliver = deliver
        link.cut = cut

    def _deliver(self, info, orig, side, data):
        link = info.link
        if info.kind is None:
            if side != 0:
                return orig(side, data)
            info.kind = '?'
            try:
                code = data[4]
                if code == 1:
                    ulen = struct.unpack_from('<I', data, 5)[0]
                    user = data[9:9 + ulen].decode('utf8', 'replace')
                    typ = data[9 + ulen + 4:9 + ulen + 5].decode('latin1')
                    info.kind = typ if typ in ('F', 'P') else '?'
                    info.user = user
            except Exception:
                pass
            if info.kind == 'F' and getattr(info, 'user', None) == 'upl2' and self.twin is not None and not self.is_twin:
                info.owner = self.twin          # the twin's file connection: recorded by the twin
                info.kind = None
                return self.twin._deliver(info, orig, side, data)
            info.hdr = len(data)
            if info.kind == 'F':
                self.nflinks += 1
                info.attempt = self.nflinks
                info.scripted_u = self.su is not None
                self.flink = info
                for f in self._faults_for(info.attempt, 'cut'):
                    _, _, mode, phase, k = f
                    link.cut_mode = mode
                    if phase == 'data':
                        link.cut_after[0] = info.hdr + 4 + k
                    elif phase == 'ticket':
                        link.cut_after[0] = info.hdr + k
                    elif phase == 'offset':
                        link.cut_after[1] = k
                link.segment[0] = _segmenter(self.s['seg'])
            info.n0 = len(data)
            return orig(side, data)
        if info.kind == 'F':
            if side == 0:
                start = info.n0
                info.n0 += len(data)
                lost_to_reset = link.dead and link.reset[0] is not None
                skip = max(0, info.hdr + 4 - start)
                if not lost_to_reset and len(data) > skip:
                    info.u_data += data[skip:]
                if start >= info.hdr + 4 and self.s['ddelay'] and not link.delay[0]:
                    link.delay[0] = self.s['ddelay']          # from the first data byte on (FIFO, the close too)
                if self.barrier is not None and info.attempt == 1 and start == info.hdr and not info.held_ticket:
                    info.held_ticket = True                   # the ticket: handed over together with the other one
                    self.barrier.arrive('twin' if self.is_twin else 'ours', lambda: orig(side, data))
                    return None
                res = orig(side, data)
                for f in self._faults_for(info.attempt, 'ufail'):
                    # only while bytes remain to be written: the break shows as the failure of the *next* write
                    if not info.ufailed and len(info.u_data) >= f[2] and start + len(data) > info.hdr + 4 \
                            and len(info.u_data) < len(self.src) - max(info.uoff, 0):
                        info.ufailed = True
                        link.writers[0].fail_writes = ConnectionResetError(104, 'Connection reset by peer')
                        self.event('fault', kind='ufail')
                return res
            else:
                had = len(info.d_bytes)
                info.d_bytes += data
                if had < 8 <= len(info.d_bytes):
                    info.uoff = struct.unpack('<Q', bytes(info.d_bytes[:8]))[0]
                    self.event('offset', val=min(info.uoff, 2 ** 31 - 1))
            return orig(side, data)
        if info.kind == 'P':
            # one or more whole frames per write
            pos = 0
            keep = bytearray()
            while pos + 8 <= len(data):
                ln = struct.unpack_from('<I', data, pos)[0]
                code = struct.unpack_from('<I', data, pos + 4)[0]
                frame = data[pos:pos + 4 + ln]
                pos += 4 + ln
                name = {40: 'request', 41: 'reply'}.get(code)
                if code == 40 and len(frame) >= 16:
                    self.req_ticket = struct.unpack_from('<I', frame, 12)[0]     # ticket of the last request seen
                if code == 43:
                    self.counts['queue'] += 1
                if code == 46:
                    self.counts['upfailed'] += 1
                    hold = self._faults_for(self.counts['upfailed'], 'hold_upfailed')
                    if hold:
                        self.event('fault', kind='hold_upfailed')

                        self.pending_holds += 1

                        def release(frame=frame):
                            self.pending_holds -= 1
                            self.event('fault', kind='release_upfailed')
                            orig(side, frame)
                        self.loop.call_later(hold[0][2], release)
                        continue
                if name:
                    self.counts[name] += 1
                    if self._faults_for(self.counts[name], 'lose_' + name):
                        self.event('fault', kind='lose_' + name)
                        orig(side, bytes(keep)) if keep else None
                        link.cut('reset')
                        return None
                keep += frame
            keep += data[pos:]
            return orig(side, bytes(keep)) if keep else None
        return orig(side, data)

    # -- main ---------------------------------------------------------------------
    async def main(self, loop):
        from aioslsk.events import TransferAddedEvent, TransferProgressEvent
        from aioslsk.transfer.model import Transfer, TransferDirection
        from aioslsk.transfer.state import TransferState

        s = self.s
        self.loop = loop
        net = SimNet(loop)
        net.on_link = self.on_link
        net.install()
        clients = []
        try:
            srv = await ScriptedServer(net).start()
            share = os.path.join(self.tmp, 'share', 'music')
            dl = os.path.join(self.tmp, 'dl')
            os.makedirs(share)
            os.makedirs(dl)
            os.makedirs(os.path.join(self.tmp, 'udl'))
            with open(os.path.join(share, 'song.bin'), 'wb') as fh:
                fh.write(self.src)
            srv.addresses['upl'] = ('10.0.0.1', U_PORT, 0)
            srv.addresses['dwn'] = ('10.0.0.2', D_PORT, 0)
            remote = '@@share\\music\\song.bin'
            U = D = None
            if s['mode'] != 'scrU':
                U = make_client(make_settings('upl', port=U_PORT, obfuscated_port=0,
                                              download_dir=os.path.join(self.tmp, 'udl'), shared=[dict(path=share)],
                                              network=dict(limits=dict(upload_speed_kbps=s['ulimit']))))
                clients.append(U)
                await U.start()
                await U.login()
                await U.shares.scan()
                items = [i for d in U.shares.shared_directories for i in d.items]
                if len(items) != 1:
                    raise MachineryFailure(f'share scan found {len(items)} items')
                remote = items[0].get_remote_path()

                def u_added(ev):
                    if ev.transfer.direction == TransferDirection.UPLOAD and self.ut is None:
                        self.ut = ev.transfer
                        ev.transfer.state_listeners.append(_Listener(self, 'u'))
                self._keep.append(u_added)
                U.events.register(TransferAddedEvent, u_added)
                self._watch_progress(U, TransferProgressEvent, 'u')
            if s['mode'] != 'scrD':
                D = make_client(make_settings('dwn', port=D_PORT, obfuscated_port=0, download_dir=dl,
                                              network=dict(limits=dict(download_speed_kbps=s['dlimit']))))
                clients.append(D)
                await D.start()
                await D.login()
                self._watch_progress(D, TransferProgressEvent, 'd')
            await asyncio.sleep(0.5)
            self.t0 = loop.time()

            if s['mode'] == 'scrU':
                self.su = ScriptedUploader(self, net, remote)
                await self.su.start()
            if s['mode'] == 'scrD':
                self.sd = ScriptedDownloader(self, net, remote)

            t2 = None
            if s['twin'] and D is not None:
                size2, skew, first = s['twin'][:3]
                tw = Run(sched(mode='scrU', size=size2, src='twin'), self.tmp)
                tw.is_twin, tw.loop, tw.t0, tw.src = True, loop, self.t0, twin_source(size2)
                srv.addresses['upl2'] = ('10.0.0.3', U2_PORT, 0)
                remote2 = '@@other\\albums\\' + remote.replace('/', '\\').split('\\')[-1]
                tw.su = ScriptedUploader(tw, net, remote2, name='upl2', port=U2_PORT)
                await tw.su.start()
                t2 = Transfer('upl2', remote2, TransferDirection.DOWNLOAD)
                tw.dt = t2
                t2.state_listeners.append(_Listener(tw, 'd'))
                tw.events.append(dict(ev='init', mode='scrU', size=size2, k0=0, b0=0, st='QUEUED'))
                tw.events[0]['snap'] = tw.snap()
                self.twin = tw
                self.barrier = tw.barrier = _Barrier(loop, skew, first)
                if len(s['twin']) > 3 and s['twin'][3] == 'same_ticket':
                    tw.ticket_from = self

            # the download
            if D is not None:
                t = Transfer('upl', remote, TransferDirection.DOWNLOAD)
                if s['resume']:
                    t.local_path = os.path.join(dl, 'song.bin')
                    with open(t.local_path, 'wb') as fh:
                        fh.write(self.src[:s['k0']])
                    t.filesize = s['size']
                    t.bytes_transfered = s['b0']
                    t.state = TransferState.init_from_state(TransferState.INCOMPLETE, t)
                self.dt = t
                t.state_listeners.append(_Listener(self, 'd'))
                self.events.append(dict(ev='init', mode=s['mode'], size=s['size'], k0=s['k0'], b0=s['b0'],
                                        st='INCOMPLETE' if s['resume'] else 'QUEUED'))
                self.events[0]['snap'] = self.snap()
                self.events[0]['snap']['dst'] = self.events[0]['st']
                await D.transfers.add(t)
                if t2 is not None:
                    await D.transfers.add(t2)
                if not s['resume']:
                    await t.state.queue()
                if t2 is not None:
                    await t2.state.queue()
            else:
                self.events.append(dict(ev='init', mode=s['mode'], size=s['size'], k0=0, b0=0, st='QUEUED'))
                self.events[0]['snap'] = self.snap()
                await self.sd.start()

            nf = len(s['faults']) + len([x for x in s['script'] if x[0] != 'honest'])
            bound = (nf + 1) * CHAIN_S + 60
            await self._until_quiescent(D, bound)
            self.event('final', expect=self._expect(), bound=int(bound * 1000) + 1000,
                       pd=self.progress['d'], pu=self.progress['u'])
            self.finished = True
            if self.twin is not None:
                self.twin.event('final', expect='dcomplete', bound=int(bound * 1000) + 1000, pd=-1, pu=-1)
                self.twin.finished = True
            self.notes.append(f'unhandled={len(loop.unhandled)}')
        finally:
            for c in clients:
                try:
                    await asyncio.wait_for(c.stop(), 30)
                except BaseException:   # noqa
                    pass
            net.uninstall()
        return self.events

    def _watch_progress(self, client, event_class, who):
        def on_progress(ev):
            for transfer, _prev, cur in ev.updates:
                if transfer is (self.dt if who == 'd' else self.ut):
                    self.progress[who] = cur.bytes_transfered
        self._keep.append(on_progress)
        client.events.register(event_class, on_progress)

    def _expect(self):
        s = self.s
        if s['mode'] == 'real2':
            return 'settled'
        if s['mode'] == 'scrU':
            return 'dcomplete' if all(x[0] in ('honest', 'fail_early', 'abandon', 'less_close', 'stall') for x in s['script']) \
                and s['retry'] else 'any'
        if s['mode'] == 'scrD':
            return 'ucomplete' if all(x[0] == 'ok' and (x[2] == 'all' or x[2][0] == 'slow_close') for x in s['script']) \
                else 'any'
        return 'any'

    def _settled(self):
        d, u = self.d_state(), self.u_state()
        if self.pending_holds:
            return False
        if self.twin is not None and not self.twin._settled():
            return False
        if self.s['mode'] == 'scrD':
            return d in ('COMPLETE', 'FAILED', 'INCOMPLETE') and u in ('COMPLETE', 'FAILED') and self.sd.idle
        urs = (self.ut.fail_reason is not None) if self.ut is not None else (self.su.rsn if self.su else False)
        return d == 'COMPLETE' and (u == 'COMPLETE' or (u == 'FAILED' and urs))

    async def _until_quiescent(self, D, bound):
        loop = self.loop
        deadline = self.t0 + bound
        stable = 0
        want_retry = 0
        retries = 0
        while loop.time() < deadline:
            await asyncio.sleep(0.5)
            if self._settled():
                stable += 1
                if stable >= 6:
                    return
                continue
            stable = 0
            if self.dt is not None and self.s['retry'] and retries < 4:
                d, u = self.d_state(), self.u_state()
                if d == 'FAILED' and self.dt.fail_reason is not None and u not in ('INITIALIZING', 'UPLOADING', 'QUEUED'):
                    want_retry += 1
                    if want_retry >= 3:
                        want_retry = 0
                        retries += 1
                        try:
                            await D.transfers.queue(self.dt)
                        except Exception as exc:   # an observation, not a harness failure
                            self.event('exc', what=type(exc).__name__)
                else:
                    want_retry = 0


class _Barrier:
    """Hands the tickets of two file connections to the downloader together (the later one skew loop
    iterations after the first), so that both downloads prepare their local path at the same time."""

    def __init__(self, loop, skew, first):
        self.loop, self.skew, self.first = loop, skew, first
        self.pending = {}
        self.released = False

    def arrive(self, who, fn):
        if self.released:
            fn()
            return
        self.pending[who] = fn
        if len(self.pending) == 2:
            self.release()
        elif len(self.pending) == 1:
            self.loop.call_later(2.0, self.release)       # the other connection never came: do not hold for ever

    def release(self):
        if self.released:
            return
        self.released = True
        order = [self.first, 'twin' if self.first == 'ours' else 'ours']
        fns = [self.pending[w] for w in order if w in self.pending]

        def hop(k, fn):
            if k <= 0:
                fn()
            else:
                self.loop.call_soon(hop, k - 1, fn)
        if fns:
            fns[0]()
        for fn in fns[1:]:
            hop(self.skew, fn)


class _Listener:
    def __init__(self, run, who):
        self.run, self.who = run, who

    async def on_transfer_state_changed(self, transfer, old, new):
        if self.who == 'd' and old.name == 'VIRGIN':
            return
        self.run.event(self.who, old=old.name, new=new.name, rsn=transfer.fail_reason is not None,
                       entering=(self.who == 'd' and new.name == 'DOWNLOADING'))


# ---------------------------------------------------------------------------
# scripted counterparts
# ---------------------------------------------------------------------------

async def _read_frame(ep):
    return await ep.read_frame()


class ScriptedUploader:
    """Another client implementation on the uploading side.  script[i] for the i-th attempt (honest afterwards):
       ('honest',) | ('more', n) n junk bytes beyond the announced size | ('less_close', k) close after k bytes
       | ('stall', k) stop after k bytes, keep the connection | ('fail_early',) PeerUploadFailed instead of a request
       | ('abandon',) give up silently after the reply (no file connection)"""

    def __init__(self, run: Run, net, remote, name='upl', port=U_PORT):
        from aioslsk.protocol import messages as M
        self.M, self.run, self.net, self.remote = M, run, net, remote
        self.peer = ScriptedPeer(net, name, port)
        self.state = 'NONE'
        self.rsn = False
        self.ticket = 100 if name == 'upl' else 5000       # tickets are the uploader's own numbering
        self.attempt = 0
        self.busy = False
        self.reply_waiters = {}
        self.tasks = []

    async def start(self):
        self.peer.on_accept = self._accept
        await self.peer.listen()

    def _set(self, new, rsn=False):
        old = 'VIRGIN' if self.state == 'NONE' else self.state
        self.state, self.rsn = new, rsn
        self.run.event('u', old=old, new=new, rsn=rsn)

    async def _accept(self, ep):
        M = self.M
        first = await ep.read_frame()
        if first is None:
            return
        while True:
            frame = await ep.read_frame()
            if frame is None:
                return
            try:
                msg = M.PeerMessage.deserialize_request(frame)
            except Exception:
                continue
            if isinstance(msg, M.PeerTransferQueue.Request):
                if self.state in ('NONE', 'FAILED', 'COMPLETE') and not self.busy:
                    self._set('QUEUED')
                    self.busy = True
                    self.tasks.append(asyncio.get_running_loop().create_task(self._attempts(ep)))
            elif isinstance(msg, M.PeerTransferReply.Request):
                fut = self.reply_waiters.get(msg.ticket)
                if fut is not None and not fut.done():
                    fut.set_result(msg)

    async def _attempts(self, pep):
        try:
            while self.state == 'QUEUED':
                await asyncio.sleep(0.05)
                await self._attempt(pep)
        finally:
            self.busy = False

    async def _attempt(self, pep):
        M, run = self.M, self.run
        sc = run.s['script'][self.attempt] if self.attempt < len(run.s['script']) else ('honest',)
        self.attempt += 1
        size = run.s['size']
        if sc[0] == 'fail_early':
            self._set('FAILED')
            pep.send_message(M.PeerUploadFailed.Request(self.remote))
            return
        self._set('INITIALIZING')
        self.ticket += 1
        tk = self.ticket
        if run.ticket_from is not None:
            # two uploaders number their transfers independently: nothing keeps them from choosing the same ticket
            for _ in range(200):
                if run.ticket_from.req_ticket is not None:
                    break
                await asyncio.sleep(0.01)
            tk = run.ticket_from.req_ticket if run.ticket_from.req_ticket is not None else tk
        fut = asyncio.get_running_loop().create_future()
        self.reply_waiters[tk] = fut
        pep.send_message(M.PeerTransferRequest.Request(1, tk, self.remote, filesize=size))
        try:
            reply = await asyncio.wait_for(fut, 30)
        except asyncio.TimeoutError:
            self._set('QUEUED')
            return
        if not reply.allowed:
            self._set('FAILED', rsn=True)
            return
        if sc[0] == 'abandon':
            self._set('FAILED')
            return
        fep = await self.peer.dial(D_PORT, typ='F', ticket=0)
        fep.send(struct.pack('<I', tk))
        try:
            raw = await fep.reader.readexactly(8)
        except (asyncio.IncompleteReadError, ConnectionError):
            fep.close()
            self._set('QUEUED')
            return
        off = struct.unpack('<Q', raw)[0]
        self._set('UPLOADING')
        body = run.src[off:]
        limit = len(body)
        if sc[0] in ('less_close', 'stall'):
            limit = min(sc[1], max(0, len(body) - 1))
        sent = 0
        while sent < limit:
            if fep.link.dead and fep.link.reset[0] is not None:
                # like a real sender: the write fails on a reset connection -> FAILED + PeerUploadFailed
                self._set('FAILED')
                pep.send_message(M.PeerUploadFailed.Request(self.remote))
                return
            n = min(8192, limit - sent)
            fep.send(body[sent:sent + n])
            sent += n
            await asyncio.sleep(0)
        if sc[0] == 'more':
            run_n = sc[1]
            fi = run.flink
            fi.u_data += b''            # accounting is done by the link wrapper
            fep.send(_JUNK[:run_n])
            sent += run_n
            run.event('scr', act='junk', n=run_n)
        if sc[0] == 'less_close' and len(body) > 0:
            fep.close()
            self._set('FAILED')
            return
        if sc[0] == 'stall' and len(body) > 0:
            run.event('scr', act='stall', n=0)
            await self._wait_end(fep)
            self._set('FAILED')
            return
        await self._wait_end(fep)
        fep.close()
        self._set('COMPLETE' if off + sent == size else 'FAILED')

    @staticmethod
    async def _wait_end(fep):
        try:
            while True:
                data = await fep.reader.read(65536)
                if not data:
                    return
        except ConnectionError:
            return


class ScriptedDownloader:
    """Another client implementation on the downloading side.  script[i] = (kind, o, how):
       kind 'ok' (any offset o <= size) | 'bad' (o > size); how 'all' (read what remains, then close)
       | ('early', k) close after k bytes | ('slow_close', secs) read what remains, close secs seconds later."""

    def __init__(self, run: Run, net, remote):
        from aioslsk.protocol import messages as M
        self.M, self.run, self.net, self.remote = M, run, net, remote
        self.peer = ScriptedPeer(net, 'dwn', D_PORT)
        self.state = 'QUEUED'
        self.buf = bytearray()
        self.attempt = 0
        self.idle = True
        self.rq = False
        self.expect = {}

    def _set(self, new, rsn=False):
        old, self.state = self.state, new
        self.run.event('d', old=old, new=new, rsn=rsn)

    async def start(self):
        self.peer.on_accept = self._accept_file
        await self.peer.listen()
        self.pep = await self.peer.dial(U_PORT, typ='P', ticket=0)
        self.pep.send_message(self.M.PeerTransferQueue.Request(self.remote))
        self.task = asyncio.get_running_loop().create_task(self._control())

    async def _control(self):
        M = self.M
        while True:
            frame = await self.pep.read_frame()
            if frame is None:
                return
            try:
                msg = M.PeerMessage.deserialize_request(frame)
            except Exception:
                continue
            if isinstance(msg, M.PeerTransferRequest.Request) and self.state == 'FAILED' and self.idle:
                self.rq = True                     # like the real client: FAILED -> QUEUED (remotely), then go on
                self._set('QUEUED')
            if isinstance(msg, M.PeerTransferRequest.Request) and self.state in ('QUEUED', 'INCOMPLETE'):
                self.idle = False
                self._set('INITIALIZING')
                self.expect[msg.ticket] = msg.filesize
                self.pep.send_message(M.PeerTransferReply.Request(ticket=msg.ticket, allowed=True))
            elif isinstance(msg, M.PeerTransferRequest.Request) and self.state == 'COMPLETE':
                self.pep.send_message(M.PeerTransferReply.Request(ticket=msg.ticket, allowed=False, reason='Complete'))

    async def _accept_file(self, ep):
        run = self.run
        first = await ep.read_frame()
        if first is None:
            return
        try:
            raw = await ep.reader.readexactly(4)
        except (asyncio.IncompleteReadError, ConnectionError):
            return
        tk = struct.unpack('<I', raw)[0]
        size = self.expect.pop(tk, None)
        if size is None:
            ep.close()
            return
        kind, o, how = run.s['script'][min(self.attempt, len(run.s['script']) - 1)]   # the last entry repeats
        self.attempt += 1
        ep.send(struct.pack('<Q', o))
        if ep.link.dead and ep.link.reset[1] is not None:
            self._set('QUEUED')           # the offset could not be written: back in the queue (no further attempt scripted)
            self.idle = True
            return
        self._set('DOWNLOADING')
        need = size - o
        slow = how[1] if how != 'all' and how[0] == 'slow_close' else 0
        if slow:
            how = 'all'
        want = need if how == 'all' else min(how[1], max(0, need - 1))
        got = 0
        try:
            while got < want:
                data = await ep.reader.read(8192)
                if not data:
                    break
                self.buf += data
                got += len(data)
        except ConnectionError:
            pass
        if slow:
            await asyncio.sleep(slow)     # has everything, takes its time to close
        ep.close()
        if how == 'all' or need <= 0:
            ok = (o + got == size)
            self._set('COMPLETE' if ok else 'FAILED', rsn=not ok)
        else:
            self._set('INCOMPLETE')
        self.idle = True


# ---------------------------------------------------------------------------
# running a schedule
# ---------------------------------------------------------------------------

def add_lookahead(events):
    """nlen: D's file length at the end of the current attempt = the len of the next record (at or
    after this one) that closes an attempt (d leaving DOWNLOADING, offset, final)."""
    nxt = -1
    for rec in reversed(events):
        sn = rec['snap']
        closes = (rec['ev'] == 'd' and rec.get('old') == 'DOWNLOADING') or rec['ev'] in ('offset', 'final')
        if closes and sn['len'] >= 0:
            nxt = sn['len']
        rec['nlen'] = nxt
    return events


def run_schedule(s, root):
    tmp = tempfile.mkdtemp(prefix='r-', dir=root)
    run = Run(s, tmp)
    try:
        events, loop = vloop.run(lambda lp: run.main(lp))
    finally:
        shutil.rmtree(tmp, ignore_errors=True)
    return add_lookahead(events), run


# ---------------------------------------------------------------------------
# schedules: enumerated grid
# ---------------------------------------------------------------------------

def cut_points(size, chunk):
    pts = {0, 1, chunk - 1, chunk, chunk + 1, size // 2, size - 1, size}
    return sorted(p for p in pts if 0 <= p <= size)


def grid(thorough: bool, rng):
    out = []
    add = out.append
    lim = [(0, 0), (16, 0), (0, 16)] + ([(16, 16), (1, 0)] if thorough else [])
    segs = ['none', 'odd', 'one', 'half']
    # A. no fault: every size, limits, segmentations
    for size in SIZES:
        for (ul, dlm) in lim:
            for seg in (segs if thorough or (ul, dlm) == (0, 0) else ['none']):
                add(sched(size=size, ulimit=ul, dlimit=dlm, seg=seg))
        add(sched(size=size, fdelay=1.0))
    # B. resume from a partial file, with a fresh and with a stale counter
    for size in SIZES:
        for k0 in sorted({1, size // 2, size - 1, size} & set(range(0, size + 1))):
            for b0 in sorted({k0, 0, k0 // 2}):
                add(sched(size=size, k0=k0, b0=b0, resume=True))
        add(sched(size=size, k0=0, b0=0, resume=True))
    # C. one cut of the file connection at every interesting byte, reset and EOF
    for size in SIZES:
        for (ul, chunk) in ((0, 8192), (16, 128)):
            if size == 0 and ul:
                continue
            pts = cut_points(size, chunk)
            if not thorough and ul:
                pts = [p for p in pts if p in (chunk, size - 1)]
            for k in pts:
                for mode in ('reset', 'eof'):
                    add(sched(size=size, ulimit=ul, faults=[(1, 'cut', mode, 'data', k)],
                              seg='none' if not thorough else rng.choice(segs)))
    # D. cuts during the negotiation (ticket / offset)
    for size in (0, 129, 8193):
        for mode in ('reset', 'eof'):
            for t in (0, 2):
                add(sched(size=size, faults=[(1, 'cut', mode, 'ticket', t)]))
            add(sched(size=size, faults=[(1, 'cut', mode, 'offset', 0)]))
        add(sched(size=size, faults=[(1, 'cut', 'eof', 'offset', 4)]))
    # E. lost control frames, alone and combined with cuts; repeated faults
    for size in (1, 8193, 3 * 8192 + 5):
        add(sched(size=size, faults=[(1, 'lose_reply')]))
        add(sched(size=size, faults=[(1, 'lose_request')]))
        add(sched(size=size, faults=[(1, 'lose_reply'), (1, 'cut', 'reset', 'data', size // 2)]))
        add(sched(size=size, faults=[(1, 'lose_request'), (2, 'lose_reply')]))
        add(sched(size=size, faults=[(1, 'cut', 'reset', 'data', size // 3), (2, 'cut', 'eof', 'data', size // 3)]))
        add(sched(size=size, faults=[(1, 'cut', 'eof', 'data', size // 3), (2, 'cut', 'reset', 'data', 0 if size < 3 else 1)]))
        add(sched(size=size, k0=size // 2, b0=0, faults=[(1, 'cut', 'reset', 'data', 1)]))
    # H. a rate-limited uploader that has written everything but still waits for tokens when the
    #    connection is reset in the last chunk (the re-queue overtakes the end of the upload)
    add(sched(size=3000, ulimit=1, faults=[(1, 'cut', 'reset', 'data', 2950)], src='grid!'))
    add(sched(size=3 * 8192 + 5, ulimit=2, faults=[(1, 'cut', 'reset', 'data', 3 * 8192 + 1)], src='grid!'))
    # I. the peer's close comes long after the uploader's last byte (> 60 s peer read timeout, towards the
    #    180 s data timeout): slow network, rate-limited downloader, scripted downloader that delays its close
    add(sched(size=3 * 8192 + 5, ddelay=70.0, src='grid!'))
    add(sched(size=8193, ddelay=170.0, src='grid!'))
    add(sched(size=100000, dlimit=1, src='grid!'))
    add(sched(mode='scrD', size=8193, script=[('ok', 0, ('slow_close', 70))], src='grid!'))
    add(sched(mode='scrD', size=8193, script=[('ok', 1, ('slow_close', 200))], src='grid!'))
    add(sched(size=129, ulimit=16, ddelay=100.0, k0=1, b0=1))
    # J. delivery orders of PeerUploadFailed against the file connection and the next attempt: held back until
    #    the next attempt is DOWNLOADING; overtaking data that is still in flight (the uploader's end breaks)
    add(sched(size=3 * 8192 + 5, ulimit=4, faults=[(1, 'cut', 'reset', 'data', 3000), (1, 'hold_upfailed', 1.0)], src='grid!'))
    add(sched(size=3 * 8192 + 5, ulimit=4, faults=[(1, 'cut', 'reset', 'data', 3000), (1, 'hold_upfailed', 0.3)], src='grid!'))
    add(sched(size=3 * 8192 + 5, ulimit=16, ddelay=2.0, faults=[(1, 'ufail', 4000)], src='grid!'))
    add(sched(size=3 * 8192 + 5, ulimit=16, ddelay=2.0, faults=[(1, 'ufail', 4000), (1, 'hold_upfailed', 5.0)], src='grid!'))
    add(sched(size=8193, faults=[(1, 'ufail', 0)], src='grid!'))
    for size in (8193, 3 * 8192 + 5):
        add(sched(size=size, ulimit=16, faults=[(1, 'ufail', size // 2), (1, 'hold_upfailed', 0.1)]))
        add(sched(size=size, ulimit=4, faults=[(1, 'cut', 'reset', 'data', 1000), (1, 'hold_upfailed', 0.06),
                                               (2, 'cut', 'reset', 'data', 1000), (2, 'hold_upfailed', 2.0)]))
    # K. a second download of an equally named file (other content) from a second uploader on the same
    #    downloader, the two file connections handed over in the same / adjacent loop iterations: every
    #    download keeps its own local file; and the same with both uploaders using the same ticket number
    add(sched(size=8193, twin=(8193, 0, 'ours'), src='grid!'))
    add(sched(size=8193, twin=(8193, 2, 'twin'), src='grid!'))
    add(sched(size=3 * 8192 + 5, twin=(129, 1, 'twin'), src='grid!'))
    add(sched(size=8193, ulimit=16, twin=(8193, 3, 'ours'), src='grid!'))
    add(sched(mode='scrU', size=129, twin=(8193, 0, 'twin'), src='grid!'))
    add(sched(size=8193, k0=100, b0=100, twin=(200, 0, 'ours'), src='grid!'))
    add(sched(size=8193, faults=[(1, 'cut', 'reset', 'data', 4000)], twin=(8193, 1, 'ours'), src='grid!'))
    add(sched(size=8193, twin=(8193, 1, 'ours', 'same_ticket'), src='grid!'))
    add(sched(size=8193, twin=(8193, 0, 'twin', 'same_ticket'), src='grid!'))
    add(sched(size=3 * 8192 + 5, twin=(129, 2, 'ours', 'same_ticket'), src='grid!'))
    if thorough:
        for size in (0, 1, 129, 8192, 8193, 3 * 8192 + 5):
            for skew in range(0, 7):
                add(sched(size=size, twin=(rng.choice([size, 129, 8193]), skew, rng.choice(['ours', 'twin']))))
            add(sched(size=size, twin=(size, rng.choice([0, 1, 2, 4]), rng.choice(['ours', 'twin']), 'same_ticket')))
    if thorough:
        for size in SIZES[1:]:
            for _ in range(6):
                ks = sorted(rng.sample(range(0, size + 1), min(3, size + 1)))
                fl = [(i + 1, 'cut', rng.choice(['reset', 'eof']), 'data', max(0, k - (ks[i - 1] if i else 0)))
                      for i, k in enumerate(ks)]
                add(sched(size=size, ulimit=rng.choice([0, 16]), seg=rng.choice(segs), faults=fl))
    # F. scripted uploader: other implementation / dishonest sender
    for size in (0, 1, 129, 8192, 8193, 3 * 8192 + 5):
        add(sched(mode='scrU', size=size))
        add(sched(mode='scrU', size=size, script=[('fail_early',)]))
        add(sched(mode='scrU', size=size, script=[('abandon',)]))
        for n in (1, 10, 8192):
            add(sched(mode='scrU', size=size, script=[('more', n)], retry=False))
        if size > 1:
            for k in sorted({0, 1, size // 2, size - 1}):
                add(sched(mode='scrU', size=size, script=[('less_close', k)]))
            add(sched(mode='scrU', size=size, script=[('stall', size // 2)]))
            add(sched(mode='scrU', size=size, script=[('fail_early',), ('less_close', 1), ('stall', 0)]))
    add(sched(mode='scrU', size=8193, script=[('more', 10)], retry=True))
    # G. scripted downloader: any offset, offset beyond the size, early close
    for size in (0, 1, 129, 8193, 3 * 8192 + 5):
        for o in sorted({0, 1, size // 2, size} & set(range(0, size + 1))):
            add(sched(mode='scrD', size=size, script=[('ok', o, 'all')]))
        for o in (size + 1, size + 8192):
            add(sched(mode='scrD', size=size, script=[('bad', o, 'all')]))
        if size > 1:
            add(sched(mode='scrD', size=size, script=[('ok', 0, ('early', size // 2))]))
            add(sched(mode='scrD', size=size, script=[('ok', 1, ('early', 0))]))
    return out


# ---------------------------------------------------------------------------
# schedules: from TLC behaviours of the design spec
# ---------------------------------------------------------------------------

def _blen(segs):
    return sum((s['b'] if s['a'] == 0 else s['b'] - s['a'] + 1) for s in segs)


def _conc_size(a, c, rng):
    return {0: 0, 1: rng.choice([1, c - 1]), 2: c, 3: c + 1, 4: 2 * c, 5: 3 * c + 5}[a]


def _conc_pos(p, a, c, size_c, rng):
    if p <= 0:
        return 0
    if p >= a:
        return size_c + (p - a)
    return max(1, min(size_c - 1, (p // 2) * c + (p % 2) * rng.choice([1, c // 2, c - 1])))


def behaviour_to_sched(beh, rng):
    """Project a behaviour of FileTransfer (small abstract sizes, Chunk = 2) onto a concrete schedule:
    the initial partial file, the faults with the attempt they hit and where, the scripted acts."""
    st0 = beh[0][1]
    mode = str(st0['mode'])
    a = int(st0['size'])
    limited = mode == 'real2' and rng.random() < 0.4
    c = 128 if limited else 8192
    size = _conc_size(a, c, rng)
    pos = lambda p: _conc_pos(p, a, c, size, rng)   # noqa: E731
    k0 = pos(_blen(st0['local']))
    b0 = min(k0, pos(int(st0['cnt'])))
    resume = str(st0['stD']) == 'INCOMPLETE'
    faults, script = [], []
    attempt = nreq = nrep = nuf = 0
    cur = None                 # scripted entry of the current attempt
    for i in range(1, len(beh)):
        pre, post = beh[i - 1][1], beh[i][1]
        lab = beh[i][0]
        if lab == 'UInitialize':
            nreq += 1
            if mode == 'scrU':
                cur = ['honest']
                script.append(cur)
        if lab == 'DRecvRequest' and len(post['chDU']) > len(pre['chDU']):
            nrep += 1
        if lab == 'UOpenFileConn':
            attempt += 1
        if mode == 'scrD' and pre['fc']['off'] < 0 <= post['fc']['off']:
            o = int(post['fc']['off'])
            cur = ['ok' if o <= a else 'bad', pos(o), 'all']
            script.append(cur)
        if sum(1 for m in post['chUD'] if m['t'] == 'upfailed') > sum(1 for m in pre['chUD'] if m['t'] == 'upfailed'):
            nuf += 1
        if lab == 'HoldUpFailed':
            if mode == 'real2':
                faults.append((nuf, 'hold_upfailed', rng.choice([0.06, 0.3, 1.0, 5.0])))
            continue
        if int(post['faults']) == int(pre['faults']):
            continue
        if lab in ('LoseRequest', 'LoseReply') and mode != 'real2':
            continue            # a scripted party does not re-open its peer connection: not realised
        if lab == 'LoseRequest':
            faults.append((nreq, 'lose_request'))
        elif lab == 'LoseReply':
            faults.append((nrep, 'lose_reply'))
        elif lab == 'BreakUSide':
            if mode != 'scrU':       # the scripted uploader has its own way of failing (less_close)
                faults.append((attempt, 'ufail', max(0, pos(int(pre['offU']) + int(pre['sentU'])) - pos(int(pre['offU'])))))
        elif lab == 'ScrUFailEarly':
            script.append(['fail_early'])
        elif lab == 'ScrUAbandon':
            if cur is not None:
                cur[:] = ['abandon']
        elif lab.startswith('ScrUSendJunk'):
            if cur is not None and cur[0] == 'honest':
                cur[:] = ['more', rng.choice([1, 10, 8192])]
        elif lab == 'ScrUCloseEarly':
            if cur is not None:
                cur[:] = ['less_close', max(0, pos(int(pre['offU']) + int(pre['sentU'])) - pos(int(pre['offU'])))]
        elif lab == 'ScrUStall':
            if cur is not None:
                cur[:] = ['stall', max(0, pos(int(pre['offU']) + int(pre['sentU'])) - pos(int(pre['offU'])))]
        elif lab == 'ScrDCloseEarly':
            if cur is not None:
                cur[2] = ('early', max(0, pos(int(pre['cnt'])) - cur[1]))
        elif str(pre['fc']['st']) == 'open' and str(post['fc']['st']) in ('reset', 'eof'):
            m = str(post['fc']['st'])
            if pre['fc']['tk'] >= 0 and post['fc']['tk'] < 0:
                faults.append((attempt, 'cut', m, 'ticket', rng.choice([0, 2])))
            elif pre['fc']['tk'] >= 0:
                faults.append((attempt, 'cut', m, 'data', 0))
            elif pre['fc']['off'] >= 0 and post['fc']['off'] < 0:
                if mode != 'scrD':      # a scripted downloader may leave at once; the cut would hit a closed link
                    faults.append((attempt, 'cut', m, 'offset', 0 if m == 'reset' else rng.choice([0, 4])))
            else:
                off = int(pre['offU']) if str(pre['pcU']) in ('send', 'waiteof') else _blen(pre['local'])
                got = (int(pre['recvD']) if str(pre['pcD']) in ('recv', 'verdict') else 0) + _blen(post['fc']['fl'])
                faults.append((attempt, 'cut', m, 'data', max(0, pos(off + got) - pos(off))))
    # one fault per (attempt, kind): the harness arms one cut per file connection
    seen, fl = set(), []
    for f in faults:
        if (f[0], f[1]) not in seen and f[0] >= 1:
            seen.add((f[0], f[1]))
            fl.append(f)
    retry = not any(x[0] == 'more' for x in script)
    if any(f[1] == 'hold_upfailed' for f in fl):
        limited = True           # keep the next attempt running long enough for the late message to meet it
    return sched(mode=mode, size=size, k0=k0, b0=b0, resume=resume, ulimit=16 if limited else 0,
                 seg=rng.choice(['none', 'none', 'odd', 'half']), faults=fl, script=script, retry=retry, src='tlc')


# ---------------------------------------------------------------------------
# diagnosis and fingerprints
# ---------------------------------------------------------------------------

def first_unexplained(traces_by_tid):
    """For rejected traces: the first record no path of the trace spec can consume.  The traces are
    validated once more with C04_PROGRESS=1, which makes the trace spec report every consumed record."""
    tids = sorted(traces_by_tid)
    out = {tid: 2 for tid in tids}
    if not tids:
        return out
    v = tlc.validate_traces(TRACE, 'Trace.cfg', [traces_by_tid[t] for t in tids], max_diag=0, timeout=1500,
                            env={'C04_PROGRESS': '1'})
    for m in re.finditer(r'<<"AT", (\d+), (\d+)>>', ' '.join(v.result.prints)):
        tid = tids[int(m.group(1)) - 1]
        out[tid] = max(out[tid], int(m.group(2)) + 1)
    # every record consumed and still not accepted: the state after the last record breaks a constraint
    return {tid: min(n, len(traces_by_tid[tid])) for tid, n in out.items()}


def classify(trace, at, s):
    """Fingerprint of a rejected trace: the failing call site / input class."""
    if not at:
        return 'C04:rejected-trace'
    rec = trace[at - 1] if 1 <= at <= len(trace) else {}
    ev = rec.get('ev')
    size = trace[0]['size']
    before = trace[:at - 1]
    last_off = next((r for r in reversed(before) if r['ev'] == 'offset'), None)
    since = before[before.index(last_off):] if last_off is not None else before
    d_since = [r for r in since[1:] if r['ev'] == 'd']
    in_attempt = last_off is not None and all(r.get('new') == 'DOWNLOADING' for r in d_since)
    # the attempt had nothing to receive (offset at or beyond the announced size) and the download is still
    # reading: whatever it does next (read timeout, junk, EOF) comes from waiting for data that will never come
    if in_attempt and last_off['val'] >= size and last_off['snap']['fcs'] == 'open' and (
            (ev == 'd' and rec.get('old') == 'DOWNLOADING' and rec.get('new') != 'COMPLETE')
            or (ev == 'final' and rec['snap']['dst'] == 'DOWNLOADING')
            or (ev == 'u' and rec.get('old') == 'UPLOADING' and rec['snap']['dst'] == 'DOWNLOADING')):
        return 'C04:_download_file:nothing-remaining:waits-for-data-until-read-timeout'
    if ev == 'final' and rec['snap']['dst'] == 'INITIALIZING' and last_off is not None \
            and last_off['snap']['fcs'] == 'ended' and not d_since:
        return 'C04:_initialize_download:offset-write-fails:download-stays-INITIALIZING'
    if ev == 'd' and rec.get('new') == 'COMPLETE' and trace[0]['mode'] != 'scrD' and rec['snap']['len'] >= 0 \
            and not rec['snap']['iden']:
        return 'C04:download-COMPLETE-but-local-file-is-not-the-remote-file'
    if s and len(s.get('twin') or ()) > 3 and s['twin'][3] == 'same_ticket':
        # two uploaders that number their transfers alike: the file connection is handed to the wrong download
        return 'C04:_on_peer_initialized:file-connection-matched-by-ticket-only:two-uploaders-same-ticket'
    if ev == 'offset':
        return 'C04:offset-on-the-wire-is-not-the-local-file-size'
    if ev in ('d', 'u'):
        return f"C04:{'download' if ev == 'd' else 'upload'}:{rec.get('old')}->{rec.get('new')}:not-allowed-here"
    if ev == 'final':
        return f"C04:not-finished-in-time:{rec['snap']['dst']}/{rec['snap']['ust']}"
    return f'C04:unexplained:{ev}'


# ---------------------------------------------------------------------------
# the check
# ---------------------------------------------------------------------------

def _signature(ev):
    return tuple((e['ev'], e.get('old'), e.get('new'), e.get('kind'), e.get('val'), e['snap']['len'], e['snap']['sent'])
                 for e in ev)


def corrupt(traces):
    """Binding self-test: falsify one recorded field; every result must be rejected."""
    out = []

    def pick(pred, n=2):
        got = 0
        for tr in traces:
            for i, e in enumerate(tr):
                if pred(tr, i, e):
                    yield tr, i
                    got += 1
                    break
            if got >= n:
                return

    for tr, i in pick(lambda tr, i, e: e['ev'] == 'd' and e.get('new') == 'COMPLETE' and e['snap']['len'] > 0 and tr[0]['mode'] != 'scrD'):
        bad = copy.deepcopy(tr)                       # the finished file is one byte short
        for e in bad[i:]:
            e['snap']['len'] -= 1
            e['snap']['iden'] = False
        out.append(('file-one-byte-short', add_lookahead(bad)))
    for tr, i in pick(lambda tr, i, e: e['ev'] == 'd' and e.get('new') == 'COMPLETE' and e['snap']['len'] > 0 and tr[0]['mode'] != 'scrD'):
        bad = copy.deepcopy(tr)                       # right length, wrong content
        for e in bad[i:]:
            e['snap']['iden'] = False
            e['snap']['pre'] = False
        out.append(('file-not-identical', bad))
    for tr, i in pick(lambda tr, i, e: e['ev'] == 'offset' and e['val'] > 0 and tr[0]['mode'] != 'scrD'):
        bad = copy.deepcopy(tr)                       # resumes one byte too early
        bad[i]['val'] -= 1
        out.append(('offset-not-file-size', bad))
    for tr, i in pick(lambda tr, i, e: e['ev'] == 'u' and e.get('new') == 'COMPLETE'):
        bad = copy.deepcopy(tr)                       # upload COMPLETE while the peer has not closed
        bad[i]['snap']['fcs'] = 'open'
        out.append(('upload-complete-before-close', bad))
    for tr, i in pick(lambda tr, i, e: e['ev'] == 'u' and e.get('new') == 'COMPLETE' and e['snap']['sent'] > 0):
        bad = copy.deepcopy(tr)                       # upload COMPLETE one byte short
        j = i
        while j >= 0 and bad[j]['snap']['sent'] == tr[i]['snap']['sent']:
            bad[j]['snap']['sent'] -= 1
            j -= 1
        out.append(('upload-complete-one-byte-short', bad))
    for tr, i in pick(lambda tr, i, e: e['ev'] == 'd' and e.get('old') == 'DOWNLOADING' and e.get('new') == 'COMPLETE' and tr[0]['mode'] != 'scrD'):
        bad = copy.deepcopy(tr)                       # spurious INCOMPLETE
        bad[i]['new'] = 'INCOMPLETE'
        for e in bad[i:]:
            if e['snap']['dst'] == 'COMPLETE':
                e['snap']['dst'] = 'INCOMPLETE'
        out.append(('incomplete-without-a-break', bad))
    for tr, i in pick(lambda tr, i, e: e['ev'] == 'final' and e['expect'] == 'settled' and e['snap']['dst'] == 'COMPLETE'):
        bad = copy.deepcopy(tr)                       # never finishes: cut the trace before the last attempt ends
        k = max(j for j, e in enumerate(bad) if e['ev'] == 'd' and e.get('new') == 'COMPLETE')
        fin = bad[-1]
        fin['snap'] = copy.deepcopy(bad[k - 1]['snap'])
        fin['snap']['t'] = tr[-1]['snap']['t']
        out.append(('never-finishes', add_lookahead(bad[:k] + [fin])))
    return out


def run(chk: Check, args):
    thorough = chk.tier == 'thorough'
    chk.cov['rule'] = ('a schedule = (who is real, file size, bytes already on disk + stale counter, bandwidth limits, '
                       'segmentation, faults per attempt, scripted acts); schedules come from an enumerated grid over the '
                       'concrete sizes {0,1,127,128,129,8191,8192,8193,3*8192+5} x cut points x reset/EOF and from '
                       'TLC-simulated behaviours of FileTransfer projected onto their faults; each is executed with two real '
                       'SoulSeekClients (or one real client + scripted counterpart) on the simulated network in virtual '
                       'time and the recorded execution is validated by TLC against FileTransferTrace; distinct = distinct '
                       '(schedule, recorded trace); non-trivial = a file connection was opened')
    # -- design model ------------------------------------------------------------------
    acts = ['DQueueRemotely', 'DRecvRequest', 'DRequeueOnRequest', 'DFileConnTimeout', 'DOffsetErr', 'DPickPath',
            'DCreateFile', 'DStartDownload',
            'DRecv', 'DSeeEof', 'DSeeReset', 'DDataTimeout', 'DTimedOut', 'DClose', 'DVerdict', 'DRecvUpFailed',
            'UserRetry', 'URecvQueue', 'UInitialize', 'URecvReply', 'UReplyTimeout', 'UOpenFileConn', 'URecvOffset',
            'UOffsetFail', 'USend', 'USendDone', 'UVerdict', 'LoseRequest', 'LoseReply', 'BreakUSide', 'HoldUpFailed',
            'ReleaseUpFailed', 'ScrUFailEarly', 'ScrUAbandon',
            'ScrUSendJunk', 'ScrUCloseEarly', 'ScrUStall', 'ScrUStallEnd', 'ScrDCloseEarly']
    r = tlc.model_check(SPEC, 'MC_quick.cfg', expect_actions=acts, timeout=1200)
    chk.add_model('FileTransfer sizes 0..3, chunk 2, F=1 (exhaustive, safety + liveness)', r)
    # releasing the download-path lock before the file exists must break "the local file is the source"
    rp = tlc.run_tlc(SPEC, 'MC_code_path.cfg', timeout=900)
    hit = any(i.kind == 'invariant' and i.name in ('PrefixKept', 'DCompleteIsIdentical') for i in rp.issues)
    chk.cov['binding_selftest']['model_PathLockFix_FALSE_violates_PrefixKept'] = hit
    if not hit:
        raise MachineryFailure('MC_code_path.cfg: the early release of the path lock did not violate the file invariants')
    rt = tlc.model_check(SPEC, 'MC_twin.cfg', expect_actions=['TPickPath', 'TCreateFile', 'TWrite', 'DPickPath', 'DCreateFile'],
                         timeout=1200)
    chk.add_model('FileTransfer with a twin download of an equally named file, sizes 0..3, F=0 (exhaustive)', rt)
    if thorough:
        rtb = tlc.model_check(SPEC, 'MC_twin_big.cfg', timeout=3000)
        chk.add_model('FileTransfer with a twin download, sizes 0..2, F=1 (exhaustive)', rtb)
    if thorough:
        rm = tlc.model_check(SPEC, 'MC_mid.cfg', timeout=3000)
        chk.add_model('FileTransfer sizes 0..5, chunk 2, F=1 (exhaustive, safety + liveness)', rm)
        rb = tlc.model_check(SPEC, 'MC_big.cfg', timeout=3000)
        chk.add_model('FileTransfer sizes 0..3, chunk 2, F=2 (exhaustive, safety + liveness)', rb)
    # the design as found in the code must violate the liveness property: the property has teeth
    for cfg, key in (('MC_code_zero.cfg', 'model_ZeroFix_FALSE_violates_Finishes'),
                     ('MC_code_offerr.cfg', 'model_OffsetErrFix_FALSE_violates_Finishes'),
                     ('MC_code_late.cfg', 'model_LateNotice_TRUE_violates_Finishes')):
        rc = tlc.run_tlc(SPEC, cfg, timeout=900)
        hit = any(i.kind == 'temporal' for i in rc.issues)
        chk.cov['binding_selftest'][key] = hit
        if not hit:
            raise MachineryFailure(f'{cfg}: the code-position switch did not violate Finishes')

    # -- schedules ----------------------------------------------------------------------
    scheds = {}
    for s in grid(thorough, chk.rng):
        scheds.setdefault(sched_key(s), s)
    n_grid = len(scheds)
    behs, sres = tlc.simulate_behaviours(SPEC, 'MC_sim.cfg', num=2500 if thorough else 160, depth=80,
                                         seed=chk.seed + 1, timeout=900)
    for b in behs:
        s = behaviour_to_sched(b, chk.rng)
        scheds.setdefault(sched_key(s), s)
    chk.cov['schedules_grid'] = n_grid
    chk.cov['schedules_from_tlc_behaviours'] = len(scheds) - n_grid
    chk.log(f'{n_grid} grid schedules + {len(scheds) - n_grid} from {len(behs)} simulated behaviours')
    order = list(scheds.values())
    if not thorough:
        # quick: a seeded sample of the grid that keeps every class, plus the TLC-derived ones
        keep = [s for s in order if s['src'] == 'tlc']
        always = [s for s in order if s['src'] == 'grid!']
        g = [s for s in order if s['src'] == 'grid']
        chk.rng.shuffle(g)
        must = [s for s in g if s['size'] in (0, 8193) or s['mode'] != 'real2' or s['resume'] or s['ulimit'] in (1, 2)]
        rest = [s for s in g if s not in must]
        order = always + must[:150] + rest[:70] + keep[:80]

    # -- replay on the real code ----------------------------------------------------------
    root = tempfile.mkdtemp(prefix='c04-')
    traces, metas = [], []
    try:
        for s in order:
            ev, run_ = run_schedule(s, root)
            traces.append(ev)
            metas.append(dict(sched=s, notes=run_.notes))
            chk.count((sched_key(s), _signature(ev)), nontrivial=any(e['ev'] == 'offset' for e in ev))
            if run_.twin is not None:           # the second download of the run is judged like the first
                tev = add_lookahead(run_.twin.events)
                traces.append(tev)
                metas.append(dict(sched=s, notes=run_.notes, pair='twin'))
                chk.count((sched_key(s), 'twin', _signature(tev)), nontrivial=any(e['ev'] == 'offset' for e in tev))
    finally:
        shutil.rmtree(root, ignore_errors=True)
    chk.log(f'executed {len(traces)} schedules on the real code')
    for i in (0, len(traces) // 3, len(traces) - 1):
        chk.sample(dict(schedule=metas[i]['sched'],
                        trace=[{k: v for k, v in e.items() if k != 'snap'} | dict(t=e['snap']['t'], d=e['snap']['dst'],
                                                                                     u=e['snap']['ust'], len=e['snap']['len'])
                               for e in traces[i]]))

    # -- verdicts (TLC) ---------------------------------------------------------------------
    v = tlc.validate_traces(TRACE, 'Trace.cfg', traces, max_diag=0, timeout=2400, env={'C04_PROGRESS': '0'})
    if v.rejected:
        at = first_unexplained({tid: traces[tid - 1] for tid in v.rejected})
        for tid in sorted(v.rejected):
            tr = traces[tid - 1]
            v.rejected[tid] = dict(kind='unexplained_event', name='NoSpecActionMatches', at=at[tid],
                                   event={k: x for k, x in tr[min(at[tid], len(tr)) - 1].items()},
                                   detail='first record no path of FileTransferTrace can consume')
    chk.apply_verdicts(v, traces, lambda tid, info, tr: classify(tr, info['at'], metas[tid - 1]['sched']),
                       meta_of=lambda tid: metas[tid - 1])
    chk.log(f'trace validation: {len(v.accepted)} accepted, {len(v.rejected)} rejected')

    # -- binding self-test: corrupted records must be rejected ---------------------------------
    good = [traces[tid - 1] for tid in sorted(v.accepted)]
    bad = corrupt(good)
    if bad:
        cv = tlc.validate_traces(TRACE, 'Trace.cfg', [b for _, b in bad], max_diag=0, timeout=900, env={'C04_PROGRESS': '0'})
        missed = [bad[tid - 1][0] for tid in cv.accepted]
        kinds = sorted({k for k, _ in bad})
        chk.cov['binding_selftest']['corrupted_traces_rejected'] = f'{len(cv.rejected)}/{len(bad)}'
        chk.cov['binding_selftest']['corruption_kinds'] = kinds
        if missed:
            raise MachineryFailure(f'corrupted traces were accepted by the trace spec: {missed}')
        if len(kinds) < 6:
            chk.notes.append(f'only {len(kinds)} corruption kinds could be built from the accepted traces')
    chk.assumptions += [
        'the simulated transport delivers bytes in order, EOF or reset to both ends at the same instant; no half-open '
        'connections, no kernel buffering; after a reset, writes fail; after an EOF cut, writes are lost silently',
        'timing: the downloader\'s management cycle (>= 50 ms) is slower than the uploader\'s reaction to the end of a '
        'connection once it has nothing left to send (UNoticedEnd in FileTransfer.tla)',
        'a download that FAILED with a reason (premature EOF = "Cancelled") is terminal by design; the harness plays the '
        'user and re-queues it once the uploader is idle (UserRetry)',
        'bounded-time form of the liveness property: finished within (faults + 1) x 300 s + 60 s of virtual time',
        'the scripted uploader / downloader stand for other client implementations; content is not authenticated by the '
        'protocol, so a dishonest sender is limited to too few / too many bytes',
    ]


def replay(chk: Check, data: dict):
    """Re-execute the schedule of a replay file on the current tree and validate the new trace(s)."""
    s = ((data.get('replay') or {}).get('meta') or {}).get('sched')
    if not s:
        raise MachineryFailure('no schedule in the replay file')
    s = sched(**{k: v for k, v in s.items() if k in ('mode', 'size', 'k0', 'b0', 'resume', 'ulimit', 'dlimit', 'seg',
                                                     'fdelay', 'ddelay', 'faults', 'script', 'retry', 'twin', 'src')})
    root = tempfile.mkdtemp(prefix='c04-')
    try:
        ev, run_ = run_schedule(s, root)
    finally:
        shutil.rmtree(root, ignore_errors=True)
    evs = [ev] + ([add_lookahead(run_.twin.events)] if run_.twin is not None else [])
    for e in evs:
        chk.count((sched_key(s), _signature(e)))
    v = tlc.validate_traces(TRACE, 'Trace.cfg', evs, max_diag=0, env={'C04_PROGRESS': '0'})
    if v.rejected:
        at = first_unexplained({tid: evs[tid - 1] for tid in v.rejected})
        for tid in v.rejected:
            tr = evs[tid - 1]
            v.rejected[tid] = dict(kind='unexplained_event', name='NoSpecActionMatches', at=at[tid],
                                   event=tr[min(at[tid], len(tr)) - 1], detail='')
    chk.apply_verdicts(v, evs, lambda tid, info, tr: classify(tr, info['at'], s),
                       meta_of=lambda tid: dict(sched=s, pair='twin' if tid == 2 else 'ours'))
    for i, tr in enumerate(evs):
        chk.log('--- ours' if i == 0 else '--- twin download')
        for e in tr:
            sn = e['snap']
            chk.log({k: x for k, x in e.items() if k not in ('snap', 'nlen')},
                    f"t={sn['t']} d={sn['dst']} u={sn['ust']} len={sn['len']} sent={sn['sent']} fcs={sn['fcs']}")

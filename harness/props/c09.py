"""C09 - peer-chosen names never escape the download directory or clobber a file (spec: Naming).

Part A (path algebra): every (remote path, chain, pre-existing content) case of the design model's
bounds is executed on the real `SharesManager.calculate_download_path` / `naming.chain_strategies`
in a temporary download directory, with several concrete spellings of the abstract components.
Part B (start-up race): a real SoulSeekClient on the simulated network downloads equally named
files from scripted uploaders; `create_directory` / `open` run through the loop's executor gate so
the interleaving of a TLC behaviour is forced.  Every recorded execution is judged by TLC against
specs/Naming/NamingTrace.tla.
"""
from __future__ import annotations

import asyncio
import copy
import itertools
import os
import re
import shutil
import struct
import tempfile

from .. import tlc, vloop
from ..core import Check, MachineryFailure

SPEC = 'Naming/Naming.tla'
TRACE = 'Naming/NamingTrace.tla'
WORKERS = min(8, int(os.environ.get('VERIF_TLC_WORKERS', '8') or 8))
MAX_IDX = 6
RACE_MARK = 'race:same-local-path:check-then-create'


# ---------------------------------------------------------------------------
# constants of a model configuration (single source: the .cfg file)
# ---------------------------------------------------------------------------

def read_cfg(cfg: str) -> dict:
    txt = open(os.path.join(tlc.SPECS, 'Naming', cfg), encoding='utf8').read()
    out = {}
    for m in re.finditer(r'^\s*(\w+)\s*=\s*(.+)$', txt, re.M):
        try:
            out[m.group(1)] = tlc.parse_value(m.group(2).strip())
        except ValueError:
            pass
    return out


# ---------------------------------------------------------------------------
# concretisation: abstract component kinds -> spellings
# ---------------------------------------------------------------------------

_L = 'L' * 236
PROFILES = [
    # plain
    {'n1': 'song.mp3', 'n2': 'album', 'n3': 'other', 'long': 'x' * 236 + '.flac',
     'uni': 'Björk – Jóga.mp3', '@@x': '@@abcde', 'C:': 'C:'},
    # very long names (NAME_MAX is 255 bytes; numbered variants must still fit)
    {'n1': _L + '.mp3', 'n2': 'D' * 250, 'n3': 'E' * 240, 'long': 'y' * 244 + '.ogg',
     'uni': '日本語' * 26 + '.flac', '@@x': '@@' + 'q' * 200, 'C:': 'z:'},
    # non-ASCII
    {'n1': 'Björk – Jóga.mp3', 'n2': 'Sigur Rós – Ágætis byrjun', 'n3': 'дир',
     'long': 'é' * 110 + '.mp3', 'uni': '日本語の曲.flac', '@@x': '@@ñandú', 'C:': 'd:'},
    # names with regex / numbering look-alikes, no extension, leading dot
    {'n1': 'a+b [1] (live) (1).mp3', 'n2': 'dir (1).d', 'n3': '.hidden', 'long': 'noext' * 40,
     'uni': 'naïve (2)', '@@x': '@@', 'C:': 'Q:'},
]
SEP_STYLES = ['\\', '/', '\\/alt', '\\\\', '//', '\\/']   # how one abstract joint is written


def sep_for(style: int, i: int) -> str:
    s = SEP_STYLES[style % len(SEP_STYLES)]
    if s == '\\/alt':
        return '\\' if i % 2 == 0 else '/'
    return s


class Spelling:
    """Bijection between abstract names (kind, or kind#i for a numbered duplicate) and the
    concrete file names of one profile."""

    def __init__(self, profile: int):
        self.profile = profile % len(PROFILES)
        self.kinds = dict(PROFILES[self.profile])
        self.kinds.update({'..': '..', '.': '.', '': ''})
        self._rev = {}
        for k in self.kinds:
            for i in range(0, MAX_IDX + 3):
                a = k if i == 0 else f'{k}#{i}'
                self._rev.setdefault(self.concrete(a), a)
                if 1 <= i <= 3:      # a numbered name that is numbered again (remote files called "x (1).mp3")
                    for j in range(1, MAX_IDX + 1):
                        self._rev.setdefault(self.concrete(f'{a}#{j}'), f'{a}#{j}')

    def concrete(self, name: str) -> str:
        base, sep, idx = name.rpartition('#')
        if not sep:
            return self.kinds[name]
        stem, ext = os.path.splitext(self.concrete(base))
        return f'{stem} ({idx}){ext}'

    def abstract(self, name: str) -> str:
        if name in ('.', '..', ''):
            return name
        a = self._rev.get(name)
        return a if a is not None else '?' + name[:48]

    def remote(self, comps, style: int) -> str:
        parts = [self.concrete(c) for c in comps]
        out = ''
        for i, p in enumerate(parts):
            if i:
                out += sep_for(style, i)
            out += p
        return out


def strategies_of(chain: str):
    from aioslsk import naming
    cls = {'D': naming.DefaultNamingStrategy, 'K': naming.KeepDirectoryStrategy, 'N': naming.NumberDuplicateStrategy}
    return [cls[c]() for c in chain]


# ---------------------------------------------------------------------------
# file-system helpers
# ---------------------------------------------------------------------------

def make_tree(dl: str, sp: Spelling, files, dirs):
    os.makedirs(dl)
    for d in sorted(dirs, key=len):
        os.makedirs(os.path.join(dl, *[sp.concrete(c) for c in d]), exist_ok=True)
    for f in files:
        p = os.path.join(dl, *[sp.concrete(c) for c in f])
        os.makedirs(os.path.dirname(p), exist_ok=True)
        with open(p, 'wb'):
            pass


def snapshot(caseroot: str) -> set:
    out = set()
    for base, dns, fns in os.walk(caseroot):
        rel = os.path.relpath(base, caseroot)
        for n in dns:
            out.add(('d', os.path.normpath(os.path.join(rel, n))))
        for n in fns:
            out.add(('f', os.path.normpath(os.path.join(rel, n))))
    return out


def observe_choice(dl: str, sp: Spelling, result) -> dict:
    """Project the value returned by the code under test: components relative to the download
    directory ('.' and '..' kept as returned), existence now, realpath relation."""
    if not (isinstance(result, tuple) and len(result) == 2 and all(isinstance(x, str) for x in result)):
        return dict(rel=['..', '?malformed-return'], existed=False, realInside=False, raw=repr(result)[:120])
    full = os.path.join(result[0], result[1])
    return observe_path(dl, sp, full)


_REAL: dict = {}


def _same_entry(caseroot: str, rel: str, result) -> bool:
    try:
        return os.path.normpath(os.path.join(caseroot, rel)) == os.path.normpath(os.path.join(result[0], result[1]))
    except Exception:
        return False


def observe_path(dl: str, sp: Spelling, full: str) -> dict:
    if full == dl:
        comps = ['.']
    elif full.startswith(dl + os.sep):
        comps = full[len(dl) + 1:].split(os.sep)
    else:
        comps = None
    try:
        rp = os.path.realpath(full)
        rdl = _REAL.get(dl)
        if rdl is None:
            rdl = _REAL[dl] = os.path.realpath(dl)
    except (OSError, ValueError):
        rp, rdl = full, dl
    real_inside = rp.startswith(rdl + os.sep) and rp != rdl
    if comps is None:
        comps = rp[len(rdl) + 1:].split(os.sep) if real_inside else ['..', '?' + full[-48:]]
    try:
        existed = os.path.lexists(full)
    except (OSError, ValueError):
        existed = False
    return dict(rel=[sp.abstract(c) for c in comps], existed=bool(existed), realInside=bool(real_inside),
                raw=full if len(full) < 200 else full[:80] + '...' + full[-80:])


# ---------------------------------------------------------------------------
# Part A: the path algebra on the real strategies
# ---------------------------------------------------------------------------

def num(b: str, i: int) -> str:
    return b if i == 0 else f'{b}#{i}'


def pre_content(comps, P, Q):
    """Pre-existing entries for a remote path: the names the strategies would naturally pick
    (same construction as PreFiles/PreDirs in Naming.tla; it is input generation only, the trace
    spec takes the entries from the log)."""
    ps = [c for c in comps if c not in ('.', '..', '')]
    if not ps:
        return frozenset(), frozenset()
    f = ps[-1]
    root = {(num(f, i),) for i in P}
    files, dirs = set(root), set()
    if len(ps) >= 2 and Q != frozenset({9}) and (ps[-2],) not in root:
        dirs.add((ps[-2],))
        files |= {(ps[-2], num(f, i)) for i in Q}
    return frozenset(files), frozenset(dirs)


def enumerate_cases(consts: dict):
    comps_alpha = sorted(consts['Comps'])
    seen = set()
    for n in range(consts['MinLen'], consts['MaxLen'] + 1):
        for comps in itertools.product(comps_alpha, repeat=n):
            for chain in sorted(consts['Chains']):
                if 'N' in chain:
                    pqs = [(P, Q) for P in sorted(consts['RootPre'], key=sorted)
                           for Q in sorted(consts['SubPre'], key=sorted)]
                else:       # PreChoices in Naming.tla
                    pqs = [(frozenset(), frozenset({9})), (frozenset({0}), frozenset({0}))]
                for P, Q in pqs:
                    files, dirs = pre_content(comps, P, Q)
                    key = (comps, chain, files, dirs)
                    if key in seen:
                        continue
                    seen.add(key)
                    yield key


class PathRunner:
    def __init__(self, root: str):
        from aioslsk.events import EventBus
        from aioslsk.settings import Settings
        from aioslsk.shares.manager import SharesManager
        from unittest.mock import MagicMock
        self.root = tempfile.mkdtemp(prefix='a', dir=root)
        self.settings = Settings(credentials={'username': 'me', 'password': 'pw'})
        self.sm = SharesManager(self.settings, EventBus(), MagicMock())
        # a manager whose naming_strategies are never touched: the library's default configuration,
        # documented (USAGE.rst, "File naming") as original file name + number when the file exists
        self.settings_default = Settings(credentials={'username': 'me', 'password': 'pw'})
        self.sm_default = SharesManager(self.settings_default, EventBus(), MagicMock())
        self._trees = {}
        self._n = 0
        self._strats = {}

    def tree(self, sp: Spelling, files, dirs):
        key = (sp.profile, files, dirs)
        t = self._trees.get(key)
        if t is None:
            self._n += 1
            caseroot = os.path.join(self.root, f'a{self._n}')
            os.makedirs(caseroot)
            dl = os.path.join(caseroot, 'dl')
            make_tree(dl, sp, files, dirs)
            t = self._trees[key] = (caseroot, dl, snapshot(caseroot))
        return t

    def run_case(self, case, sp: Spelling, style: int, entry: str):
        from aioslsk import naming
        comps, chain, files, dirs = case
        caseroot, dl, snap0 = self.tree(sp, files, dirs)
        remote = sp.remote(comps, style)
        strategies = self._strats.get(chain)
        if strategies is None:
            strategies = self._strats[chain] = strategies_of(chain)
        head = dict(ev='case', chain=chain, files=sorted(list(f) for f in files),
                    dirs=sorted(list(d) for d in dirs), remotes=[list(comps)])
        extra = []
        try:
            if entry == 'chain':
                result = naming.chain_strategies(strategies, remote, dl)
            elif entry == 'default':
                self.settings_default.shares.download = dl
                result = self.sm_default.calculate_download_path(remote)
            else:
                self.settings.shares.download = dl
                self.sm.naming_strategies = strategies
                result = self.sm.calculate_download_path(remote)
        except Exception as exc:   # the code under test raised instead of choosing: an observation
            changed = self._changes(sp, files, dirs)
            ev = dict(ev='refused', d=1, clean=not changed, exc=type(exc).__name__)
        else:
            ev = dict(ev='chosen', d=1, **observe_choice(dl, sp, result))
            # choosing may create things below the download directory (not constrained); anything
            # created elsewhere, or removed, is recorded and has no action in the trace spec
            for kind, rel in self._changes(sp, files, dirs):
                if kind == 'removed' or not (rel == 'dl' or rel.startswith('dl' + os.sep)):
                    extra.append(dict(ev='created_outside', path=f'{kind}:{rel[:80]}'))
                elif kind == 'created' and ev['existed'] and _same_entry(caseroot, rel, result):
                    ev['existed'] = False      # created by the choice itself (a reservation), not found
        meta = dict(remote=remote if len(remote) < 160 else remote[:70] + '...' + remote[-70:],
                    chain=chain, profile=sp.profile, sep_style=style, entry=entry)
        return [head, ev] + extra, meta

    def _changes(self, sp: Spelling, files, dirs):
        """What the call changed in the tree; a changed tree is not reused."""
        key = (sp.profile, files, dirs)
        caseroot, dl, snap0 = self._trees[key]
        snap = snapshot(caseroot)
        if snap == snap0:
            return []
        del self._trees[key]
        return ([('created', rel) for _, rel in sorted(snap - snap0)] +
                [('removed', rel) for _, rel in sorted(snap0 - snap)])


def run_paths(chk: Check, cfg: str, root: str, spellings_per_case: int, cap=None):
    consts = read_cfg(cfg)
    cases = list(enumerate_cases(consts))
    chk.cov.setdefault('cases_enumerated', {})[cfg] = len(cases)
    if cap is not None and len(cases) > cap:
        chk.rng.shuffle(cases)
        cases = sorted(cases[:cap], key=repr)
        chk.cov['cases_enumerated'][cfg + ':sampled'] = len(cases)
    runner = PathRunner(root)
    spell = [Spelling(i) for i in range(len(PROFILES))]
    traces, metas = [], []
    for i, case in enumerate(cases):
        for k in range(spellings_per_case):
            j = i + k + chk.seed
            sp = spell[j % len(spell)]
            style = (j // len(spell) + k) % len(SEP_STYLES)
            entry = ('chain', 'cdp', 'default' if case[1] == 'DN' else 'cdp')[(i + k) % 3]
            tr, meta = runner.run_case(case, sp, style, entry)
            traces.append(tr)
            metas.append(meta)
            ev = tr[1]
            chk.count((case[0], case[1], case[2], case[3], sp.profile, style, entry), nontrivial=ev['ev'] == 'chosen')
    return traces, metas, cases


# ---------------------------------------------------------------------------
# Part B: start-up race on a real client
# ---------------------------------------------------------------------------

_LABEL = re.compile(r'(Choose|Wait|Mkdir|Touch|Start|Open|Finish|Abort|Pause|IoError|Resume)\((\d+)\)')
_STIM = {'Choose': 'start', 'Wait': 'start', 'Mkdir': 'dir', 'Touch': 'open', 'Open': 'open', 'Finish': 'finish',
         'Abort': 'abort', 'Pause': 'pause', 'IoError': 'ioerr', 'Resume': 'resume'}
FINAL_STATES = {'COMPLETE', 'FAILED', 'ABORTED', 'PAUSED', 'INCOMPLETE', 'QUEUED', 'VIRGIN'}


def _last_resume(out, d):
    for i in range(len(out) - 1, -1, -1):
        if out[i] == ('resume', d):
            return i
    return 0


def stimuli_of(labels):
    out = []
    for lab in labels:
        m = _LABEL.match(lab)
        if m and m.group(1) in _STIM:
            st = (_STIM[m.group(1)], int(m.group(2)))
            if st[0] == 'start' and out and st in out[_last_resume(out, st[1]):]:
                continue        # Wait(d) then Choose(d): the download arrives once (per attempt)
            out.append(st)
    return tuple(out)


def through_first(stim, kind: str):
    """The schedule up to and including its first stimulus of `kind` (a prefix of a behaviour is a
    behaviour); everything else is left to the drain phase, which first lets every other download
    arrive."""
    for i, st in enumerate(stim):
        if st[0] == kind:
            return stim[:i + 1]
    return None


def through_nth(stim, kind: str, n: int):
    """The schedule up to and including its n-th stimulus of `kind`."""
    k = 0
    for i, st in enumerate(stim):
        if st[0] == kind:
            k += 1
            if k == n:
                return stim[:i + 1]
    return None


def first_context(stim, kind: str):
    """Which download gets the first stimulus of `kind` and how far every download had got by then."""
    prog: dict = {}
    for what, d in stim:
        if what == kind:
            return d, tuple(sorted((k, tuple(v)) for k, v in prog.items()))
        prog.setdefault(d, []).append(what)
    return None


def case_of_state(st):
    remote = st['remote']
    n = len(remote)
    remotes = [list(remote[i] if isinstance(remote, tuple) else remote[i + 1]) for i in range(n)]
    return (tuple(tuple(r) for r in remotes), str(st['chain']),
            frozenset(tuple(f) for f in st['files']), frozenset(tuple(d) for d in st['dirs']))


class RaceRunner:
    """One run = one fresh client, n downloads, one stimulus schedule."""

    FILESIZE = 10

    def __init__(self, root: str):
        self.root = root
        self._n = 0

    def run(self, case, schedule, sp: Spelling, style: int, default_config: bool = False):
        self._n += 1
        self.default_config = default_config and case[1] == 'DN'
        caseroot = os.path.join(self.root, f'b{self._n}')
        os.makedirs(caseroot)
        events: list = []
        info: dict = {}
        try:
            _, loop = vloop.run(lambda lp: self._main(lp, caseroot, case, schedule, sp, style, events, info))
        finally:
            shutil.rmtree(caseroot, ignore_errors=True)
        return events, info

    async def _main(self, loop, caseroot, case, schedule, sp, style, events, info):
        from ..simnet import SimNet
        from ..simserver import ScriptedServer, ScriptedPeer, make_settings, make_client
        from aioslsk.protocol import messages as M

        remotes, chain, files, dirs = case
        n = len(remotes)
        dl = os.path.join(caseroot, 'dl')
        make_tree(dl, sp, files, dirs)
        events.append(dict(ev='case', chain=chain, files=sorted(list(f) for f in files),
                           dirs=sorted(list(d) for d in dirs), remotes=[list(r) for r in remotes]))
        net = SimNet(loop).install()
        client = None
        try:
            await ScriptedServer(net).start()
            settings = make_settings('me', download_dir=dl)
            client = make_client(settings)
            if not self.default_config:
                client.shares.naming_strategies = strategies_of(chain)
            await client.start()
            await client.login()
            await vloop.settle(loop)
            port = settings.network.listening.port

            transfers: list = []
            resume_pending = [False] * n    # re-queued, neither a new choice nor a use of the old path seen yet
            log: list = []              # true order of choices (wrapper) and creations (gate releases)
            seen_snap = [snapshot(caseroot)]

            # observe the return value of calculate_download_path at the moment of the choice
            orig_cdp = client.shares.calculate_download_path

            def observed_cdp(remote_path, *a, **kw):
                task = asyncio.current_task()
                d = next((i + 1 for i, t in enumerate(transfers) if getattr(t, '_transfer_task', None) is task), 0)
                try:
                    res = orig_cdp(remote_path, *a, **kw)
                except Exception as exc:
                    log.append(('raised', d, remote_path, type(exc).__name__))
                    raise
                ob = observe_choice(dl, sp, res)
                if ob['existed']:
                    # created by the choice itself (a reservation) rather than found?
                    for kind, rel in snapshot(caseroot) - seen_snap[0]:
                        if _same_entry(caseroot, rel, res):
                            ob['existed'] = False
                if d:
                    resume_pending[d - 1] = False
                log.append(('calc', d, remote_path, ob))
                return res
            client.shares.calculate_download_path = observed_cdp

            def diff_fs():
                cur = snapshot(caseroot)
                new = sorted(cur - seen_snap[0])
                gone = sorted(seen_snap[0] - cur)
                seen_snap[0] = cur
                for kind, rel in gone:
                    if kind == 'f' and rel.startswith('dl' + os.sep):
                        log.append(('removed', [sp.abstract(c) for c in rel[3:].split(os.sep)]))
                    elif not rel.startswith('dl' + os.sep):
                        log.append(('created_outside', 'removed:' + kind + ':' + rel[:80]))
                for kind, rel in new:
                    if rel == 'dl' or rel.startswith('dl' + os.sep):
                        if kind == 'f':
                            comps = rel[3:].split(os.sep)
                            log.append(('created', [sp.abstract(c) for c in comps]))
                    else:
                        log.append(('created_outside', kind + ':' + rel[:80]))

            # gated executor: directory creation and opening a file for writing wait for the schedule
            pending: dict[int, list] = {i + 1: [] for i in range(n)}

            def gate(func, a):
                f = getattr(func, 'func', func)
                kw = getattr(func, 'keywords', None) or {}
                fa = tuple(getattr(func, 'args', ())) + tuple(a)
                if f in (os.path.exists, os.makedirs, os.mkdir):
                    kind = 'dir'
                elif f is open and any(c in str(kw.get('mode', fa[1] if len(fa) > 1 else 'r')) for c in 'wax+'):
                    kind = 'open'
                else:
                    return None
                task = asyncio.current_task()
                d = next((i + 1 for i, t in enumerate(transfers) if getattr(t, '_transfer_task', None) is task), 0)
                if d == 0:
                    return None
                note_use(d)
                fut = loop.create_future()
                pending[d].append((kind, func, a, fut))
                return fut

            def note_use(d):
                """A re-queued download works on the local path it kept (no new choice was made)."""
                if resume_pending[d - 1] and transfers[d - 1].local_path is not None:
                    resume_pending[d - 1] = False
                    log.append(('using', d, observe_path(dl, sp, transfers[d - 1].local_path)))

            def release(d):
                kind, func, a, fut = pending[d].pop(0)
                if fut.done():
                    return
                try:
                    res = func(*a)
                except BaseException as exc:  # noqa: the library sees the OSError
                    fut.set_exception(exc)
                    log.append(('iofail', d, kind, type(exc).__name__))
                else:
                    fut.set_result(res)
                diff_fs()

            # scripted uploaders: a peer connection each, then the download is requested
            peers, feps = [], {}
            for i in range(n):
                p = ScriptedPeer(net, f'user{i + 1}')
                ep = await p.dial(port, 'P')
                peers.append((p, ep))
            await vloop.settle(loop)
            rpaths = []
            for i in range(n):
                rp = sp.remote(remotes[i], style + i)
                rpaths.append(rp)
                transfers.append(await client.transfers.download(peers[i][0].username, rp))
            await vloop.settle(loop)
            # state changes in their true order relative to choices and creations
            class _Listener:
                async def on_transfer_state_changed(self, transfer, old, new):
                    d = next((i + 1 for i, t in enumerate(transfers) if t is transfer), 0)
                    if d and new.name == 'DOWNLOADING':
                        note_use(d)
                    log.append(('state', d, new.name))
            listener = _Listener()
            for t in transfers:
                t.state_listeners.append(listener)
            tickets = [500 + i for i in range(n)]
            for i in range(n):
                peers[i][1].send_message(M.PeerTransferRequest.Request(1, tickets[i], rpaths[i], self.FILESIZE))
            await vloop.settle(loop)
            info['remote_paths'] = [r if len(r) < 120 else r[:50] + '...' + r[-50:] for r in rpaths]
            loop.executor_gate = gate

            reported_choice = [False] * n
            reported_final = [False] * n
            started = [False] * n
            sent = [False] * n
            aborted = [False] * n           # stopped by the user (abort / pause), until re-queued
            awaiting = [False] * n          # re-queued: the next thing reported is a choice or a resume

            def poll():
                diff_fs()
                for entry in log:
                    if entry[0] == 'calc':
                        _, d, rpath, ob = entry
                        if d == 0:
                            d = next((i + 1 for i in range(n) if not reported_choice[i] and rpaths[i] == rpath), 0)
                        if d and not reported_choice[d - 1]:
                            t = transfers[d - 1]
                            awaiting[d - 1] = False
                            if t.local_path is not None:
                                lp = observe_path(dl, sp, t.local_path)
                                # Transfer.local_path is what counts; existence is the one seen at the choice
                                same = lp['rel'] == ob['rel']
                                events.append(dict(ev='chosen', d=d, rel=lp['rel'],
                                                   existed=ob['existed'] if same else lp['existed'],
                                                   realInside=lp['realInside'] and (ob['realInside'] or not same),
                                                   raw=lp['raw']))
                                reported_choice[d - 1] = True
                    elif entry[0] == 'raised':
                        _, d, rpath, exc = entry
                        if d == 0:
                            d = next((i + 1 for i in range(n) if not reported_choice[i] and rpaths[i] == rpath), 0)
                        if d and not reported_choice[d - 1]:
                            events.append(dict(ev='refused', d=d, clean=True, exc=exc))
                            reported_choice[d - 1] = True
                    elif entry[0] == 'state':
                        _, d, st = entry
                        if d and st in FINAL_STATES and reported_choice[d - 1] and not reported_final[d - 1]:
                            events.append(dict(ev='finished', d=d, st=st))
                            reported_final[d - 1] = True
                    elif entry[0] == 'iofail':
                        if reported_choice[entry[1] - 1]:
                            events.append(dict(ev='iofail', d=entry[1], exc=entry[3]))
                    elif entry[0] in ('aborting', 'abort_refused', 'pausing'):
                        events.append(dict(ev=entry[0], d=entry[1]))
                    elif entry[0] == 'requeued':
                        d = entry[1]
                        events.append(dict(ev='requeued', d=d))
                        reported_choice[d - 1] = reported_final[d - 1] = False
                        awaiting[d - 1] = True
                    elif entry[0] == 'using':
                        _, d, ob = entry
                        if awaiting[d - 1]:
                            awaiting[d - 1] = False
                            reported_choice[d - 1] = True
                            events.append(dict(ev='resumed', d=d, rel=ob['rel'], raw=ob['raw']))
                    elif entry[0] == 'removed':
                        events.append(dict(ev='removed', rel=entry[1]))
                    elif entry[0] == 'created':
                        events.append(dict(ev='created', rel=entry[1]))
                    elif entry[0] == 'created_outside':
                        events.append(dict(ev='created_outside', path=entry[1]))
                log.clear()
                for i, t in enumerate(transfers):
                    if not reported_choice[i] and not awaiting[i] and t.local_path is not None:
                        # chosen without going through calculate_download_path
                        events.append(dict(ev='chosen', d=i + 1, **observe_path(dl, sp, t.local_path)))
                        reported_choice[i] = True
                for i, t in enumerate(transfers):
                    if reported_choice[i] and not reported_final[i] and t.state.VALUE.name in FINAL_STATES:
                        events.append(dict(ev='finished', d=i + 1, st=t.state.VALUE.name))
                        reported_final[i] = True

            async def start(d):
                if started[d - 1]:
                    return
                started[d - 1] = True
                fep = await peers[d - 1][0].dial(port, 'F')
                fep.send(struct.pack('<I', tickets[d - 1]))
                feps[d] = fep

            aborts = []

            async def abort(d):
                t = transfers[d - 1]
                try:
                    await client.transfers.abort(t)
                except asyncio.CancelledError:
                    raise
                except Exception as exc:     # the call raised: an observation
                    log.append(('abort_refused', d))
                    info.setdefault('abort_errors', []).append(type(exc).__name__)

            async def pause(d):
                try:
                    await client.transfers.pause(transfers[d - 1])
                except asyncio.CancelledError:
                    raise
                except Exception as exc:     # the call raised: an observation
                    log.append(('abort_refused', d))
                    info.setdefault('pause_errors', []).append(type(exc).__name__)

            async def resume(d):
                """The user queues the download again; the uploader offers the file again and opens a
                new file connection."""
                t = transfers[d - 1]
                if t.state.VALUE.name not in ('PAUSED', 'FAILED', 'ABORTED'):
                    return
                log.append(('requeued', d))
                resume_pending[d - 1] = True
                try:
                    await client.transfers.queue(t)
                except Exception as exc:     # the call raised: the download stays inactive
                    info.setdefault('queue_errors', []).append(type(exc).__name__)
                    return
                await vloop.settle(loop)
                aborted[d - 1] = started[d - 1] = sent[d - 1] = False
                tickets[d - 1] += 100
                peers[d - 1][1].send_message(M.PeerTransferRequest.Request(1, tickets[d - 1], rpaths[d - 1], self.FILESIZE))
                await vloop.settle(loop)
                await start(d)

            async def step(stim):
                what, d = stim
                if d < 1 or d > n:
                    return
                pending[d][:] = [g for g in pending[d] if not g[3].done()]     # cancelled with their task
                if what in ('abort', 'pause'):
                    if aborted[d - 1] or transfers[d - 1].state.VALUE.name in FINAL_STATES:
                        return
                    aborted[d - 1] = True
                    log.append(('aborting' if what == 'abort' else 'pausing', d))
                    aborts.append(asyncio.create_task(abort(d) if what == 'abort' else pause(d),
                                                      name=f'harness-{what}-{d}'))
                elif what == 'resume':
                    await resume(d)
                elif aborted[d - 1]:
                    return
                elif what == 'ioerr':
                    # the next file-system call of the prepare step raises an OSError
                    if pending[d]:
                        kind, func, a, fut = pending[d].pop(0)
                        if not fut.done():
                            import errno
                            fut.set_exception(OSError(errno.EIO, 'Input/output error (injected)'))
                            log.append(('iofail', d, kind, 'OSError'))
                elif what == 'start':
                    await start(d)
                elif what == 'dir':
                    for _ in range(3):
                        if pending[d] and pending[d][0][0] == 'dir':
                            release(d)
                            await vloop.settle(loop)
                        else:
                            break
                elif what == 'open':
                    if pending[d] and pending[d][0][0] == 'open':
                        release(d)
                elif what == 'finish':
                    await start(d)
                    await vloop.settle(loop)
                    for _ in range(8):
                        if not pending[d]:
                            break
                        release(d)
                        await vloop.settle(loop)
                        poll()
                    if not sent[d - 1]:
                        sent[d - 1] = True
                        feps[d].send(b'x' * self.FILESIZE)
                        feps[d].close()
                await vloop.settle(loop)
                poll()

            for stim in schedule:
                await step(stim)
            # drain: every other download arrives, then everything still pending is released and
            # every upload is delivered
            for d in range(1, n + 1):
                await step(('start', d))
            for _ in range(4):
                for d in range(1, n + 1):
                    await step(('finish', d))
                await asyncio.sleep(0.5)
                await vloop.settle(loop)
                poll()
                if all(t.state.VALUE.name in FINAL_STATES for t in transfers) and not any(pending.values()):
                    break
            info['final'] = [(t.state.VALUE.name, t.bytes_transfered) for t in transfers]
            info['unfinished'] = sum(1 for t in transfers if t.state.VALUE.name not in FINAL_STATES)
            loop.executor_gate = None
            client.shares.calculate_download_path = orig_cdp
        finally:
            loop.executor_gate = None
            try:
                if client is not None:
                    await client.stop()
            except Exception as exc:  # noqa
                info['stop_error'] = repr(exc)[:200]
            net.uninstall()


def race_schedules(chk: Check, thorough: bool):
    """(case, stimuli) pairs projected from TLC behaviours of the race model in the code's position
    (no lock: the largest set of interleavings)."""
    scheds = {}
    g, res = tlc.dump_graph(SPEC, 'MC_race2_graph.cfg', parse_states='init', timeout=900, workers=1)
    if res.issues:
        raise MachineryFailure(f'graph dump failed: {[(i.kind, i.name) for i in res.issues]}')
    paths = tlc.path_cover(g)
    for p in paths:
        case = case_of_state(g.states[p[0][0]])
        st = stimuli_of([e[1] for e in p])
        if st:
            scheds.setdefault((case, st), 'cover2')
    chk.cov['race_graph'] = dict(states=len(g.states), edges=len(g.edges), cover_paths=len(paths),
                                 schedules=len(scheds))
    chk.log(f'race graph: {len(g.states)} states, {len(g.edges)} edges, {len(paths)} cover paths, '
            f'{len(scheds)} schedules')
    # cancellation: 3 downloads, the user aborts downloads that wait for / are inside / have left the
    # path reservation (design position: the same run is the exhaustive check of that model)
    gc, resc = tlc.dump_graph(SPEC, 'MC_cancel3.cfg', parse_states='init', timeout=900, workers=1, coverage=True)
    missing = [a for a in ('Wait', 'Abort', 'Choose', 'Touch') if resc.coverage.get(a, (0, 0))[1] == 0]
    if missing:
        raise MachineryFailure(f'vacuity: actions never taken in MC_cancel3.cfg: {missing}')
    chk.add_model('Naming cancellation, 3 downloads with aborts (exhaustive, repaired design)', resc)
    cpaths = tlc.path_cover(gc)
    nfull = npre = 0
    for p in cpaths:
        case = case_of_state(gc.states[p[0][0]])
        st = stimuli_of([e[1] for e in p])
        if not st:
            continue
        pre = through_first(st, 'abort')
        if pre and (case, pre) not in scheds:
            scheds[(case, pre)] = 'cancel3-prefix'
            npre += 1
        if (case, st) not in scheds:
            scheds[(case, st)] = 'cancel3'
            nfull += 1
    chk.cov['cancel_graph'] = dict(states=len(gc.states), edges=len(gc.edges), cover_paths=len(cpaths),
                                   schedules=nfull, prefixes_through_first_abort=npre)
    chk.log(f'cancel graph: {len(gc.states)} states, {len(gc.edges)} edges, {len(cpaths)} cover paths, '
            f'{nfull} schedules + {npre} prefixes ending with the first abort')
    # interruption and resume: 2 downloads that are paused / aborted / hit an OSError anywhere in
    # their start-up and are queued again later (design position; the run is also the model check)
    gr, resr = tlc.dump_graph(SPEC, 'MC_resume2.cfg', parse_states='init', timeout=900, workers=1, coverage=True)
    missing = [a for a in ('Pause', 'Abort', 'IoError', 'Resume', 'Wait', 'Touch')
               if resr.coverage.get(a, (0, 0))[1] == 0]
    if missing:
        raise MachineryFailure(f'vacuity: actions never taken in MC_resume2.cfg: {missing}')
    chk.add_model('Naming interruption + resume, 2 downloads (exhaustive, repaired design)', resr)
    rpaths = tlc.path_cover(gr)
    nfull = npre = 0
    for p in rpaths:
        case = case_of_state(gr.states[p[0][0]])
        st = stimuli_of([e[1] for e in p])
        if not st:
            continue
        pre = through_first(st, 'resume')
        if pre and (case, pre) not in scheds:
            scheds[(case, pre)] = 'resume2-prefix'
            npre += 1
        if (case, st) not in scheds:
            scheds[(case, st)] = 'resume2'
            nfull += 1
    chk.cov['resume_graph'] = dict(states=len(gr.states), edges=len(gr.edges), cover_paths=len(rpaths),
                                   schedules=nfull, prefixes_through_first_resume=npre)
    chk.log(f'resume graph: {len(gr.states)} states, {len(gr.edges)} edges, {len(rpaths)} cover paths, '
            f'{nfull} schedules + {npre} prefixes ending with the first resume')
    # names that differ but collide through the duplicate strategy: N exists, the remote files are
    # called N and "N (1)" (also below a kept directory); all start orders (design position; the run
    # is also the model check)
    gk, resk = tlc.dump_graph(SPEC, 'MC_collide2.cfg', parse_states='init', timeout=900, workers=1, coverage=True)
    missing = [a for a in ('Choose', 'Wait', 'Touch', 'Open') if resk.coverage.get(a, (0, 0))[1] == 0]
    if missing:
        raise MachineryFailure(f'vacuity: actions never taken in MC_collide2.cfg: {missing}')
    chk.add_model('Naming colliding invented names, 2 downloads (exhaustive, repaired design)', resk)
    kpaths = tlc.path_cover(gk)
    nfull = npre = 0
    for p in kpaths:
        case = case_of_state(gk.states[p[0][0]])
        st = stimuli_of([e[1] for e in p])
        if not st:
            continue
        pre = through_nth(st, 'start', 2)
        if pre and (case, pre) not in scheds:
            scheds[(case, pre)] = 'collide2-prefix'
            npre += 1
        if (case, st) not in scheds:
            scheds[(case, st)] = 'collide2'
            nfull += 1
    chk.cov['collide_graph'] = dict(states=len(gk.states), edges=len(gk.edges), cover_paths=len(kpaths),
                                    schedules=nfull, prefixes_through_second_start=npre)
    chk.log(f'collide graph: {len(gk.states)} states, {len(gk.edges)} edges, {len(kpaths)} cover paths, '
            f'{nfull} schedules + {npre} prefixes ending with the second arrival')
    if thorough:
        behs, sres = tlc.simulate_behaviours(SPEC, 'MC_collide3.cfg', num=300, depth=16, seed=chk.seed + 11,
                                             timeout=900)
        nk3 = 0
        for b in behs:
            case = case_of_state(b[0][1])
            st = stimuli_of([lab for lab, _ in b[1:]])
            if st and (case, st) not in scheds:
                scheds[(case, st)] = 'collide3-sim'
                nk3 += 1
        chk.cov['collide_sim3'] = dict(behaviours=len(behs), new_schedules=nk3)
    if thorough:
        behs, sres = tlc.simulate_behaviours(SPEC, 'MC_race3_graph.cfg', num=400, depth=16, seed=chk.seed + 7,
                                             timeout=900)
        n3 = 0
        for b in behs:
            case = case_of_state(b[0][1])
            st = stimuli_of([lab for lab, _ in b[1:]])
            if st and (case, st) not in scheds:
                scheds[(case, st)] = 'sim3'
                n3 += 1
        chk.cov['race_sim3'] = dict(behaviours=len(behs), new_schedules=n3)
        chk.log(f'race simulation: {len(behs)} behaviours of the 3-download model, {n3} new schedules')
    return scheds


def run_races(chk: Check, root: str, thorough: bool):
    scheds = race_schedules(chk, thorough)
    groups = {}
    for k in sorted(scheds, key=repr):
        groups.setdefault(scheds[k], []).append(k)
    keys = []
    for src, ks in groups.items():
        if src in ('cancel3-prefix', 'resume2-prefix'):
            if thorough:
                keys += ks
                continue
            # quick: every context of a first abort / first resume (which download, how far each
            # download had got) once, the initial state (chain, pre-existing files) drawn with the seed
            kind = 'abort' if src == 'cancel3-prefix' else 'resume'
            chk.rng.shuffle(ks)
            seen_ctx = set()
            for k in ks:
                ctx = first_context(k[1], kind)
                if ctx not in seen_ctx:
                    seen_ctx.add(ctx)
                    keys.append(k)
            chk.cov[src.split('-')[0].rstrip('23') + '_contexts_run'] = len(seen_ctx)
            continue
        if src == 'collide2-prefix':
            if thorough:
                keys += ks
                continue
            # quick: for every initial state (remote names, chain, pre-existing files) and every
            # start order the schedule in which the second download arrives earliest
            best = {}
            for k in ks:
                ctx = (k[0], k[1][-1][1])
                if ctx not in best or len(k[1]) < len(best[ctx][1]):
                    best[ctx] = k
            keys += list(best.values())
            chk.cov['collide_start_orders_run'] = len(best)
            continue
        cap = {'cover2': 1600 if thorough else 150, 'cancel3': 2500 if thorough else 40,
               'resume2': 3000 if thorough else 40, 'collide2': 3000 if thorough else 30}.get(src, 1 << 30)
        if len(ks) > cap:
            # keep every distinct interleaving (stimulus sequence) at least once, then fill up
            chk.rng.shuffle(ks)
            by_sched, rest = {}, []
            for k in ks:
                if k[1] not in by_sched and len(by_sched) < cap:
                    by_sched[k[1]] = k
                else:
                    rest.append(k)
            ks = list(by_sched.values()) + rest[:max(0, cap - len(by_sched))]
        keys += ks
    keys = sorted(keys, key=repr)
    runner = RaceRunner(root)
    traces, metas = [], []
    unfinished = 0
    for i, (case, stim) in enumerate(keys):
        sp = Spelling(i + chk.seed)
        style = (i // len(PROFILES)) % len(SEP_STYLES)
        ev, info = runner.run(case, stim, sp, style, default_config=(i % 2 == 0))
        info['config'] = 'library default' if runner.default_config else 'explicit chain'
        unfinished += info.get('unfinished', 0)
        traces.append([{k: v for k, v in e.items()} for e in ev])
        metas.append(dict(schedule=[list(s) for s in stim], chain=case[1], profile=sp.profile, sep_style=style,
                          source=scheds[(case, stim)], **info))
        chk.count((case, stim, sp.profile, style), nontrivial=sum(1 for e in ev if e['ev'] == 'chosen') >= 2)
    chk.cov['race_runs'] = len(traces)
    chk.cov['race_cover_schedules_run'] = sum(1 for k in keys if scheds[k] == 'cover2')
    chk.cov['cancel_schedules_run'] = sum(1 for k in keys if scheds[k].startswith('cancel3'))
    chk.cov['resume_schedules_run'] = sum(1 for k in keys if scheds[k].startswith('resume2'))
    chk.cov['aborts_issued'] = sum(1 for t in traces for e in t if e['ev'] == 'aborting')
    chk.cov['pauses_issued'] = sum(1 for t in traces for e in t if e['ev'] == 'pausing')
    chk.cov['requeues_issued'] = sum(1 for t in traces for e in t if e['ev'] == 'requeued')
    chk.cov['resumed_with_kept_path'] = sum(1 for t in traces for e in t if e['ev'] == 'resumed')
    chk.cov['race_transfers_unfinished'] = unfinished
    return traces, metas


# ---------------------------------------------------------------------------
# verdicts
# ---------------------------------------------------------------------------

def _strip(tr):
    return [{k: v for k, v in e.items() if k not in ('raw', 'exc', 'st')} for e in tr]


def _fingerprint(tid, info, trace):
    ev = info.get('event') or {}
    case = trace[0]
    phase = 'race' if len(case.get('remotes', [])) > 1 else 'choice'
    if info.get('kind') == 'property':
        rel = ev.get('rel') or ['']
        d = ev.get('d', 1)
        remote = case['remotes'][d - 1] if 0 < d <= len(case['remotes']) else []
        if any(c.startswith('?') for c in rel) and rel[0] == '..':
            cls = 'outside-the-configured-download-directory'
        elif rel[-1] in ('.', '..', ''):
            cls = 'dot-component-as-file-name'
        elif any(c in ('.', '..') for c in rel[:-1]):
            cls = 'dot-component-as-directory'
        elif any(c in ('.', '..') for c in remote):
            cls = 'dot-component-in-remote-path'
        else:
            cls = f"chain={case.get('chain')}"
        return f"C09:{phase}:{info.get('name')}:{cls}"
    if ev.get('ev') == 'refused':
        return f'C09:{phase}:refusal-not-clean'
    if ev.get('ev') == 'created_outside':
        return f'C09:{phase}:created-outside-download-directory'
    if ev.get('ev') == 'chosen':
        return f'C09:{phase}:unexpected-choice'
    return f"C09:{phase}:unexplained:{ev.get('ev')}"


def _class_of(trace):
    """Syntactic class of a trace, used only to pick which rejected traces are diagnosed one by
    one (a TLC start each); the verdict itself is TLC's for every trace."""
    case = trace[0]
    dedup = case.get('chain') in ('DN', 'DKN', 'KDN')
    sig = [len(case.get('remotes', [])) > 1]
    for e in trace[1:]:
        if e['ev'] == 'chosen':
            rel = e['rel']
            sig.append(('chosen', rel[-1] if rel[-1] in ('.', '..', '') else 'name',
                        '..' in rel[:-1], e['existed'] and dedup))
        else:
            sig.append((e['ev'], e.get('clean')))
    return tuple(sig)


def validate(chk: Check, batches, chunk: int = 20000):
    """Batch validation of [(label, traces, metas)]; returns the list of findings
    (fingerprint, what, replay) in the order they are to be reported."""
    findings = []
    for label, traces, metas in batches:
        acc = rej = dis = 0
        diag_budget = 8
        diagnosed: dict = {}
        for base in range(0, len(traces), chunk):
            part = [_strip(t) for t in traces[base:base + chunk]]
            v = tlc.validate_traces(TRACE, 'Trace.cfg', part, workers=WORKERS, timeout=2400, chunk=chunk, max_diag=0)
            chk.cov['traces_validated_against_impl'] += v.n
            chk.add_trace_run(v.result)
            acc += len(v.accepted)
            rej += len(v.rejected)
            if v.result is not None and label == 'paths':    # single-step traces: no silent steps involved
                dis += len(set(re.findall(r'<<"DISAGREE", (\d+), \d+>>', ' '.join(v.result.prints))))
            for tid, marks in sorted(v.accepted.items()):
                for mk in sorted(marks):
                    findings.append((f'C09:{mk}', f'[{label}] deviation action {mk} taken in trace {base + tid}',
                                     dict(trace=traces[base + tid - 1], meta=metas[base + tid - 1])))
            for tid in sorted(v.rejected):
                tr = traces[base + tid - 1]
                cls = _class_of(tr)
                info = diagnosed.get(cls)
                inherited = info is not None
                if info is None and diag_budget > 0:
                    diag_budget -= 1
                    info = diagnosed[cls] = tlc.diagnose_trace(TRACE, 'TraceDiag.cfg', _strip(tr))
                if info is None:
                    fp, what = 'C09:rejected-trace', f'[{label}] trace {base + tid} rejected (not diagnosed)'
                    info = {}
                else:
                    fp = _fingerprint(tid, info, tr)
                    what = (f"[{label}] trace {base + tid} {info.get('kind')}: {info.get('name')} at event "
                            f"#{info.get('at')} {tr[-1] if len(tr) == 2 else info.get('event')}"
                            + (' (diagnosis of the first trace of the same shape)' if inherited else ''))
                findings.append((fp, what, dict(trace=tr, meta=metas[base + tid - 1],
                                                verdict={k: v2 for k, v2 in info.items()} if not inherited else
                                                dict(kind=info.get('kind'), name=info.get('name')))))
        chk.log(f'trace validation [{label}]: {acc} accepted, {rej} rejected, '
                f'{dis} choices differ from the transcription of the strategies (informational)')
        chk.cov.setdefault('validation', {})[label] = dict(accepted=acc, rejected=rej, differ_from_transcription=dis)
    # report one finding per fingerprint first: the framework prints the first ten
    first, rest, seen = [], [], set()
    for f in findings:
        (rest if f[0] in seen else first).append(f)
        seen.add(f[0])
    for fp, what, replay in first + rest:
        chk.violation(fp, what, replay)
    return findings


def selftest(chk: Check, path_traces, race_traces):
    """Corrupt recorded fields of accepted-looking traces: every corrupted trace must be rejected
    (or, for the injected race, marked)."""
    bad, expect = [], []
    picked = 0
    for tr in path_traces:
        ev = tr[1]
        if ev['ev'] != 'chosen' or len(ev['rel']) < 1 or not ev['realInside']:
            continue
        b = copy.deepcopy(tr); b[1]['rel'] = ['..'] + b[1]['rel']; bad.append(b); expect.append('reject')      # escape
        b = copy.deepcopy(tr); b[1]['rel'][-1] = '..'; bad.append(b); expect.append('reject')                   # not a regular name
        b = copy.deepcopy(tr); b[1]['realInside'] = False; bad.append(b); expect.append('reject')               # real fs says outside
        if tr[0]['chain'] in ('DN', 'DKN', 'KDN'):
            b = copy.deepcopy(tr); b[1]['existed'] = True; bad.append(b); expect.append('reject')               # clobber
        picked += 1
        if picked >= 4:
            break
    for tr in path_traces:
        if tr[1]['ev'] == 'refused':
            b = copy.deepcopy(tr); b[1]['clean'] = False; bad.append(b); expect.append('reject')
            break
    picked = 0
    for tr in race_traces:
        ch = [i for i, e in enumerate(tr) if e['ev'] == 'chosen']
        if len(ch) >= 2 and tr[0]['chain'] in ('DN', 'DKN', 'KDN') and tr[ch[0]]['rel'] != tr[ch[1]]['rel']:
            cr = [i for i, e in enumerate(tr) if e['ev'] == 'created' and e['rel'] == tr[ch[1]]['rel']]
            if not cr or cr[0] < ch[1]:
                continue
            # give the second download an already existing path
            b = copy.deepcopy(tr)
            first_created = [i for i, e in enumerate(b) if e['ev'] == 'created' and e['rel'] == b[ch[0]]['rel']]
            if first_created and first_created[0] < ch[1]:
                b[ch[1]]['rel'] = list(b[ch[0]]['rel']); b[ch[1]]['existed'] = True
                b = [e for i, e in enumerate(b) if i != cr[0]]
                bad.append(b); expect.append('reject')
                picked += 1
        if picked >= 2:
            break
    # a stray file next to the download directory
    if race_traces:
        b = copy.deepcopy(race_traces[0]); b.insert(1, dict(ev='created_outside', path='f:evil.txt'))
        bad.append(b); expect.append('reject')
    # an injected check-then-create race must be recognised (marked), a clean twin accepted
    head = dict(ev='case', chain='DKN', files=[], dirs=[], remotes=[['n2', 'n1'], ['n2', 'n1']])
    c1 = dict(ev='chosen', d=1, rel=['n2', 'n1'], existed=False, realInside=True)
    bad.append([head, c1, dict(c1, d=2), dict(ev='created', rel=['n2', 'n1']), dict(ev='finished', d=1),
                dict(ev='finished', d=2)])
    expect.append('mark')
    bad.append([head, c1, dict(ev='created', rel=['n2', 'n1']), dict(c1, d=2, rel=['n2', 'n1#1']),
                dict(ev='created', rel=['n2', 'n1#1']), dict(ev='finished', d=1), dict(ev='finished', d=2)])
    expect.append('clean')
    # cancellation: after the abort of a download that only waited, a third download is given the
    # path of the one still reserving (lock lost) -> marked; correct twin (third one is numbered
    # after the holder created its file; the aborted holder's file is removed and its name reused)
    head3 = dict(ev='case', chain='DN', files=[], dirs=[], remotes=[['n1'], ['n1'], ['n1']])
    a = dict(ev='chosen', d=1, rel=['n1'], existed=False, realInside=True)
    bad.append([head3, a, dict(ev='aborting', d=2), dict(a, d=3), dict(ev='created', rel=['n1']),
                dict(ev='finished', d=1), dict(ev='finished', d=3)])
    expect.append('mark')
    bad.append([head3, a, dict(ev='aborting', d=2), dict(ev='created', rel=['n1']), dict(a, d=3, rel=['n1#1']),
                dict(ev='created', rel=['n1#1']), dict(ev='finished', d=1), dict(ev='finished', d=3)])
    expect.append('clean')
    bad.append([head3, a, dict(ev='created', rel=['n1']), dict(ev='aborting', d=1), dict(ev='removed', rel=['n1']),
                dict(ev='finished', d=1), dict(a, d=3), dict(ev='created', rel=['n1']), dict(ev='finished', d=3)])
    expect.append('clean')
    # an aborted download that is given a path afterwards, a vanished file nobody owns
    bad.append([head3, dict(ev='aborting', d=2), dict(a, d=2)])
    expect.append('reject')
    bad.append([dict(head3, files=[['n1']]), dict(ev='removed', rel=['n1'])])
    expect.append('reject')
    # interruption + resume: a paused download whose path was never materialised goes on with it
    # after another download was given it -> marked; twins: it chooses again / nobody took the path
    head2 = dict(ev='case', chain='DN', files=[], dirs=[], remotes=[['n1'], ['n1']])
    stale = [head2, a, dict(ev='pausing', d=1), dict(ev='finished', d=1), dict(a, d=2), dict(ev='created', rel=['n1']),
             dict(ev='requeued', d=1), dict(ev='resumed', d=1, rel=['n1'])]
    bad.append(stale)
    expect.append('mark:resume:stale-local-path:never-created:after-pause')
    bad.append(stale[:7] + [dict(a, d=1, rel=['n1#1']), dict(ev='created', rel=['n1#1'])])
    expect.append('clean')
    bad.append([head2, a, dict(ev='created', rel=['n1']), dict(ev='pausing', d=1), dict(ev='finished', d=1),
                dict(a, d=2, rel=['n1#1']), dict(ev='requeued', d=1), dict(ev='resumed', d=1, rel=['n1'])])
    expect.append('clean')
    bad.append([head2, a, dict(ev='iofail', d=1), dict(ev='finished', d=1), dict(a, d=2), dict(ev='created', rel=['n1']),
                dict(ev='requeued', d=1), dict(ev='resumed', d=1, rel=['n1'])])
    expect.append('mark:resume:stale-local-path:never-created:after-oserror')
    # a resumed download that had created its file and still collides is not the tolerated deviation
    bad.append([head2, a, dict(ev='created', rel=['n1']), dict(ev='pausing', d=1), dict(ev='finished', d=1),
                dict(a, d=2, existed=False), dict(ev='requeued', d=1), dict(ev='resumed', d=1, rel=['n1'])])
    expect.append('reject')
    # names that differ but collide through the duplicate strategy: n1 exists, the remote files are
    # called n1 and "n1 (1)"; both given n1#1 before it exists -> marked; twin: the second is numbered
    headk = dict(ev='case', chain='DN', files=[['n1']], dirs=[], remotes=[['x', 'n1'], ['y', 'n1#1']])
    k1 = dict(ev='chosen', d=1, rel=['n1#1'], existed=False, realInside=True)
    bad.append([headk, k1, dict(k1, d=2), dict(ev='created', rel=['n1#1']), dict(ev='finished', d=1),
                dict(ev='finished', d=2)])
    expect.append('mark')
    bad.append([headk, k1, dict(ev='created', rel=['n1#1']), dict(k1, d=2, rel=['n1#1#1']),
                dict(ev='created', rel=['n1#1#1']), dict(ev='finished', d=1), dict(ev='finished', d=2)])
    expect.append('clean')
    v = tlc.validate_traces(TRACE, 'Trace.cfg', [_strip(t) for t in bad], max_diag=0, workers=WORKERS, timeout=600)
    wrong = []
    for i, e in enumerate(expect):
        tid = i + 1
        good = ((e == 'reject' and tid in v.rejected) or
                (e == 'mark' and v.accepted.get(tid) == {RACE_MARK}) or
                (e.startswith('mark:') and v.accepted.get(tid) == {e[5:]}) or
                (e == 'clean' and tid in v.accepted and not v.accepted[tid]))
        if not good:
            wrong.append((tid, e))
    chk.cov['binding_selftest']['corrupted_traces_judged_as_expected'] = f'{len(expect) - len(wrong)}/{len(expect)}'
    if wrong:
        raise MachineryFailure(f'binding self-test: traces not judged as expected: {wrong}')


def replay(chk: Check, data: dict):
    """`./check C09 --replay FILE`: re-execute the case / schedule of a replay file (parsed by the
    framework) on the code under test and judge the new recording again."""
    import json
    rep = data.get('replay') or {}
    head, meta = rep['trace'][0], rep.get('meta') or {}
    case_files = frozenset(tuple(f) for f in head['files'])
    case_dirs = frozenset(tuple(d) for d in head['dirs'])
    sp = Spelling(meta.get('profile', 0))
    style = meta.get('sep_style', 0)
    root = tempfile.mkdtemp(prefix='c09-')
    try:
        if len(head['remotes']) == 1 and 'schedule' not in meta:
            case = (tuple(head['remotes'][0]), head['chain'], case_files, case_dirs)
            tr, m = PathRunner(root).run_case(case, sp, style, meta.get('entry', 'cdp'))
        else:
            case = (tuple(tuple(r) for r in head['remotes']), head['chain'], case_files, case_dirs)
            runner = RaceRunner(root)
            tr, info = runner.run(case, tuple(tuple(x) for x in meta.get('schedule', [])), sp, style,
                                  default_config=meta.get('config') == 'library default')
            m = dict(meta, **info)
    finally:
        shutil.rmtree(root, ignore_errors=True)
    for e in tr:
        chk.log('  ' + json.dumps(e, ensure_ascii=False)[:300])
    chk.count(('replay', data.get('fingerprint')))
    chk.sample(dict(meta=m, trace=tr))
    validate(chk, [('replay', [tr], [m])])


def run(chk: Check, args):
    thorough = chk.tier == 'thorough'
    chk.cov['rule'] = ('part A: case = (remote path as component sequence, strategy chain, pre-existing names) enumerated '
                       'over the bounds of the model configuration, x concrete spelling profile x separator style, run on '
                       'the real calculate_download_path/chain_strategies; non-trivial = the code chose a path. part B: '
                       'case = (initial state, stimulus schedule) projected from TLC behaviours of the race model, run on '
                       'a real SoulSeekClient with scripted uploaders; non-trivial = at least two downloads were given a '
                       'path. distinct = distinct (case, spelling, style)')
    # ---- design model ------------------------------------------------------------------
    acts = ['Choose', 'Mkdir', 'Touch', 'Start', 'Open', 'Finish']
    pcfg = 'MC_paths_big.cfg' if thorough else 'MC_paths.cfg'
    r = tlc.model_check(SPEC, pcfg, expect_actions=['Choose'], timeout=3000)
    chk.add_model(f'Naming path algebra {pcfg} (exhaustive, repaired design)', r)
    m = re.search(r'Finished computing initial states: (\d+) states generated, with (\d+) of them distinct', r.raw)
    if m:
        chk.cov['model_init_states_distinct'] = int(m.group(2))
    r2 = tlc.model_check(SPEC, 'MC_race2.cfg', expect_actions=acts, timeout=900)
    chk.add_model('Naming race, 2 downloads (exhaustive, repaired design)', r2)
    if thorough:
        r3 = tlc.model_check(SPEC, 'MC_race3.cfg', expect_actions=acts, timeout=3000)
        chk.add_model('Naming race, 3 downloads (exhaustive, repaired design)', r3)
        r4 = tlc.model_check(SPEC, 'MC_paths_len4.cfg', expect_actions=['Choose'], timeout=3000)
        chk.add_model('Naming path algebra, paths of 4 components (exhaustive, repaired design)', r4)
    # the design as found must violate the properties: shows they have teeth
    rc = tlc.run_tlc(SPEC, 'MC_paths_code.cfg', timeout=900)
    teeth1 = sorted({i.name for i in rc.issues if i.kind == 'invariant'})
    rc2 = tlc.run_tlc(SPEC, 'MC_race2_code.cfg', timeout=900)
    teeth2 = sorted({i.name for i in rc2.issues if i.kind == 'invariant'})
    rc3 = tlc.run_tlc(SPEC, 'MC_cancel3_code.cfg', timeout=900)
    teeth3 = sorted({i.name for i in rc3.issues if i.kind == 'invariant'})
    chk.cov['binding_selftest']['model_with_foreign_lock_release_violates'] = teeth3
    if 'DistinctActivePaths' not in teeth3 and 'LockHeld' not in teeth3:
        raise MachineryFailure(f'foreign-release design model did not violate the properties: {teeth3}')
    rc4 = tlc.run_tlc(SPEC, 'MC_resume2_code.cfg', timeout=900)
    teeth4 = sorted({i.name for i in rc4.issues if i.kind == 'invariant'})
    chk.cov['binding_selftest']['model_keeping_unmaterialised_path_violates'] = teeth4
    if 'DistinctActivePaths' not in teeth4:
        raise MachineryFailure(f'keep-unmaterialised-path design model did not violate DistinctActivePaths: {teeth4}')
    rc5 = tlc.run_tlc(SPEC, 'MC_collide2_code.cfg', timeout=900)
    teeth5 = sorted({i.name for i in rc5.issues if i.kind == 'invariant'})
    chk.cov['binding_selftest']['model_with_lock_per_remote_name_violates'] = teeth5
    if 'DistinctActivePaths' not in teeth5:
        raise MachineryFailure(f'lock-per-name design model did not violate DistinctActivePaths: {teeth5}')
    chk.cov['binding_selftest']['model_without_dot_sanitising_violates'] = teeth1
    chk.cov['binding_selftest']['model_with_check_then_create_violates'] = teeth2
    if not (set(teeth1) & {'Inside', 'RegularName'}) or 'DistinctActivePaths' not in teeth2:
        raise MachineryFailure(f'code-position design models did not violate the properties: {teeth1} {teeth2}')

    root = tempfile.mkdtemp(prefix='c09-')
    try:
        # ---- part A ------------------------------------------------------------------
        ptraces, pmetas, cases = run_paths(chk, pcfg, root, spellings_per_case=2 if thorough else 1,
                                           cap=None)
        chk.log(f'part A: {len(cases)} cases, {len(ptraces)} executions on the real strategies')
        if chk.cov.get('model_init_states_distinct') is not None:
            chk.cov['cases_equal_model_init_states'] = (chk.cov['model_init_states_distinct'] ==
                                                         len(cases) * 1)
        if thorough:
            t4, m4, c4 = run_paths(chk, 'MC_paths_len4.cfg', root, spellings_per_case=1, cap=60000)
            chk.log(f'part A (paths of up to 4 components, sampled): {len(t4)} executions')
            ptraces += t4
            pmetas += m4
        refused = sum(1 for t in ptraces if t[1]['ev'] == 'refused')
        chk.cov['choices_refused'] = refused
        for i in (0, len(ptraces) // 3, len(ptraces) // 2, len(ptraces) - 2):
            chk.sample(dict(meta=pmetas[i], trace=ptraces[i]))
        # ---- part B ------------------------------------------------------------------
        rtraces, rmetas = run_races(chk, root, thorough)
        chk.log(f'part B: {len(rtraces)} schedules on a real client')
        if not any(sum(1 for e in t if e['ev'] == 'chosen') >= 2 for t in rtraces):
            raise MachineryFailure('part B is vacuous: no run in which two downloads were given a path')
        for i in (0, len(rtraces) // 2):
            chk.sample(dict(meta=rmetas[i], trace=rtraces[i]))
    finally:
        shutil.rmtree(root, ignore_errors=True)

    validate(chk, [('race', rtraces, rmetas), ('paths', ptraces, pmetas)])
    dis = sum(x['differ_from_transcription'] for x in chk.cov['validation'].values())
    chk.cov['choices_differing_from_transcription'] = dis
    if dis:
        chk.notes.append(f'{dis} recorded choices differ from the TLA+ transcription of the shipped strategies '
                         '(not a verdict: the property constrains the result, not the algorithm)')
    rg = chk.cov.get('race_graph', {})
    chk.cov['exhaustive'] = bool(chk.cov.get('cases_equal_model_init_states')) and \
        chk.cov.get('race_cover_schedules_run', 0) >= rg.get('schedules', 1 << 30) and \
        chk.cov.get('cancel_schedules_run', 0) >= sum(chk.cov.get('cancel_graph', {}).get(k, 1 << 30)
                                                      for k in ('schedules', 'prefixes_through_first_abort'))
    selftest(chk, ptraces, rtraces)
    chk.assumptions += [
        'POSIX file system semantics; no symbolic links inside the download directory; outside it only its ancestors matter',
        "freshness ('does not exist yet') and distinctness are promised only for chains in which the duplicate strategy is "
        'applied last (DN, DKN, KDN): DefaultNamingStrategy alone returns an existing name by design',
        'chains without DefaultNamingStrategy never produce a file name and are outside the domain',
        'race part: equally named remote files, and remote names that differ but collide through the duplicate strategy '
        '(N present on disk, remote files called N and "N (1)", also below a kept directory)',
        'a path for which the code raises instead of choosing is a refusal and acceptable when nothing was created',
        'part A changes settings.shares.download of one SharesManager from case to case: the configured directory is '
        'the one set at the time of the choice',
        'a download that is queued again is active with its old path from the moment it enters the prepare step (first '
        'gated file-system call) or becomes DOWNLOADING without a new choice having been made',
        'a download stops being active when the user calls TransferManager.abort / pause for it (recorded at the call) or when '
        'creating its directory / opening its file raised an OSError (seen by the harness that executes the gated call)',
        'remote paths: <= 3 components (quick; 4 sampled in thorough) over {.., ., empty, @@alias, drive letter, names}; '
        'long and non-ASCII names enter as spellings of the name kinds',
    ]

"""X06 (beyond the listed properties) - the UPnP port-mapping job and the listening ports of Network
(spec: PortMapping).  Not registered in MANIFEST.checks; run with ./check X06 --tier quick|thorough.

Direction A: behaviours of the design model (edge cover of the small state graphs, -simulate of the bigger
constants) are projected onto a plan - settings, initial gateway tables, an outcome per gateway call, the
calls a slow gateway holds open, the environment's operations in order - concretised (port numbers, time
scale, exception classes, device / entry order, decoy entries, reconnect by hand or by the library's
watchdog, start() in one or two steps) and executed on a real SoulSeekClient logged in on the simulated
network in virtual time, with Network._upnp replaced by the scripted gateway of harness/lib_x06.py.
Direction B: every recorded trace is judged by TLC against PortMappingTrace.tla."""
from __future__ import annotations

import copy
import json
import os
import random
import shutil
import tempfile
from concurrent.futures import ThreadPoolExecutor

from .. import tlc
from ..core import Check, MachineryFailure
from .. import lib_x06 as L

SPEC = 'PortMapping/PortMapping.tla'
TRACE = 'PortMapping/PortMappingTrace.tla'

PROPS = ['MappedWhileConnected', 'KeepsChecking', 'NoJobWhenDisabledOrDisconnected', 'NextRunTime', 'ListeningExact',
         'ErrorModeExact',
         'NoWorkWhenDisabledOrDisconnected', 'FailureIsolated', 'IncomingExact']

ACTIONS = ['Start', 'StartFails', 'SrvLoss', 'SrvUp', 'Stop', 'Tick', 'Flip', 'Dial', 'BeginRun', 'RetSearchOK', 'RetSearchFail',
           'CallGet', 'RetGetOK', 'RetGetFail', 'CallMap', 'RetMapOK', 'RetMapFail', 'EndRun']

OBSERVATIONS = {
    'upnp-enabled-by-default': (
        'docs/source/SETTINGS.rst documents network.upnp.enabled = false and lease_duration = 0 as the defaults; '
        'settings.py:44-48 (UpnpSettings) has enabled = True and lease_duration = 6 * 60 * 60: a client whose settings '
        'do not mention network.upnp searches for gateways and maps its listening ports'),
    'new-lease-ignored': (
        'Network._upnp_job (network.py:453-486) computes the next check from the leases it READ; the lease of a '
        'mapping it has just created is left out, so with network.upnp.lease_duration < check_interval every '
        'mapping of ours is gone for check_interval - lease_duration in each cycle although the docstring promises '
        'that the mappings are "created and maintained" and that the check comes sooner when a lease "is about to '
        'expire"'),
    'search-failure-kills-job': (
        'an exception from UPNP.search_igd_devices (network.py:440) ends the upnp task for good (tasks.py:70-76 has no '
        'handler): no further check until the server connection is lost and made again, the mappings lapse'),
    'get-failure-kills-job': (
        'an exception from UPNP.get_mapped_ports for one device (network.py:447) ends the upnp task: the remaining '
        'devices are not served in this run and no further check is made; the "failed to get port mapping" handler '
        '(network.py:475-480) guards the local filter, which cannot fail that way'),
}

QUICK_CFGS = [('MC_q_job.cfg', 'one device, leases x existing mappings, one failure'),
              ('MC_q_iso.cfg', 'two devices, foreign mappings, one failure'),
              ('MC_q_life.cfg', 'settings matrix, server loss / reconnect / stop / dial / device flip'),
              ('MC_q_bind.cfg', 'error_mode x ports x ports that cannot be bound, dialling')]
THOROUGH_CFGS = [('MC_t_job.cfg', 'one device, all leases, two failures, loss'),
                 ('MC_t_iso.cfg', 'two devices, both leases, two failures, flip')]
TEETH = [('MC_teeth_newlease.cfg', {'MappedWhileConnected', 'NextRunTime'}),
         ('MC_teeth_searchkills.cfg', {'KeepsChecking'}),
         ('MC_teeth_getkills.cfg', {'KeepsChecking', 'FailureIsolated'}),
         ('MC_teeth_nocancel.cfg', {'NoWorkWhenDisabledOrDisconnected', 'NoJobWhenDisabledOrDisconnected'})]


def workers():
    return int(os.environ.get('VERIF_TLC_WORKERS', '4'))


# ---------------------------------------------------------------------------
# design models, state graphs
# ---------------------------------------------------------------------------

def check_and_graph(cfg: str, w: int):
    """One TLC run: exhaustive check with coverage, and the state graph (initial states parsed)."""
    d = tempfile.mkdtemp(prefix='x06dot-')
    try:
        path = os.path.join(d, 'g')
        res = tlc.run_tlc(SPEC, cfg, coverage=True, dump_dot=path, timeout=1500, workers=w, extra=['-fp', '0'])
        g = tlc.Graph({}, [], [])
        if not res.ok:
            return res, g
        with open(path + '.dot', encoding='utf8') as fh:
            for line in fh:
                line = line.rstrip('\n')
                m = tlc._DOT_EDGE.match(line)
                if m:
                    g.edges.append((m.group(1), m.group(3).replace('\\"', '"').replace('\\\\', '\\'), m.group(2)))
                    continue
                m = tlc._DOT_NODE.match(line)
                if m and 'style = filled' in line:
                    txt = m.group(2).replace('\\n', '\n').replace('\\\\', '\\').replace('\\"', '"')
                    g.states[m.group(1)] = tlc.parse_state(txt)
                    g.init.append(m.group(1))
        g.edges.sort()          # (several TLC workers write the edges in any order)
        g.init.sort()
        return res, g
    finally:
        shutil.rmtree(d, ignore_errors=True)


def abstract_init(st) -> dict:
    cfg = st['cfg']
    return dict(cfg=dict(enabled=bool(cfg['enabled']), ports=sorted(cfg['ports']), lease=int(cfg['lease']), ci=int(cfg['ci']),
                         mode=str(cfg['mode']), bad=sorted(cfg['bad'])),
                gw={d: {k: dict(own=e['own'], exp=int(e['exp'])) for k, e in row.items()} for d, row in dict(st['gw']).items()}
                if st['gw'] else {},
                avail=sorted(st['avail']))


def design_checks(chk: Check, thorough: bool):
    """-> (state graphs of the quick configurations, simulated behaviours)"""
    cfgs = QUICK_CFGS + (THOROUGH_CFGS if thorough else [])
    graphs, seen = {}, set()
    w = max(1, workers() // 2)
    with ThreadPoolExecutor(6) as pool:
        futs = {cfg: pool.submit(check_and_graph, cfg, w) for cfg, _ in QUICK_CFGS}
        if thorough:      # (no state graph of the big ones: the edge covers come from the quick configurations)
            futs.update({cfg: pool.submit(lambda c: (tlc.run_tlc(SPEC, c, coverage=True, timeout=1500, workers=workers()), None), cfg)
                         for cfg, _ in THOROUGH_CFGS})
        sims = [pool.submit(simulate, 'MC_sim.cfg', 4000 if thorough else 100, 60, chk.seed + 11),
                pool.submit(simulate, 'MC_sim_any.cfg', 4000 if thorough else 100, 60, chk.seed + 12)]
        teeth = {cfg: pool.submit(tlc.run_tlc, SPEC, cfg, timeout=900, workers=1, cont=True) for cfg, _ in TEETH}
        live = pool.submit(tlc.run_tlc, SPEC, 'MC_live.cfg', timeout=900, workers=w)
        for cfg, label in cfgs:
            r, g = futs[cfg].result()
            chk.add_model(f'{cfg[3:-4]} ({label})', r)
            if g is not None:
                graphs[cfg] = g
            seen |= {a for a, (d, n) in r.coverage.items() if n}
        chk.add_model('live (FairSpec: a connected job reaches its sleep)', live.result())
        missing = [a for a in ACTIONS if a not in seen]
        if missing:
            raise MachineryFailure(f'vacuity: actions never taken in any exhaustive configuration: {missing}')
        # the properties have teeth: with one of the code's deviations each the design model fails as expected
        chk.cov['binding_selftest_design'] = {}
        for cfg, want in TEETH:
            t = teeth[cfg].result()
            names = {i.name for i in t.issues}
            chk.cov['binding_selftest_design'][cfg[9:-4]] = sorted(names)
            if not want <= names:
                raise MachineryFailure(f'{cfg} should violate {sorted(want)}, got {sorted(names)}')
        simulated = [f.result()[0] for f in sims]
    chk.log('teeth: ' + ', '.join(f'{k} -> {v}' for k, v in chk.cov['binding_selftest_design'].items()))
    return graphs, simulated


def edge_cover(g, max_paths, rng, per_init=False):
    """paths from initial states that cover the edges of the graph (a sample of max_paths of them; per_init: the
    whole cover is computed and the sample takes the longest paths of every initial state in turn)"""
    if not per_init:
        paths = tlc.path_cover(g, max_paths=max_paths, rng=rng)
    else:
        by_init: dict = {}
        for p in tlc.path_cover(g, rng=rng):
            by_init.setdefault(p[0][0], []).append(p)
        for ps in by_init.values():
            ps.sort(key=len, reverse=True)
        paths, rank = [], 0
        while len(paths) < max_paths and any(len(ps) > rank for ps in by_init.values()):
            for i in sorted(by_init):
                if len(by_init[i]) > rank and len(paths) < max_paths:
                    paths.append(by_init[i][rank])
            rank += 1
    return [(abstract_init(g.states[p[0][0]]), [e[1] for e in p]) for p in paths]


def simulate(cfg: str, num: int, depth: int, seed: int):
    behs, res = tlc.simulate_behaviours(SPEC, cfg, num=num, depth=depth, seed=seed, timeout=900)
    out = []
    for b in behs:
        out.append((abstract_init(b[0][1]), [lab for lab, _ in b[1:]]))
    return out, res


# ---------------------------------------------------------------------------
# concretisation
# ---------------------------------------------------------------------------

def concretise(init: dict, labels: list, rng: random.Random, n: int) -> dict:
    ports = init['cfg']['ports']
    has_loss = any(lab.startswith('SrvLoss') for lab in labels)
    watchdog = has_loss and rng.random() < 0.4
    # network.listening.error_mode: the model's, or - where the model leaves it alone (nothing fails to bind,
    # "any") - any mode that lets start() return for the ports configured
    if init['cfg']['bad'] or init['cfg']['mode'] != 'any':
        error_mode = init['cfg']['mode']
    elif not ports:
        error_mode = 'any'
    elif 'reg' not in ports:
        error_mode = rng.choice(['any', 'all'])
    else:
        error_mode = rng.choice(['any', 'all', 'clear'])
    pn = L.PORT_PAIRS[n % len(L.PORT_PAIRS)]
    decoys = {}
    for d in L.DEVICES:
        for k in L.KINDS:
            decoys[f'{d}.{k}'] = rng.choice(['nothing', 'nothing', 'udp', 'disabled', 'iport', 'lapsed', 'otherport'])
    conc = dict(
        portno=dict(reg=pn[0], obf=pn[1]), scale=L.SCALES[(n // 3) % len(L.SCALES)],
        st=rng.choice(L.SEARCH_TIMEOUTS), mode=rng.choice(['yield', 'inline']), rev=rng.random() < 0.5,
        exc=dict(search=rng.choice(['os', 'timeout', 'upnp', 'comm']), get=rng.choice(['comm', 'upnp', 'action', 'timeout']),
                 map=rng.choice(['action', 'upnp', 'value', 'comm', 'timeout'])),
        decoys=decoys, watchdog=watchdog, reconnect_timeout=rng.choice([1, 10]),
        loss_mode='reset' if watchdog else rng.choice(['eof', 'reset']),
        error_mode=error_mode, split_start=rng.random() < 0.3, login=True,
        tail=rng.choice([0, 1, 2, 5]),
        # a disabled history is sometimes run with network.upnp.* left to the library's defaults
        defaulted=(not init['cfg']['enabled']) and rng.random() < 0.35)
    return L.plan_of(init, labels, conc)


def documented_defaults():
    """Rows of docs/source/SETTINGS.rst about the listening ports and UPnP whose documented default is not the
    default of aioslsk.settings.Settings (a static comparison; printed as an observation, never a verdict)."""
    import re
    from .. import core
    from aioslsk.settings import Settings
    try:
        lines = open(os.path.join(core.REPO, 'docs', 'source', 'SETTINGS.rst'), encoding='utf8').read().splitlines()
    except OSError:
        return []
    st = Settings(credentials=dict(username='u', password='p'))
    out = []
    for line in lines:
        m = re.match(r'\|\s*(network\.(?:listening|upnp)\.\w+)\s*\|\s*\w+\s*\|.*\|\s*([^|]*?)\s*\|\s*$', line)
        if not m:
            continue
        v = st
        try:
            for part in m.group(1).split('.'):
                v = getattr(v, part)
        except AttributeError:
            continue
        v = getattr(v, 'value', v)
        if str(v).lower() != m.group(2).lower():
            out.append(dict(setting=m.group(1), documented=m.group(2), code=str(v)))
    return out


def run_plan(plan: dict) -> list:
    return L.World(plan).run()


# ---------------------------------------------------------------------------
# verdicts
# ---------------------------------------------------------------------------

def fingerprint(tid, info, trace):
    ev = info.get('event') or {}
    name = info.get('name') or '?'
    for suf in ('TP', 'T', 'A'):
        if name.endswith(suf) and name[:-len(suf)] in PROPS:
            name = name[:-len(suf)]
            break
    what = ev.get('ev', '?')
    if what == 'exc':
        return 'X06:exception'
    return f'X06:{what}:{name}'


def judge(chk: Check, traces, metas, label=''):
    v = tlc.validate_traces(TRACE, 'Trace.cfg', traces, diag_cfg='TraceDiag.cfg', timeout=1500, workers=workers())
    marked = {tid: set(mk) for tid, mk in v.accepted.items() if mk}
    unknown = {m for mk in marked.values() for m in mk} - set(OBSERVATIONS)
    if unknown:
        raise MachineryFailure(f'unknown marks {unknown}')
    # a marked deviation is an observation (reported, tolerated); everything else is a verdict
    for tid in marked:
        v.accepted[tid] = set()
    chk.apply_verdicts(v, traces, fingerprint, meta_of=lambda tid: L.plan_json(metas[tid - 1]))
    chk.log(f'{label}: {len(v.accepted)} accepted ({len(marked)} through a marked deviation), {len(v.rejected)} rejected')
    return v, marked


def selftest(chk: Check, traces):
    """Corrupted traces must be rejected."""
    bad, kinds = [], []

    def add(kind, tr):
        bad.append(tr)
        kinds.append(kind)

    want = dict(late=3, early=3, lease=2, ip=2, skipmap=3, afterstop=3, acc=2, flag=2, dialobf=2, dialreg=2,
                refused=2, lost=2, wrongexp=2, mustraise=2, mustnot=2, badup=2)

    def searches(tr):
        return [i for i, e in enumerate(tr) if e['ev'] == 'search']

    for tr in traces:
        s = searches(tr)
        # a later run: shift everything from the second search on by one second -> the job overslept
        if len(s) >= 2 and want['late']:
            i = s[1]
            if tr[i - 1]['t'] < tr[i]['t'] or tr[i - 1]['ev'] in ('tick', 'obs'):
                t2 = copy.deepcopy(tr)
                for e in t2[i:]:
                    e['t'] += 1000
                add('next-run-late', t2)
                want['late'] -= 1
        if len(s) >= 2 and want['early']:
            i = s[1]
            j = i
            while j < len(tr) and tr[j]['t'] == tr[i]['t'] and tr[j]['ev'] not in ('tick', 'obs', 'stop', 'srv_down'):
                j += 1
            prev_t = max([e['t'] for e in tr[:i]] or [0])
            if tr[i]['t'] - prev_t > 500:
                t2 = copy.deepcopy(tr)
                for e in t2[i:j]:
                    e['t'] -= 500
                # what the gateway answered is unchanged; only the instant moves
                add('next-run-early', t2)
                want['early'] -= 1
        maps = [i for i, e in enumerate(tr) if e['ev'] == 'map']
        if maps and want['lease']:
            t2 = copy.deepcopy(tr)
            t2[maps[0]]['lease'] += 1
            add('map-with-wrong-lease', t2)
            want['lease'] -= 1
        if maps and want['ip']:
            t2 = copy.deepcopy(tr)
            t2[maps[-1]]['ip'] = '10.9.8.7'
            add('map-with-wrong-address', t2)
            want['ip'] -= 1
        if maps and want['skipmap']:
            i = maps[0]
            # (the run must be seen to end: the order within a run is free, a run stopped half-way proves nothing)
            j = i
            while j < len(tr) and tr[j]['ev'] not in ('search', 'srv_down', 'stop'):
                j += 1
            whole = not any(e.get('res') in ('cancelled', 'fail') for e in tr[i:j]) and \
                any(e['ev'] == 'tick' for e in tr[i:j])
            if whole and tr[i + 1]['ev'] == 'map_ret' and tr[i + 1]['res'] == 'ok':
                t2 = copy.deepcopy(tr)
                del t2[i:i + 2]
                add('needed-port-not-mapped', t2)
                want['skipmap'] -= 1
        if maps and want['wrongexp']:
            i = maps[0]
            if i + 1 < len(tr) and tr[i + 1]['ev'] == 'map_ret' and tr[i + 1]['res'] == 'ok' and tr[i + 1]['exp'] > 0:
                t2 = copy.deepcopy(tr)
                t2[i + 1]['exp'] += 5000
                add('granted-lease-differs', t2)
                want['wrongexp'] -= 1
        stops = [i for i, e in enumerate(tr) if e['ev'] == 'stop']
        if stops and s and want['afterstop']:
            t2 = copy.deepcopy(tr)
            t = t2[-1]['t']
            t2 += [dict(tr[s[0]], t=t), dict(ev='search_ret', t=t, res='ok', devs=[])]
            add('gateway-called-after-stop', t2)
            want['afterstop'] -= 1
        obs = [i for i, e in enumerate(tr) if e['ev'] == 'obs' and any(x['up'] for x in e['lobs'].values())]
        if obs and want['acc']:
            t2 = copy.deepcopy(tr)
            k = [k for k, x in t2[obs[0]]['lobs'].items() if x['up']][0]
            t2[obs[0]]['lobs'][k]['acc'] = False
            add('connected-port-not-accepting', t2)
            want['acc'] -= 1
        if obs and want['flag']:
            t2 = copy.deepcopy(tr)
            k = [k for k, x in t2[obs[-1]]['lobs'].items() if x['up']][0]
            t2[obs[-1]]['lobs'][k]['flag'] = False
            add('obfuscated-flag-wrong', t2)
            want['flag'] -= 1
        if stops and want['lost']:
            i = stops[0]
            if i + 1 < len(tr) and tr[i + 1]['ev'] == 'obs' and any(x['conn'] for x in tr[i + 1]['lobs'].values()):
                t2 = copy.deepcopy(tr)
                k = [k for k, x in t2[i + 1]['lobs'].items() if x['conn']][0]
                t2[i + 1]['lobs'][k].update(up=True, acc=True)
                add('listening-after-stop', t2)
                want['lost'] -= 1
        c0 = tr[0]['cfg']
        good = [k for k in c0['ports'] if k not in c0['bad']]
        failed = any(e['ev'] == 'start_failed' for e in tr)
        began = failed or any(e['ev'] == 'srv_up' for e in tr)
        if began and not failed and c0['bad'] and want['mustraise']:
            t2 = copy.deepcopy(tr)
            t2[0]['cfg']['mode'] = 'any'          # with this error_mode start() had to raise
            add('start-returned-although-error-mode-says-raise', t2)
            want['mustraise'] -= 1
        if failed and good and c0['mode'] != 'all' and want['mustnot']:
            t2 = copy.deepcopy(tr)
            t2[0]['cfg']['mode'] = 'all'          # with this error_mode start() had to return
            add('start-raised-although-a-port-is-listening', t2)
            want['mustnot'] -= 1
        if began and not failed and c0['bad'] and want['badup']:
            o = [i for i, e in enumerate(tr) if e['ev'] == 'obs' and i > 1]
            if o:
                t2 = copy.deepcopy(tr)
                t2[o[0]]['lobs'][c0['bad'][0]].update(up=True, acc=True)
                add('unbindable-port-reported-connected', t2)
                want['badup'] -= 1
        dials = [i for i, e in enumerate(tr) if e['ev'] == 'dial']
        acc = [i for i in dials if tr[i]['res'] == 'accepted']
        if acc and want['dialobf']:
            t2 = copy.deepcopy(tr)
            t2[acc[0]]['obf'] = not t2[acc[0]]['obf']
            add('accepted-with-wrong-obfuscation', t2)
            want['dialobf'] -= 1
        if acc and want['dialreg']:
            t2 = copy.deepcopy(tr)
            t2[acc[0]]['reg'] = False
            add('accepted-but-not-registered', t2)
            want['dialreg'] -= 1
        ref = [i for i in dials if tr[i]['res'] == 'refused']
        if ref and want['refused']:
            t2 = copy.deepcopy(tr)
            t2[ref[0]].update(res='accepted', reg=True, init=True, obf=t2[ref[0]]['k'] == 'obf')
            add('accepted-while-not-listening', t2)
            want['refused'] -= 1
        if not any(want.values()):
            break
    if not bad:
        chk.cov['binding_selftest'] = dict(note='no trace suitable for corruption')
        return
    cv = tlc.validate_traces(TRACE, 'Trace.cfg', bad, max_diag=0, timeout=900, workers=workers())
    by_kind: dict = {}
    for i, k in enumerate(kinds):
        r = by_kind.setdefault(k, [0, 0])
        r[1] += 1
        if (i + 1) in cv.rejected:
            r[0] += 1
    chk.cov['binding_selftest'] = dict(corrupted_rejected=f'{len(cv.rejected)}/{len(bad)}',
                                       by_kind={k: f'{a}/{b}' for k, (a, b) in sorted(by_kind.items())})
    chk.log(f'binding self-test: {chk.cov["binding_selftest"]}')
    if len(cv.rejected) != len(bad):
        raise MachineryFailure(f'corrupted traces were accepted: {chk.cov["binding_selftest"]}')


def run(chk: Check, args):
    thorough = chk.tier == 'thorough'
    chk.cov['rule'] = ('TLC behaviours of PortMapping (edge cover of the quick state graphs, -simulate of MC_sim) projected '
                       'onto plans, concretised and executed on a real logged-in SoulSeekClient (simulated network, virtual '
                       'time, scripted gateway instead of Network._upnp); distinct = distinct recorded traces')
    chk.assumptions += [
        'the gateway is the scripted object of harness/lib_x06.py (UPNP wrapper and async_upnp_client are not exercised)',
        'time passes inside a device search but not inside get_mapped_ports / map_port (a call is answered at the '
        'instant it arrives, or the caller is stopped inside it)',
        'a gateway refuses to map a port that is mapped to another host and overwrites an entry of the same host',
        'a listening port either binds or is in use from the beginning (no port is taken away later)',
        'stop(), server loss, reconnect, dialling and device changes happen at quiescent instants of the loop',
    ]
    graphs, (sims, sims2) = design_checks(chk, thorough)

    behs = []
    sizes = []
    for i, (cfg, _) in enumerate(QUICK_CFGS):
        cover = edge_cover(graphs[cfg], (2500 if thorough else (54 if 'bind' in cfg else 80)), random.Random(chk.seed + 1 + i),
                           per_init='bind' in cfg)
        sizes.append(len(cover))
        behs += cover
    behs += sims + sims2
    chk.log(f'behaviours: {"+".join(map(str, sizes))} cover paths, {len(sims)}+{len(sims2)} simulated '
            f'(documented job / both readings)')
    hist, seen = [], set()
    for init, labels in behs:
        if not any(lab.startswith('Start') for lab in labels):
            continue
        if any(lab == 'StartFails' for lab in labels):
            # nothing but dialling and stop() can follow: keep the history short
            labels = [lab for lab in labels if not lab.startswith('Tick')]
        key = json.dumps([init, labels], sort_keys=True)
        if key in seen:
            continue
        seen.add(key)
        hist.append((init, labels))
    limit = 7000 if thorough else 340
    if len(hist) > limit:
        keep = [h for h in hist if h[0]['cfg']['bad'] or h[0]['cfg']['mode'] != 'any']     # (the per-init sample of q_bind)
        rest = [h for h in hist if not (h[0]['cfg']['bad'] or h[0]['cfg']['mode'] != 'any')]
        chk.rng.shuffle(rest)
        hist = keep + rest[:max(0, limit - len(keep))]
    plans = [concretise(init, labels, random.Random(chk.seed * 1000003 + n), n) for n, (init, labels) in enumerate(hist)]
    traces = [run_plan(p) for p in plans]
    for tr in traces:
        chk.count(json.dumps(tr, sort_keys=True), nontrivial=L.nontrivial(tr))
    if traces:
        chk.sample(dict(plan=L.plan_json(plans[0]), trace=traces[0]))
    chk.cov['histories'] = dict(
        n=len(traces), events=sum(len(t) for t in traces),
        gateway_calls=sum(1 for t in traces for e in t if e['ev'] in ('search', 'get', 'map')),
        cancelled_inside_a_call=sum(1 for t in traces for e in t if e.get('res') == 'cancelled'),
        watchdog_reconnects=sum(1 for p in plans if p['watchdog']),
        disabled=sum(1 for p in plans if not p['init']['cfg']['enabled']),
        upnp_settings_left_to_defaults=sum(1 for p in plans if p['defaulted']))
    chk.log(f'executed {len(traces)} histories: {chk.cov["histories"]}')
    v, marked = judge(chk, traces, plans, 'histories')
    chk.cov['observations'] = {}
    for mark, text in OBSERVATIONS.items():
        tids = sorted(t for t, mk in marked.items() if mark in mk)
        if not tids:
            continue
        chk.cov['observations'][mark] = dict(traces=len(tids), example=L.plan_json(plans[tids[0] - 1]))
        chk.notes.append(f'OBSERVATION {mark}: {len(tids)} histories are accepted only through this marked deviation')
        print(f'OBSERVATION property=X06 {mark} :: {text} ({len(tids)} histories, e.g. #{tids[0]}); tolerated', flush=True)
    diff = documented_defaults()
    if diff:
        chk.cov['observations']['documented-defaults-differ'] = diff
        chk.notes.append(f'OBSERVATION documented-defaults-differ: {diff}')
        print('OBSERVATION property=X06 documented-defaults-differ :: docs/source/SETTINGS.rst vs aioslsk.settings: ' +
              '; '.join(f"{d['setting']} documented {d['documented']}, is {d['code']}" for d in diff) + '; tolerated',
              flush=True)
    chk.cov['exhaustive'] = False
    selftest(chk, [traces[tid - 1] for tid in sorted(v.accepted) if tid not in marked])


def replay(chk: Check, data: dict):
    plan = (data.get('replay') or {}).get('meta')
    if not plan:
        raise MachineryFailure('replay file carries no plan')
    plan = L.plan_from_json(plan)
    tr = run_plan(plan)
    judge(chk, [tr], [plan], 'replay')

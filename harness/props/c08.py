"""C08 - files are only offered and uploaded to users entitled to them (spec: Entitlement).

Direction A: behaviours of the Entitlement design spec (edge cover sample of the small exhaustive
models, counterexamples of the models with a deviation switch in the code's position, simulated
behaviours of a larger model) are executed on a real, logged-in SoulSeekClient with real shared
directories, scripted peers and a scripted server in virtual time.
Direction B: everything the peers and the public listeners saw is recorded and judged by TLC with
EntitlementTrace (the verdict).
"""
from __future__ import annotations

import asyncio
import copy
import os
import re
import shutil
import struct
import tempfile

from .. import tlc, vloop, simnet, simserver
from ..core import Check, MachineryFailure

SPEC = 'Entitlement/Entitlement.tla'
TRACE = 'Entitlement/EntitlementTrace.tla'

USERS = ('u1', 'u2', 'u3')
DIRS = ('D1', 'D2', 'D3', 'D4')
FILES = ('f1', 'f2', 'f3', 'f4')
HOME = {'f1': 'D1', 'f2': 'D2', 'f3': 'D3', 'f4': 'D4'}
ABOVE = {'f1': ('D1',), 'f2': ('D2', 'D1'), 'f3': ('D3',), 'f4': ('D4', 'D2', 'D1')}
# HasW of the spec: the words wa, wb, all and the non-word strings pa, pb (inside wa / wb), sp (from the
# end of wa over the separator into the next word; only f1 has it)
HASW = {'f1': {'wa', 'all', 'pa', 'sp'}, 'f2': {'wa', 'wb', 'all', 'pa', 'pb'}, 'f3': {'wb', 'all', 'pb'},
        'f4': {'wb', 'all', 'pb'}}
FLAGMAP = {'up': 'UPLOADS', 'search': 'SEARCHES', 'shares': 'SHARES'}
CLIENT_PORT = 61000
ST_NAMES = {'VIRGIN', 'QUEUED', 'INITIALIZING', 'UPLOADING', 'COMPLETE', 'FAILED', 'ABORTED', 'PAUSED'}


# ---------------------------------------------------------------------------
# concretisation: the abstract tree  D1/x/f1  D1/<in>/f2 (D2 = D1/<in>)  D2/<deep>/f4 (D4)  D3/f3  on disk
# ---------------------------------------------------------------------------

CONCRETE = [
    dict(users=('alice', 'bob', 'carol'), dirs=('music', 'inner', 'other', 'deep'), sub='x',
         words=dict(wa='alpha', wb='beta', all='tune'),
         names=('alpha tune one.mp3', 'alpha beta tune two.mp3', 'beta tune three.mp3', 'tune beta four.mp3'), size=1800),
    dict(users=('Friend One', 'some_stranger', 'X-3'), dirs=('My Music', 'Private Stuff', 'Live Sessions', 'Very Private'),
         sub='Disc 1', words=dict(wa='Alpha', wb='BETA', all='Tune'),
         names=('ALPHA Tune (One).MP3', 'Alpha_BETA-tune [Two].mp3', 'Beta TUNE Three.flac', 'tune.BETA (Four).mp3'),
         size=5000),
    dict(users=('zoé', 'björn', 'u3'), dirs=('música', 'dentro', 'otra', 'hondo'), sub='y',
         words=dict(wa='élan', wb='ñandú', all='canción'),
         names=('Élan canción uno.mp3', 'élan Ñandú Canción dos.mp3',
                'ñandú canciÓn tres.ogg', 'Canción del ÑANDÚ.mp3'), size=700),
]


class World:
    """One concretisation, materialised under a temp directory (never modified afterwards)."""

    def __init__(self, base: str, idx: int):
        c = CONCRETE[idx % len(CONCRETE)]
        self.idx = idx % len(CONCRETE)
        self.base = os.path.join(base, f'w{self.idx}')
        self.user = dict(zip(USERS, c['users']))
        self.uid = {v: k for k, v in self.user.items()}
        d1 = os.path.join(self.base, c['dirs'][0])
        d2 = os.path.join(d1, c['dirs'][1])
        self.dir = {'D1': d1, 'D2': d2, 'D3': os.path.join(self.base, c['dirs'][2]), 'D4': os.path.join(d2, c['dirs'][3])}
        self.did = {v: k for k, v in self.dir.items()}
        self.words = dict(c['words'])
        # the strings that are no words: cut out of the inside of wa / wb, and running from wa over the
        # separator into the next word of f1's name
        wa, wb = self.words['wa'].lower(), self.words['wb'].lower()
        self.words['pa'] = wa[1:-1] if len(wa) > 3 else wa[1:]
        self.words['pb'] = wb[1:-1] if len(wb) > 3 else wb[1:]
        n1 = c['names'][0].lower()
        i = n1.index(wa) + len(wa)
        self.words['sp'] = n1[i - 2:i + 3]
        self.fname = dict(zip(FILES, c['names']))
        self.fid = {v: k for k, v in self.fname.items()}
        self.fpath = {'f1': os.path.join(d1, c['sub'], self.fname['f1']),
                      'f2': os.path.join(self.dir['D2'], self.fname['f2']),
                      'f3': os.path.join(self.dir['D3'], self.fname['f3']),
                      'f4': os.path.join(self.dir['D4'], self.fname['f4'])}
        self.size = c['size']
        os.makedirs(os.path.join(self.base, 'dl'), exist_ok=True)
        for f, p in self.fpath.items():
            os.makedirs(os.path.dirname(p), exist_ok=True)
            with open(p, 'wb') as fh:
                fh.write((f.encode() * self.size)[:self.size])
        # the table the spec calls HasW must be what the names say (built by construction, checked here)
        for f in FILES:
            rel = os.path.relpath(self.fpath[f], self.dir[ABOVE[f][-1]]).lower()     # the longest query path
            for w, word in self.words.items():
                if (word.lower() in rel) != (w in HASW[f]):
                    raise MachineryFailure(f'concretisation {idx}: word table broken for {f}/{w} ({word!r} in {rel!r})')

    def rel(self, f: str, d: str) -> str:
        """path of file f below directory d, remote style"""
        return os.path.relpath(self.fpath[f], self.dir[d]).replace(os.sep, '\\')

    def query(self, q: str, k: int) -> str:
        w = self.words[q]
        return (w, w.lower(), w.upper(), w.title())[k % 4]

    def phrase(self, ph, k: int) -> str:
        w, lower = self.words[ph[0]], bool(ph[1])
        if lower:
            return w.lower()
        up = (w.upper(), w.title(), w[:-1].lower() + w[-1].upper(), w[0].lower() + w[1:].upper())[k % 4]
        return up if up != up.lower() else w.upper()


# ---------------------------------------------------------------------------
# behaviours -> steps
# ---------------------------------------------------------------------------

_LABEL = re.compile(r'^(\w+)(?:\((.*)\))?$', re.S)


def parse_label(label: str):
    m = _LABEL.match(label.strip())
    if not m:
        return None
    name, args = m.group(1), m.group(2)
    if args is None or not args.strip():
        return (name,)
    return (name,) + tuple(tlc.parse_value('<<' + args + '>>'))


def steps_of(labels):
    out = []
    for lab in labels:
        st = parse_label(lab)
        if st and st[0] not in ('Init', 'Initial'):
            out.append(st)
    return tuple(out)


def init_of(state) -> tuple:
    """hashable initial configuration from a TLC state"""
    return (tuple(sorted(state['shared'])),
            tuple(sorted((d, str(m)) for d, m in state['mode'].items())),
            tuple(sorted((d, tuple(sorted(us))) for d, us in state['dusers'].items())),
            tuple(sorted(state['friends'])),
            bool(state.get('sess', True)))


def reason_of(transfer) -> str:
    r = transfer.abort_reason
    if not r:
        return 'none'
    return {'Requested': 'Requested', 'Blocked': 'Blocked', 'File not shared': 'FileNotShared'}.get(str(r), str(r))


# ---------------------------------------------------------------------------
# the scripted peers
# ---------------------------------------------------------------------------

class Peer:
    def __init__(self, sess: 'Session', uid: str, port: int):
        self.s = sess
        self.uid = uid
        self.name = sess.w.user[uid]
        self.port = port
        self.sp = simserver.ScriptedPeer(sess.net, self.name, port=port)
        self.sp.on_accept = self._on_accept
        self.ep = None
        self.tasks = []
        self.offers = {}          # ticket -> (key, filesize)
        self.pending = {}         # key -> ticket of the latest unanswered offer
        self.fileconns = {}       # key -> (endpoint, done event)
        self.search_replies = {}  # ticket -> message
        self.shares_reply = None
        self.dir_replies = {}     # ticket -> message

    async def start(self):
        await self.sp.listen()
        self.s.server.addresses[self.name] = (f'10.0.0.{USERS.index(self.uid) + 2}', self.port, 0)

    async def connection(self):
        if self.ep is None or self.ep.reader.at_eof() or self.ep.writer.is_closing():
            self.ep = await self.sp.dial(CLIENT_PORT)
            self.tasks.append(asyncio.create_task(self._read_loop(self.ep), name=f'peer-{self.uid}-read'))
            await vloop.settle(self.s.loop, rounds=200)
        return self.ep

    async def send(self, msg):
        ep = await self.connection()
        ep.send_message(msg)

    def ep_send(self, msg):
        if self.ep is not None and not self.ep.writer.is_closing():
            self.ep.send_message(msg)

    async def _read_loop(self, ep):
        M = self.s.M
        while True:
            fr = await ep.read_frame()
            if fr is None:
                return
            try:
                msg = M.PeerMessage.deserialize_request(fr)
            except Exception:
                continue
            self._on_msg(msg)

    async def _on_accept(self, ep):
        M = self.s.M
        fr = await ep.read_frame()
        if fr is None:
            return
        try:
            init = M.PeerInit.Request.deserialize(0, fr)
        except Exception:
            return
        if init.typ == 'F':
            try:
                tk = struct.unpack('<I', await ep.reader.readexactly(4))[0]
            except (asyncio.IncompleteReadError, ConnectionError):
                return
            key, size = self.offers.get(tk, (None, 0))
            done = asyncio.Event()
            if key is not None:
                self.fileconns[key] = (ep, done)
            ep.send(struct.pack('<Q', 0))
            got = 0
            while got < size:
                chunk = await ep.reader.read(65536)
                if not chunk:
                    break
                got += len(chunk)
            if not self.s.eager:
                await done.wait()
            ep.close()
        else:
            await self._read_loop(ep)

    def _on_msg(self, msg):
        M, s = self.s.M, self.s
        if isinstance(msg, M.PeerSearchReply.Request):
            self.search_replies[msg.ticket] = msg
        elif isinstance(msg, M.PeerSharesReply.Request):
            self.shares_reply = msg
        elif isinstance(msg, M.PeerDirectoryContentsReply.Request):
            self.dir_replies[msg.ticket] = msg
        elif isinstance(msg, M.PeerTransferQueueFailed.Request):
            s.log('qreply', allowed=False, why=str(msg.reason), **s.keyfields(self.uid, msg.filename))
        elif isinstance(msg, M.PeerTransferReply.Request):
            path = s.treq_tickets.get((self.uid, msg.ticket))
            s.log('treply', allowed=bool(msg.allowed), why=str(msg.reason or 'none'),
                  **s.keyfields(self.uid, path))
        elif isinstance(msg, M.PeerTransferRequest.Request):
            kf = s.keyfields(self.uid, msg.filename)
            key = (self.uid, kf['f'], kf['d'], kf['v'])
            self.offers[msg.ticket] = (key, int(msg.filesize or 0))
            self.pending[key] = msg.ticket
            s.log('offer', **kf)
            if s.eager:                  # this peer takes what it is offered at once and to the end
                self.pending.pop(key, None)
                s.log('env', what='accept', **kf)
                self.ep_send(M.PeerTransferReply.Request(msg.ticket, True, filesize=None))


# ---------------------------------------------------------------------------
# one behaviour on the real client
# ---------------------------------------------------------------------------

class Session:
    def __init__(self, world: World, rng, probes: int = 2, variants: bool = True, p_quiesce: float = 0.3,
                 slow_close=None):
        self.w = world
        self.rng = rng
        self.probes = probes
        self.p_quiesce = p_quiesce
        # slow_close: closing a file connection takes until the behaviour says so (at most the library's
        # 5 s disconnect timeout): an abort of a running upload then suspends the management cycle
        self.force_settings = False
        self.p_settings = 0.4     # share of the directory changes made by editing the settings + reloading
        self.slow_close = (rng.random() < 0.6) if slow_close is None else slow_close
        self.held = []
        # eager: the peers accept every offer at once and read to the end (uploads get COMPLETE)
        self.eager = (not self.slow_close) and rng.random() < 0.5
        self.variants = variants
        self.events: list[dict] = []
        self.notes: list[str] = []

    # -- logging ---------------------------------------------------------------
    def log(self, ev, **kw):
        rec = dict(ev=ev, **kw)
        last = self.events[-1] if self.events else None
        if ev == 'bytes' and last and last['ev'] == 'bytes' and all(last[k] == rec[k] for k in 'ufdv'):
            last['n'] += rec['n']
            return
        self.events.append(rec)

    def keyfields(self, uid, remote_path):
        f, d, v = self.pathmap.get(remote_path, ('none', 'none', 'none'))
        return dict(u=uid, f=f, d=d, v=v)

    # -- paths -------------------------------------------------------------------
    def alias(self, d):
        a = self._alias.get(d)
        if a is None:
            for sd in self.client.shares.shared_directories:
                if sd.absolute_path == self.w.dir[d]:
                    a = sd.alias
            if a is None:
                a = self.client.shares.generate_alias(self.w.dir[d])
            self._alias[d] = a
        return a

    def remote_path(self, f, d, v='exact'):
        base = '@@' + self.alias(d)
        rel = self.w.rel(f, d)
        if v == 'exact':
            p = base + '\\' + rel
        elif v == 'case':
            p = base + '\\' + rel.swapcase()
        elif v == 'sep':
            p = base + '\\\\' + rel.replace('\\', '\\\\')
        elif v == 'fwd':
            p = base + '/' + rel.replace('\\', '/')
        else:
            raise MachineryFailure(f'unknown path form {v}')
        self.pathmap.setdefault(p, (f, d, v))
        return p

    def index_snapshot(self):
        """hold: the shared directory whose item set holds the file's item; own: the directory the item
        names (its alias makes the remote path); so: files whose item names another SharedDirectory
        object than the one holding it.  Public attributes only."""
        hold = {f: 'none' for f in FILES}
        own = {f: 'none' for f in FILES}
        so = set()
        rev = {p: f for f, p in self.w.fpath.items()}
        for sd in self.client.shares.shared_directories:
            for item in sd.items:
                f = rev.get(item.get_absolute_path())
                if f is None:
                    continue
                isd = getattr(item, 'shared_directory', None)
                hold[f] = self.w.did.get(sd.absolute_path, 'none')
                own[f] = self.w.did.get(isd.absolute_path, 'none') if isd is not None else 'none'
                if isd is not None and isd is not sd:
                    so.add(f)
        return dict(hold=hold, own=own, so=sorted(so))

    # -- observers -----------------------------------------------------------------
    def _on_transfer_added(self, event):
        t = event.transfer
        if not t.is_upload():
            return
        uid = self.w.uid.get(t.username, 'none')
        kf = self.keyfields(uid, t.remote_path)
        lp = t.local_path or ''
        res = 'none'
        for f, p in self.w.fpath.items():
            if lp and os.path.realpath(lp) == os.path.realpath(p):
                res = f
        self.uploads.append((t, kf))
        t.state_listeners.append(self._listener)
        self.log('created', res=res, **kf)

    def _on_friends_changed(self, event):
        self.ctx_friends = set(self.cfg['friends'])
        self.log('tick', kind='friends')

    def _on_blocked_changed(self, event):
        self.ctx_blocked = {u: set(v) for u, v in self.cfg['blocked'].items()}
        self.log('tick', kind='blocked')

    def _on_transfer_removed(self, event):
        for t, kf in self.uploads:
            if t is event.transfer:
                self.log('removed', **kf)

    def _on_scan_complete(self, event):
        self.log('scan', **self.index_snapshot())

    def _on_link(self, link):
        ports = {p.port: p for p in self.peers.values()}
        peer = ports.get(link.addr[1][1])
        if peer is None:
            return
        st = dict(n=0, typ=None, key=None)
        orig = link.writers[0].write
        M = self.M

        def write(data, _orig=orig):
            data = bytes(data)
            st['n'] += 1
            try:
                if st['n'] == 1:
                    st['typ'] = M.PeerInit.Request.deserialize(0, data).typ
                    if st['typ'] == 'F' and self.slow_close:
                        # closing this file connection takes until the behaviour says so
                        link.writers[0].hold_wait_closed = True
                        self.held.append(link.writers[0])
                elif st['typ'] == 'F' and st['n'] == 2 and len(data) == 4:
                    tk = struct.unpack('<I', data)[0]
                    st['key'] = peer.offers.get(tk, (None, 0))[0] or (peer.uid, 'none', 'none', 'none')
                elif st['typ'] == 'F' and st['key'] is not None and data:
                    if self.slow_close:
                        # the peer reads slowly: our drain() blocks after this chunk, the upload task
                        # stays inside send_file until the peer finishes
                        link.writers[0].paused = True
                    u, f, d, v = st['key']
                    self.log('bytes', u=u, f=f, d=d, v=v, n=len(data))
            except Exception as exc:   # harness-side parsing only
                self.notes.append(f'link hook: {exc!r}')
            _orig(data)
        link.writers[0].write = write

    # -- main --------------------------------------------------------------------------
    def run(self, init, steps):
        self.events = []
        try:
            _, loop = vloop.run(lambda lp: self._main(lp, init, steps))
        except vloop.Deadlock as exc:
            raise MachineryFailure(f'virtual loop deadlock in C08 session: {exc}')
        self.unhandled = [str(c.get('message')) + ' ' + repr(c.get('exception')) for c in loop.unhandled]
        return self.events

    async def settle(self):
        await vloop.settle(self.loop, rounds=600)

    async def release_holds(self, record=True):
        """the file connections that are being closed are closed now"""
        waiting = [w for w in self.held if w._wc_gate is not None and not w._wc_gate.done()]
        for w in waiting:
            w.release_wait_closed()
        self.held = [w for w in self.held if w not in waiting and not w.is_closing()]
        if waiting:
            if record:
                self.log('env', what='closed', u='none', f='none', d='none', v='none')
            await self.settle()

    async def _main(self, loop, init, steps):
        from aioslsk.protocol import messages as M
        from aioslsk.protocol.primitives import UserStats
        from aioslsk.events import (TransferAddedEvent, FriendListChangedEvent, BlockListChangedEvent,
                                    ScanCompleteEvent, TransferRemovedEvent)
        self.M = M
        self.loop = loop
        w = self.w
        shared, mode, dusers, friends = init[:4]
        logged_in = bool(init[4]) if len(init) > 4 else True      # FALSE: started, not logged in yet
        mode, dusers = dict(mode), {d: set(us) for d, us in dusers}
        self.cfg = dict(shared=set(shared), mode={d: mode.get(d, 'everyone') for d in DIRS},
                        dusers={d: set(dusers.get(d, ())) for d in DIRS}, friends=set(friends),
                        blocked={u: set() for u in USERS}, excluded=set())
        self.ctx_friends = set(friends)
        self.ctx_blocked = {u: set() for u in USERS}
        self.pathmap = {}
        self._alias = {}
        self.uploads = []
        self.treq_tickets = {}
        self._tasks = []
        self.tickets = iter(range(1000, 100000))
        self.last_user_change = -1e9
        self.net = simnet.SimNet(loop).install()
        try:
            self.server = simserver.ScriptedServer(self.net)
            # (like the real server, the scripted one says nothing to a connection that has not logged in)
            self.server.handlers[M.AddUser.Request] = lambda s, sess, msg: [
                M.AddUser.Response(msg.username, True, 2, UserStats(1, 1, 1, 1), 'NL')] if sess.username else None

            def peer_address(srv, sess, msg):
                if not sess.username:
                    return None
                ip, port, oport = srv.addresses.get(msg.username, ('0.0.0.0', 0, 0))
                return [M.GetPeerAddress.Response(msg.username, ip, port, obfuscated_port_amount=1 if oport else 0,
                                                  obfuscated_port=oport)]
            self.server.handlers[M.GetPeerAddress.Request] = peer_address
            await self.server.start()
            order = [d for d in DIRS if d in shared]
            if self.rng.random() < 0.5:
                order.reverse()
            settings = simserver.make_settings(
                'me', port=CLIENT_PORT, obfuscated_port=CLIENT_PORT + 1, download_dir=os.path.join(w.base, 'dl'),
                shared=[dict(path=w.dir[d], share_mode=self.cfg['mode'][d],
                             users=sorted(w.user[u] for u in self.cfg['dusers'][d])) for d in order],
                users=dict(friends={w.user[u] for u in friends}))
            self.settings = settings
            self.client = client = simserver.make_client(settings)
            self.server.addresses['me'] = ('10.0.0.1', CLIENT_PORT, 0)
            self.peers = {u: Peer(self, u, 40001 + i) for i, u in enumerate(USERS)}
            self.net.on_link = self._on_link

            class Listener:
                async def on_transfer_state_changed(_self, transfer, old, new):
                    for t, kf in self.uploads:
                        if t is transfer:
                            self.log('st', old=old.name, new=new.name,
                                     reason=reason_of(transfer), **kf)
            self._listener = Listener()
            # the bus holds listeners weakly: keep them; priority 0 = told before the library's own listeners
            self._cbs = [self._on_transfer_added, self._on_friends_changed, self._on_blocked_changed,
                         self._on_scan_complete, self._on_transfer_removed]
            client.events.register(TransferAddedEvent, self._cbs[0], priority=0)
            client.events.register(FriendListChangedEvent, self._cbs[1], priority=0)
            client.events.register(BlockListChangedEvent, self._cbs[2], priority=0)
            client.events.register(TransferRemovedEvent, self._cbs[4], priority=0)

            from aioslsk.events import SessionInitializedEvent, SessionDestroyedEvent
            self._cbs += [lambda e: self.log('session', on=True), lambda e: self.log('session', on=False)]
            await client.start()
            if logged_in:
                await client.login()
            client.events.register(SessionInitializedEvent, self._cbs[5], priority=0)
            client.events.register(SessionDestroyedEvent, self._cbs[6], priority=0)
            await client.shares.scan()
            client.events.register(ScanCompleteEvent, self._cbs[3], priority=0)
            for p in self.peers.values():
                await p.start()
            # let the management cycle that the initial scan asked for run before the behaviour starts
            await asyncio.sleep(0.3)
            await self.settle()
            snap = self.index_snapshot()
            self.log('init', shared=sorted(self.cfg['shared']), mode=dict(self.cfg['mode']),
                     dusers={d: sorted(self.cfg['dusers'][d]) for d in DIRS}, friends=sorted(self.cfg['friends']),
                     sess=client.session is not None, **snap)
            await self.battery(full=False)
            for st in steps:
                try:
                    await self.apply(st)
                except MachineryFailure:
                    raise
                await self.settle()
            if client.session is None:      # what is promised after a change is judged with a session on
                await self.session_step(True)
            await self.quiesce()
            await self.battery(full=False)
            for w in self.held:
                w.resume()
                w.release_wait_closed()
            try:
                await client.stop()
            except Exception as exc:
                self.notes.append(f'client.stop: {exc!r}')
        finally:
            self.net.uninstall()
        return self.events

    # -- steps ---------------------------------------------------------------------------
    async def apply(self, st):
        name, args = st[0], st[1:]
        w, cfg, shares = self.w, self.cfg, self.client.shares
        from aioslsk.shares.model import DirectoryShareMode
        from aioslsk.user.model import BlockingFlag
        M = self.M

        async def api(ev, fn, *, is_coro=False, **fields):
            """call the public API; the record is written as soon as the call returns, before anything
            else can run (what the call sets off is then recorded after it)"""
            n0 = len(self.events)
            try:
                if is_coro:                # the index changes while the call runs
                    self.log(ev + 'start')
                r = fn()
                if is_coro:
                    await r
            except Exception as exc:       # the code under test raised: an observation
                self.log('error', what=f'{ev}:{type(exc).__name__}')
                return False
            if ev == 'scan':               # recorded by the ScanCompleteEvent listener, inside scan()
                if not any(e['ev'] == 'scan' for e in self.events[n0:]):
                    self.log('error', what='scan:no-ScanCompleteEvent')
            else:
                self.log(ev, **fields, **self.index_snapshot())
            await self.settle()
            return True

        if name == 'SetMode':
            d, m = args
            if d in cfg['shared'] and cfg['mode'][d] != m:
                lookers = self.rng.sample(USERS, 2)
                await self.look(lookers)
                cfg['mode'][d] = str(m)
                await api('setmode', self.dir_change('mode', d, mode=DirectoryShareMode(m)), d=d, m=str(m))
                await self.look(lookers)
                await self.battery()
        elif name == 'SetUsers':
            d, us = args
            if d in cfg['shared'] and cfg['dusers'][d] != set(us):
                lookers = sorted(cfg['dusers'][d] ^ set(us))[:2]
                await self.look(lookers)
                cfg['dusers'][d] = set(us)
                await api('setusers', self.dir_change('users', d, users=sorted(w.user[u] for u in us)),
                          d=d, us=sorted(us))
                await self.look(lookers)
                await self.battery()
        elif name == 'AddDir':
            d, m, us = args
            if d not in cfg['shared']:
                cfg['shared'].add(d)
                cfg['mode'][d] = str(m)
                cfg['dusers'][d] = set(us)
                await api('add', self.dir_change('add', d, mode=DirectoryShareMode(m), users=sorted(w.user[u] for u in us)),
                          d=d, m=str(m), us=sorted(us))
                self._alias.pop(d, None)
                await self.battery()
        elif name == 'RemoveDir':
            d, = args
            if d in cfg['shared']:
                cfg['shared'].discard(d)
                await api('remove', self.dir_change('remove', d), d=d)
                await self.battery()
        elif name == 'ScanAll':
            await api('scan', lambda: shares.scan(), is_coro=True)
            await self.battery()
        elif name == 'ScanDir':
            d, = args
            if d in cfg['shared']:
                sd = shares.get_shared_directory(w.dir[d])
                await api('scandir', lambda: shares.scan_directory_files(sd), is_coro=True, d=d)
                await self.battery()
        elif name == 'SetFriend':
            u, on = args
            new = set(cfg['friends'])
            (new.add if on else new.discard)(u)
            if new != cfg['friends'] and new != self.ctx_friends:     # assumption: no revert within a period
                await self.look([u])
                cfg['friends'] = new
                fr = self.settings.users.friends
                (fr.add if on else fr.discard)(w.user[u])
                self.last_user_change = self.loop.time()
                self.log('friend', u=u, on=bool(on), **self.index_snapshot())
                await self.look([u])
                await self.battery()
        elif name == 'SetBlock':
            u, fl = args
            fl = set(fl)
            new = {x: set(v) for x, v in cfg['blocked'].items()}
            new[u] = fl
            if fl != cfg['blocked'][u] and new != self.ctx_blocked:
                await self.look([u])
                cfg['blocked'] = new
                bl = self.settings.users.blocked
                if fl:
                    val = BlockingFlag.NONE
                    for x in fl:
                        val |= BlockingFlag[FLAGMAP[x]]
                    bl[w.user[u]] = val
                elif self.rng.random() < 0.5:
                    bl.pop(w.user[u], None)
                else:
                    bl[w.user[u]] = BlockingFlag.NONE
                self.last_user_change = self.loop.time()
                self.log('block', u=u, fl=sorted(fl), **self.index_snapshot())
                await self.look([u])
                await self.battery()
        elif name == 'SetExcluded':
            ps, = args
            ps = {(p[0], bool(p[1])) for p in ps}
            if ps != cfg['excluded'] and self.server_session() is not None and self.client.session is not None:
                cfg['excluded'] = ps
                k = self.rng.randrange(6)
                phrases = [w.phrase(p, k + i) for i, p in enumerate(sorted(ps))]
                self.server_session().send(M.ExcludedSearchPhrases.Response(phrases=phrases))
                await self.settle()
                self.log('excluded', ps=[[p[0], p[1]] for p in sorted(ps)], **self.index_snapshot())
                await self.battery(searches_only=True)
        elif name == 'UserMgmtTick':
            await self.wait_tick()
        elif name == 'SessionStep':
            await self.session_step(bool(args[0]))
        elif name in ('Cycle', 'CycleBegin'):
            # the management job runs by itself; give it the time it sleeps between two cycles
            await asyncio.sleep(0.06)
            await self.settle()
            if name == 'Cycle' and self.rng.random() < self.p_quiesce:
                await self.quiesce()
        elif name == 'AbortsDone':
            await self.release_holds()
        elif name == 'CycleEnd':
            await self.settle()
            if self.rng.random() < self.p_quiesce:
                await self.quiesce()
        elif name == 'Quiesce':         # harness instruction (a stuttering step of the model)
            await self.quiesce()
        elif name == 'Settings':        # harness instruction: the next directory change is made in the settings
            self.force_settings = True
        elif name == 'SearchFrom':
            await self.search(args[0], args[1])
        elif name == 'SharesFrom':
            await self.shares_request(args[0])
        elif name == 'DirFrom':
            await self.dir_request(args[0], args[1])
        elif name in ('QueueRequest', 'TransferRequest'):
            u, p = args[0], args[1]
            await self.request('queue' if name == 'QueueRequest' else 'transfer', u, p[0], p[1], str(p[2]))
        elif name in ('PeerAccept', 'PeerFinish', 'PeerReject', 'UserAbort', 'UserPause', 'UserRemove'):
            u, p = args[0][0], args[0][1]
            await self.transfer_action(name, (u, p[0], p[1], str(p[2])))
        else:
            raise MachineryFailure(f'no stimulus mapping for model action {name}')

    def dir_change(self, what, d, mode=None, users=None):
        """A change of the shared directories, made one of the two documented ways: through the methods
        of SharesManager, or by editing settings.shares.directories in place (the entry's share_mode, its
        users list, adding / dropping an entry) and calling load_from_settings().  The settings are kept
        in line with what the methods did, as an application that persists its settings would."""
        from aioslsk.settings import SharedDirectorySettingEntry
        shares, path = self.client.shares, self.w.dir[d]
        entries = self.settings.shares.directories
        entry = next((e for e in entries if os.path.normpath(os.path.abspath(e.path)) == path), None)
        by_settings = self.force_settings or self.rng.random() < self.p_settings
        self.force_settings = False
        if what == 'remove' and len(entries) <= 1 and not DROP_LAST_BY_SETTINGS:
            by_settings = False

        def change():
            if by_settings:
                if what == 'mode':
                    entry.share_mode = mode
                elif what == 'users':
                    entry.users[:] = users                   # edited in place
                elif what == 'add':
                    entries.append(SharedDirectorySettingEntry(path=path, share_mode=mode, users=list(users)))
                else:
                    entries.remove(entry)
                shares.load_from_settings()
                return
            if what == 'mode':
                shares.update_shared_directory(path, share_mode=mode)
                entry.share_mode = mode
            elif what == 'users':
                shares.update_shared_directory(path, users=users)
                entry.users = list(users)
            elif what == 'add':
                shares.add_shared_directory(path, share_mode=mode, users=users)
                entries.append(SharedDirectorySettingEntry(path=path, share_mode=mode, users=list(users)))
            else:
                shares.remove_shared_directory(path)
                entries.remove(entry)
        return change

    async def wait_tick(self):
        """advance virtual time until the user-management job reports (at most one period)"""
        n0 = sum(1 for e in self.events if e['ev'] == 'tick')
        t_end = self.loop.time() + 1.05
        while self.loop.time() < t_end:
            await asyncio.sleep(0.05)
            await self.settle()
            if sum(1 for e in self.events if e['ev'] == 'tick') > n0:
                break

    async def quiesce(self):
        """let the user-management job see the settings and the management job run, then record the
        upload records (Convergence is judged there)"""
        await self.release_holds()
        wait = self.last_user_change + 1.1 - self.loop.time()
        if wait > 0:
            await asyncio.sleep(wait)
            await self.settle()
        for i in range(10):
            await self.release_holds()
            await asyncio.sleep(0.3)
            await self.settle()
            if i >= 2 and not any(w._wc_gate is not None and not w._wc_gate.done() for w in self.held):
                break
        ups = [dict(st=t.state.VALUE.name, reason=reason_of(t), **kf)
               for t, kf in self.uploads if self.listed(t)]
        self.log('quiescent', ups=ups)

    # -- observations ----------------------------------------------------------------------
    def _names_to_files(self, names):
        out, other = [], 0
        for n in names:
            f = self.w.fid.get(n.split('\\')[-1])
            if f is None:
                other += 1
            else:
                out.append(f)
        return sorted(set(out)), other

    def server_session(self):
        ss = self.server.session_of('me')
        return ss if ss is not None and not ss.closed else None

    async def session_step(self, on):
        """log in (again) / the server connection is lost"""
        client = self.client
        if on and client.session is None:
            try:
                if client.network.server_connection.state.name != 'CONNECTED':
                    await client.network.connect_server()
                await client.login()
            except Exception as exc:      # the code under test raised: an observation
                self.log('error', what=f'login:{type(exc).__name__}')
        elif not on and client.session is not None:
            ss = self.server_session()
            if ss is not None:
                ss.close('eof' if self.rng.random() < 0.5 else 'reset')
        await self.settle()

    async def search(self, u, q):
        M = self.M
        if self.server_session() is None or self.client.session is None:
            return                      # searches come through the server
        tk = next(self.tickets)
        k = self.rng.randrange(4)
        self.server_session().send(M.FileSearch.Response(self.w.user[u], tk, self.w.query(q, k)))
        await self.settle()
        msg = self.peers[u].search_replies.pop(tk, None)
        if msg is None:
            self.log('search', u=u, q=q, replied=False, normal=[], locked=[], other=0)
            return
        normal, o1 = self._names_to_files([fd.filename for fd in msg.results])
        locked, o2 = self._names_to_files([fd.filename for fd in (msg.locked_results or [])])
        self.log('search', u=u, q=q, replied=True, normal=normal, locked=locked, other=o1 + o2)

    async def shares_request(self, u):
        M = self.M
        p = self.peers[u]
        p.shares_reply = None
        await p.send(M.PeerSharesRequest.Request())
        await self.settle()
        msg = p.shares_reply
        if msg is None:
            self.log('shares', u=u, replied=False, normal=[], locked=[], other=0)
            return
        normal, o1 = self._names_to_files([fd.filename for dd in msg.directories for fd in dd.files])
        locked, o2 = self._names_to_files([fd.filename for dd in (msg.locked_directories or []) for fd in dd.files])
        self.log('shares', u=u, replied=True, normal=normal, locked=locked, other=o1 + o2)

    async def dir_request(self, u, f):
        M = self.M
        item = None
        for sd in self.client.shares.shared_directories:
            for it in sd.items:
                if it.get_absolute_path() == self.w.fpath[f]:
                    item = it
        if item is None:
            return
        p = self.peers[u]
        canonical = item.get_remote_directory_path()
        # the directory is asked for as the shares reply names it, and in another spelling of the same
        # name (clients differ: trailing separator, / for \, doubled separators, other letter case)
        self._dirform = getattr(self, '_dirform', self.rng.randrange(5)) + 1
        other = (canonical + '\\', canonical + '/', canonical.replace('\\', '/'),
                 canonical.replace('\\', '\\\\') + '\\\\', canonical.swapcase())[self._dirform % 5]
        for name in (canonical, other):
            if name != canonical and self.rng.random() < 0.25:
                continue
            tk = next(self.tickets)
            await p.send(M.PeerDirectoryContentsRequest.Request(tk, name))
            await self.settle()
            msg = p.dir_replies.pop(tk, None)
            if msg is None:
                self.log('dir', u=u, f=f, replied=False, normal=[], locked=[], other=0)
                continue
            normal, o1 = self._names_to_files([fd.filename for dd in msg.directories for fd in dd.files])
            self.log('dir', u=u, f=f, replied=True, normal=normal, locked=[], other=o1)

    async def battery(self, full=None, searches_only=False):
        """a few replies after a change: what do the peers see now?"""
        n = self.probes
        if n <= 0:
            return
        users = list(USERS)
        for _ in range(n):
            u = self.rng.choice(users)
            kind = self.rng.choice(('search', 'search', 'shares', 'dir')) if not searches_only else 'search'
            if kind == 'search':
                await self.search(u, self.rng.choice(('all', 'all', 'wa', 'wb')))
            elif kind == 'shares':
                await self.shares_request(u)
            else:
                await self.dir_request(u, self.rng.choice(FILES))
        # the peer of an upload that is over (COMPLETE / FAILED) asks for the same file again
        over = [kf for t, kf in self.uploads if kf['f'] != 'none' and kf['v'] == 'exact'
                and self.listed(t) and t.state.VALUE.name in ('COMPLETE', 'FAILED')]
        if over and not searches_only and self.rng.random() < 0.5:
            kf = self.rng.choice(over)
            await self.request(self.rng.choice(('queue', 'queue', 'transfer')), kf['u'], kf['f'], kf['d'], 'exact',
                               plain=True)

    async def look(self, users):
        """what these users are shown right now (asked before and after a change that concerns them, with
        nothing else in between)"""
        if self.probes <= 0:
            return
        for u in users:
            await self.shares_request(u)
            if self.rng.random() < 0.5:
                await self.search(u, 'all')

    # -- requests ------------------------------------------------------------------------------
    async def request(self, kind, u, f, d, v, plain=False):
        M = self.M
        forms = [v]
        if self.variants and v == 'exact' and not plain:
            r = self.rng.random()
            if r < 0.35:
                forms = [self.rng.choice(('case', 'sep', 'fwd')), v]
            elif r < 0.45:
                forms = ['unknown', v]
        for form in forms:
            if form == 'unknown':
                path = '@@' + self.alias(d) + '\\no such\\file.mp3'
                fields = dict(u=u, f='none', d='none', v='none')
            else:
                path = self.remote_path(f, d, form)
                fields = dict(u=u, f=f, d=d, v=form)
            self.log('req', kind=kind, **fields)
            if kind == 'queue':
                await self.peers[u].send(M.PeerTransferQueue.Request(path))
            else:
                tk = next(self.tickets)
                self.treq_tickets[(u, tk)] = path
                await self.peers[u].send(M.PeerTransferRequest.Request(0, tk, path, filesize=0))
            await self.settle()

    def listed(self, t):
        """the record itself (not an equal one made later) is in the list of transfers"""
        return any(x is t for x in self.client.transfers.transfers)

    def find_upload(self, key):
        for t, kf in self.uploads:
            if (kf['u'], kf['f'], kf['d'], kf['v']) == key and self.listed(t):
                return t, kf
        return None, None

    async def transfer_action(self, name, key):
        M = self.M
        u = key[0]
        peer = self.peers[u]
        kf = dict(u=key[0], f=key[1], d=key[2], v=key[3])
        if name in ('PeerAccept', 'PeerReject'):
            tk = peer.pending.pop(key, None)
            t, _ = self.find_upload(key)
            if tk is None or t is None or t.state.VALUE.name != 'INITIALIZING':
                return
            ok = name == 'PeerAccept'
            self.log('env', what='accept' if ok else 'reject', **kf)
            if ok:
                await peer.send(M.PeerTransferReply.Request(tk, True, filesize=None))
            else:
                await peer.send(M.PeerTransferReply.Request(tk, False, reason='Cancelled'))
        elif name == 'PeerFinish':
            fc = peer.fileconns.pop(key, None)
            if fc is None:
                return
            self.log('env', what='finish', **kf)
            fc[0].link.writers[0].resume()                 # the peer reads the rest and closes:
            fc[0].link.writers[0].release_wait_closed()    # nothing to wait for on our side
            fc[1].set()
        elif name == 'UserRemove':
            t, _ = self.find_upload(key)
            if t is None:
                return
            self.log('rmcall', **kf)

            async def remove():
                try:
                    await self.client.transfers.remove(t)
                except Exception as exc:
                    self.log('error', what=f'remove:{type(exc).__name__}')
            # not awaited here: the removal of an upload whose abort is suspended waits for that abort
            self._tasks.append(asyncio.create_task(remove()))
        elif name in ('UserAbort', 'UserPause'):
            t, _ = self.find_upload(key)
            if t is None:
                return
            from aioslsk.exceptions import InvalidStateTransition
            ev = 'abort' if name == 'UserAbort' else 'pause'
            self.log(ev, **kf)
            try:
                await (self.client.transfers.abort(t) if name == 'UserAbort' else self.client.transfers.pause(t))
            except InvalidStateTransition:
                pass
            except Exception as exc:
                self.log('error', what=f'{ev}:{type(exc).__name__}', **kf)
        await self.settle()


# ---------------------------------------------------------------------------
# fingerprints
# ---------------------------------------------------------------------------

def fingerprint(tid, info, trace):
    """Property violations come as marks from the trace spec (they are the fingerprints).  This is
    only for a trace the spec could not follow to its end."""
    ev = info.get('event') or {}
    if info.get('kind') == 'property':
        return f"C08:{info.get('name')}:{ev.get('ev')}"
    return f"C08:unexplained-record:{ev.get('ev')}"


# ---------------------------------------------------------------------------
# collecting behaviours
# ---------------------------------------------------------------------------

DEFAULT_INIT = (('D1', 'D3'), (('D1', 'everyone'), ('D2', 'friends'), ('D3', 'friends')),
                (('D1', ()), ('D2', ()), ('D3', ())), ('u1',))

P_F1 = ('f1', 'D1', 'exact')
P_F2a = ('f2', 'D1', 'exact')
P_F2b = ('f2', 'D2', 'exact')
P_F3 = ('f3', 'D3', 'exact')
P_F4 = ('f4', 'D4', 'exact')
NEST3_INIT = (('D1', 'D2', 'D4'), (('D1', 'everyone'), ('D2', 'friends'), ('D3', 'everyone'), ('D4', 'users')),
              (('D1', ()), ('D2', ()), ('D3', ()), ('D4', ('u1',))), ('u3',))

# Hand-written behaviours of the model (every step is an enabled action): the histories named in the
# property's rationale, so that they are replayed in every run whatever the sampling does.
# load_from_settings() drops a directory that is no longer configured without any event: when it was
# the last one nothing asks for a shares cycle (genuine defect found with the settings-way changes,
# repair proposed in fixes/C08-5).  Until that is applied the harness does not drop the LAST configured
# directory through the settings (it uses remove_shared_directory for it); set to True with the fix.
DROP_LAST_BY_SETTINGS = True

SCENARIOS = {
    'block-while-running': (DEFAULT_INIT, (
        ('QueueRequest', 'u1', P_F3), ('Cycle',), ('PeerAccept', ('u1', P_F3)), ('SetBlock', 'u1', frozenset({'up'})),
        ('UserMgmtTick',), ('Cycle',), ('Quiesce',), ('QueueRequest', 'u1', P_F3), ('TransferRequest', 'u1', P_F1),
        ('SetBlock', 'u1', frozenset()), ('UserMgmtTick',), ('Cycle',))),
    'block-while-initializing-and-paused': (DEFAULT_INIT, (
        ('QueueRequest', 'u2', P_F1), ('QueueRequest', 'u1', P_F3), ('Cycle',), ('UserPause', ('u1', P_F3)),
        ('SetBlock', 'u1', frozenset({'up', 'search'})), ('SetBlock', 'u2', frozenset({'up'})), ('UserMgmtTick',), ('Cycle',),
        ('Quiesce',), ('SearchFrom', 'u1', 'all'), ('SearchFrom', 'u2', 'all'), ('SetBlock', 'u2', frozenset()), ('UserMgmtTick',), ('Cycle',))),
    'user-abort-stays': (DEFAULT_INIT, (
        ('QueueRequest', 'u1', P_F3), ('UserAbort', ('u1', P_F3)), ('SetBlock', 'u1', frozenset({'up'})), ('UserMgmtTick',),
        ('Cycle',), ('Quiesce',), ('SetBlock', 'u1', frozenset()), ('UserMgmtTick',), ('Cycle',), ('Quiesce',),
        ('QueueRequest', 'u1', P_F3), ('SetMode', 'D3', 'users'), ('Cycle',), ('Quiesce',), ('SetMode', 'D3', 'everyone'), ('Cycle',))),
    'unfriend-and-unshare': (DEFAULT_INIT, (
        ('QueueRequest', 'u1', P_F3), ('TransferRequest', 'u2', P_F3), ('SetFriend', 'u1', False), ('UserMgmtTick',), ('Cycle',),
        ('Quiesce',), ('SetFriend', 'u1', True), ('UserMgmtTick',), ('Cycle',), ('Quiesce',), ('RemoveDir', 'D3'), ('Cycle',),
        ('Quiesce',), ('AddDir', 'D3', 'users', frozenset({'u1'})), ('ScanAll',), ('Cycle',), ('Quiesce',),
        ('SetUsers', 'D3', frozenset({'u2'})), ('Cycle',))),
    'reason-changes-while-aborted': (DEFAULT_INIT, (
        ('QueueRequest', 'u1', P_F3), ('SetBlock', 'u1', frozenset({'up'})), ('UserMgmtTick',), ('Cycle',),
        ('Quiesce',), ('SetMode', 'D3', 'users'), ('Cycle',), ('Quiesce',), ('SetBlock', 'u1', frozenset()), ('UserMgmtTick',),
        ('Cycle',), ('Quiesce',), ('SetMode', 'D3', 'friends'), ('Cycle',))),
    'nested-restricted-dir': (DEFAULT_INIT, (
        ('QueueRequest', 'u2', P_F2a), ('AddDir', 'D2', 'friends', frozenset()), ('SearchFrom', 'u2', 'all'),
        ('SharesFrom', 'u2'), ('DirFrom', 'u2', 'f2'), ('Cycle',), ('QueueRequest', 'u3', P_F2a), ('TransferRequest', 'u3', P_F2b),
        ('SearchFrom', 'u1', 'wb'), ('QueueRequest', 'u1', P_F2a), ('ScanAll',), ('Cycle',), ('SearchFrom', 'u2', 'all'))),
    'nested-public-dir-removed': ((('D1', 'D2', 'D3'), (('D1', 'users'), ('D2', 'everyone'), ('D3', 'friends')),
                                   (('D1', ('u1',)), ('D2', ()), ('D3', ())), ()), (
        ('QueueRequest', 'u2', P_F2b), ('RemoveDir', 'D2'), ('SearchFrom', 'u2', 'all'), ('SharesFrom', 'u2'), ('Cycle',),
        ('TransferRequest', 'u3', P_F2b), ('QueueRequest', 'u1', P_F2b), ('ScanDir', 'D1'), ('Cycle',), ('SearchFrom', 'u3', 'wa'))),
    'excluded-phrases': (DEFAULT_INIT, (
        ('SetExcluded', frozenset({('wa', True)})), ('SearchFrom', 'u1', 'all'), ('SearchFrom', 'u2', 'wa'),
        ('SetExcluded', frozenset({('wb', False)})), ('SearchFrom', 'u1', 'all'), ('SearchFrom', 'u2', 'wb'),
        ('SetExcluded', frozenset({('wa', False), ('wb', True)})), ('SearchFrom', 'u1', 'all'), ('SearchFrom', 'u3', 'all'),
        ('SetExcluded', frozenset()), ('SearchFrom', 'u2', 'all'),
        # phrases that are no words: cut out of a word, running over a word boundary, any letter case
        ('SetExcluded', frozenset({('pa', True)})), ('SearchFrom', 'u1', 'all'), ('SearchFrom', 'u2', 'wa'),
        ('SetExcluded', frozenset({('sp', False)})), ('SearchFrom', 'u1', 'all'), ('SearchFrom', 'u3', 'wa'),
        ('SetExcluded', frozenset({('sp', True), ('pb', False)})), ('SearchFrom', 'u1', 'all'), ('SearchFrom', 'u2', 'wb'),
        ('SetExcluded', frozenset({('pb', True)})), ('SearchFrom', 'u3', 'all'))),
    # three nested shared directories EVERYONE > FRIENDS > USERS: the files of a removed directory
    # belong to the innermost remaining one
    'three-levels-remove-innermost': (NEST3_INIT, (
        ('SearchFrom', 'u2', 'all'), ('QueueRequest', 'u1', P_F4), ('RemoveDir', 'D4'), ('SearchFrom', 'u2', 'all'),
        ('SharesFrom', 'u2'), ('DirFrom', 'u2', 'f4'), ('SearchFrom', 'u3', 'wb'), ('QueueRequest', 'u2', P_F4),
        ('TransferRequest', 'u3', P_F4), ('Cycle',), ('Quiesce',), ('SharesFrom', 'u3'), ('SearchFrom', 'u1', 'all'))),
    'three-levels-remove-middle': (NEST3_INIT, (
        ('QueueRequest', 'u3', ('f2', 'D2', 'exact')), ('RemoveDir', 'D2'), ('SearchFrom', 'u2', 'all'), ('SharesFrom', 'u2'),
        ('QueueRequest', 'u2', P_F4), ('Cycle',), ('AddDir', 'D2', 'users', frozenset({'u2'})), ('SearchFrom', 'u3', 'all'),
        ('SharesFrom', 'u1'), ('Cycle',), ('Quiesce',), ('RemoveDir', 'D4'), ('SearchFrom', 'u1', 'all'), ('SearchFrom', 'u3', 'all'),
        ('Cycle',), ('Quiesce',))),
    # the management cycle is suspended aborting a running upload (its file connection closes slowly)
    # while the next change arrives: that change must not be lost
    'change-during-suspended-abort': (DEFAULT_INIT, (
        ('QueueRequest', 'u2', P_F1), ('QueueRequest', 'u1', P_F3), ('Cycle',), ('PeerAccept', ('u2', P_F1)),
        ('PeerAccept', ('u1', P_F3)), ('SetBlock', 'u2', frozenset({'up'})), ('UserMgmtTick',), ('CycleBegin',),
        ('SetMode', 'D3', 'users'), ('AbortsDone',), ('CycleBegin',), ('Quiesce',))),
    'change-reverted-during-suspended-abort': (DEFAULT_INIT, (
        ('QueueRequest', 'u2', P_F1), ('Cycle',), ('PeerAccept', ('u2', P_F1)), ('SetMode', 'D1', 'friends'), ('CycleBegin',),
        ('SetMode', 'D1', 'everyone'), ('AbortsDone',), ('CycleBegin',), ('Quiesce',))),
    'unblock-during-suspended-abort': (DEFAULT_INIT, (
        ('QueueRequest', 'u2', P_F1), ('QueueRequest', 'u1', P_F3), ('Cycle',), ('PeerAccept', ('u1', P_F3)),
        ('SetBlock', 'u2', frozenset({'up'})), ('UserMgmtTick',), ('CycleBegin',), ('Quiesce',),
        ('SetFriend', 'u1', False), ('UserMgmtTick',), ('CycleBegin',), ('SetBlock', 'u2', frozenset()), ('UserMgmtTick',),
        ('AbortsDone',), ('CycleBegin',), ('Quiesce',))),
    # an upload that is over is asked for again after its user lost the right to it
    'finished-upload-asked-for-again-after-block': (DEFAULT_INIT, (
        ('QueueRequest', 'u2', P_F1), ('QueueRequest', 'u1', P_F3), ('Cycle',), ('PeerAccept', ('u2', P_F1)),
        ('PeerFinish', ('u2', P_F1)), ('PeerReject', ('u1', P_F3)), ('SetBlock', 'u2', frozenset({'up'})),
        ('SetBlock', 'u1', frozenset({'up', 'search'})), ('UserMgmtTick',), ('Cycle',), ('Quiesce',),
        ('QueueRequest', 'u2', P_F1), ('QueueRequest', 'u1', P_F3), ('Cycle',), ('TransferRequest', 'u2', P_F1),
        ('TransferRequest', 'u1', P_F3), ('Cycle',), ('PeerAccept', ('u2', P_F1)), ('PeerAccept', ('u1', P_F3)), ('Quiesce',))),
    'finished-upload-asked-for-again-after-unshare': (DEFAULT_INIT, (
        ('QueueRequest', 'u1', P_F3), ('QueueRequest', 'u2', P_F1), ('Cycle',), ('PeerAccept', ('u1', P_F3)),
        ('PeerFinish', ('u1', P_F3)), ('PeerReject', ('u2', P_F1)), ('SetFriend', 'u1', False), ('SetMode', 'D1', 'friends'),
        ('UserMgmtTick',), ('Cycle',), ('QueueRequest', 'u1', P_F3), ('QueueRequest', 'u2', P_F1), ('Cycle',),
        ('TransferRequest', 'u1', P_F3), ('Cycle',), ('RemoveDir', 'D3'), ('QueueRequest', 'u1', P_F3), ('Cycle',), ('Quiesce',))),
    # an earlier record is removed while the cycle waits for the abort of a running upload
    'remove-during-suspended-abort': (DEFAULT_INIT, (
        ('QueueRequest', 'u3', P_F1), ('QueueRequest', 'u2', P_F1), ('Cycle',), ('QueueRequest', 'u1', P_F1),
        ('PeerAccept', ('u2', P_F1)), ('SetMode', 'D1', 'users'), ('CycleBegin',), ('UserRemove', ('u3', P_F1)),
        ('AbortsDone',), ('CycleBegin',), ('Quiesce',))),
    'remove-finished-during-suspended-abort': (DEFAULT_INIT, (
        ('QueueRequest', 'u3', P_F1), ('Cycle',), ('PeerReject', ('u3', P_F1)), ('QueueRequest', 'u2', P_F1), ('Cycle',),
        ('PeerAccept', ('u2', P_F1)), ('QueueRequest', 'u1', P_F3), ('Cycle',), ('SetMode', 'D1', 'friends'),
        ('SetMode', 'D3', 'users'), ('CycleBegin',), ('UserRemove', ('u3', P_F1)), ('AbortsDone',), ('CycleBegin',), ('Quiesce',))),
    # what a user is shown before and after he alone loses the right (no share change in between)
    'browse-before-and-after-losing-the-right': (DEFAULT_INIT, (
        ('SharesFrom', 'u1'), ('SearchFrom', 'u1', 'all'), ('SetFriend', 'u1', False), ('SharesFrom', 'u1'),
        ('SearchFrom', 'u1', 'all'), ('DirFrom', 'u1', 'f3'), ('UserMgmtTick',), ('SharesFrom', 'u1'),
        ('SetFriend', 'u1', True), ('SharesFrom', 'u1'), ('SetMode', 'D3', 'users'), ('SharesFrom', 'u1'),
        ('SetUsers', 'D3', frozenset({'u1', 'u2'})), ('SharesFrom', 'u1'), ('SharesFrom', 'u2'),
        ('SetUsers', 'D3', frozenset({'u2'})), ('SharesFrom', 'u1'), ('SharesFrom', 'u2'),
        ('SetBlock', 'u2', frozenset({'shares'})), ('SharesFrom', 'u2'), ('SetBlock', 'u2', frozenset()), ('SharesFrom', 'u2'))),
    # changes made while the client runs without a session (before the login, after a loss of the server)
    'changes-before-login': (DEFAULT_INIT + (False,), (
        ('QueueRequest', 'u1', P_F3), ('QueueRequest', 'u2', P_F1), ('SharesFrom', 'u1'), ('SetFriend', 'u1', False),
        ('UserMgmtTick',), ('SharesFrom', 'u1'), ('Cycle',), ('SessionStep', True), ('Cycle',), ('Quiesce',),
        ('SessionStep', False), ('SetBlock', 'u2', frozenset({'up'})), ('UserMgmtTick',), ('Cycle',), ('SessionStep', True),
        ('Quiesce',), ('SetMode', 'D3', 'everyone'), ('Cycle',), ('Quiesce',))),
    'changes-while-the-server-is-lost': (DEFAULT_INIT, (
        ('QueueRequest', 'u1', P_F3), ('QueueRequest', 'u2', P_F1), ('QueueRequest', 'u3', P_F1), ('Cycle',),
        ('SessionStep', False), ('SetFriend', 'u1', False), ('SetMode', 'D1', 'friends'), ('UserMgmtTick',), ('Cycle',),
        ('SetFriend', 'u3', True), ('UserMgmtTick',), ('Cycle',), ('SessionStep', True), ('Cycle',), ('Quiesce',),
        ('SessionStep', False), ('SetFriend', 'u1', True), ('SetBlock', 'u3', frozenset({'up'})), ('UserMgmtTick',),
        ('SessionStep', True), ('Quiesce',))),
    # the shared directories are changed by editing settings.shares.directories in place and reloading
    'directories-changed-through-the-settings': (
        (('D1', 'D3'), (('D1', 'everyone'), ('D2', 'everyone'), ('D3', 'users'), ('D4', 'everyone')),
         (('D1', ()), ('D2', ()), ('D3', ('u1', 'u2')), ('D4', ())), ('u1',)), (
        ('QueueRequest', 'u2', P_F3), ('QueueRequest', 'u1', P_F3), ('QueueRequest', 'u3', P_F1), ('Cycle',),
        ('Settings',), ('SetUsers', 'D3', frozenset({'u1'})), ('Cycle',), ('Quiesce',),
        ('Settings',), ('SetUsers', 'D3', frozenset({'u1', 'u2'})), ('Cycle',), ('Quiesce',),
        ('Settings',), ('SetMode', 'D3', 'friends'), ('Cycle',), ('Quiesce',),
        ('Settings',), ('SetMode', 'D1', 'friends'), ('Cycle',), ('Quiesce',),
        ('Settings',), ('RemoveDir', 'D3'), ('Cycle',), ('Quiesce',),
        ('Settings',), ('AddDir', 'D3', 'everyone', frozenset()), ('ScanAll',), ('Cycle',), ('Quiesce',))),
    'only-directory-dropped-from-the-settings': (
        (('D3',), (('D1', 'everyone'), ('D2', 'everyone'), ('D3', 'everyone'), ('D4', 'everyone')),
         (('D1', ()), ('D2', ()), ('D3', ()), ('D4', ())), ()), (
        ('QueueRequest', 'u1', P_F3), ('QueueRequest', 'u2', P_F3), ('Cycle',), ('Settings',), ('RemoveDir', 'D3'),
        ('SharesFrom', 'u1'), ('Cycle',), ('Quiesce',))),
    'rescan-one-directory': (DEFAULT_INIT, (
        ('QueueRequest', 'u1', P_F3), ('RemoveDir', 'D3'), ('Cycle',), ('AddDir', 'D3', 'friends', frozenset()), ('Cycle',),
        ('ScanDir', 'D3'), ('Cycle',))),
}


def _init_from_state(st):
    return init_of(st)


def collect(chk: Check, thorough: bool):
    """-> dict (init, steps) -> source label"""
    behs = {}
    if not DROP_LAST_BY_SETTINGS:
        chk.assumptions.append('the last configured directory is not dropped by editing the settings + load_from_settings() '
                               '(no event is emitted for it: defect, repair proposed in fixes/C08-5)')

    def add(init, steps, src):
        if steps:
            behs.setdefault((init, steps), src)

    for name, (init, steps) in SCENARIOS.items():
        if name == 'only-directory-dropped-from-the-settings' and not DROP_LAST_BY_SETTINGS:
            continue
        add(init, steps, f'scenario:{name}')

    # counterexamples of the models with one deviation switch in the position of the pinned code
    kf = {}
    kfs = [('MC_kf_owner.cfg', 'VisibleOnlyIfEntitledByModeAll'), ('MC_kf_excl.cfg', 'NoExcludedPhraseAll'),
           ('MC_kf_flags.cfg', 'Convergence'), ('MC_kf_session.cfg', 'Convergence')]
    if thorough:
        kfs += [('MC_kf_dirreply.cfg', 'VisibleOnlyIfEntitledByModeAll'), ('MC_kf_scandir.cfg', 'Convergence')]
    for cfg, prop in kfs:
        r = tlc.run_tlc(SPEC, cfg, timeout=600, workers=2)
        hit = [i for i in r.issues if i.name == prop]
        kf[cfg] = bool(hit)
        if hit and hit[0].trace and 'shared' in hit[0].trace[0][1]:
            tr = hit[0].trace
            add(_init_from_state(tr[0][1]), steps_of([lab for lab, _ in tr[1:]]), f'counterexample:{cfg}')
    chk.cov['binding_selftest']['deviation_models_violate'] = kf
    if not all(kf.values()):
        raise MachineryFailure(f'a design model with a deviation switch in the code position did not violate its property: {kf}')

    # the small exhaustive models: checked (with coverage, for vacuity) and dumped in one TLC run each;
    # an edge-cover sample of the state graph is replayed
    for label, cfg, expect, npaths in [m for m in (
            ('Entitlement dirs (nesting, modes, scans; exhaustive)', 'MC_dirs.cfg',
             ['SetMode', 'AddDir', 'RemoveDir', 'ScanAll', 'ScanDir', 'QueueRequest', 'TransferRequest', 'CycleBegin',
              'CycleEnd', 'AbortsDone', 'PeerAccept', 'PeerReject', 'UserAbort', 'UserPause', 'UserRemove'], 450 if thorough else 130),
            ('Entitlement users (friends, blocks, ticks; exhaustive)', 'MC_users.cfg',
             ['SetMode', 'SetUsers', 'SetFriend', 'SetBlock', 'UserMgmtTick', 'QueueRequest', 'TransferRequest',
              'CycleBegin', 'CycleEnd', 'PeerAccept', 'UserAbort', 'UserRemove'], 450 if thorough else 130),
            ('Entitlement three nested directories (exhaustive)', 'MC_nest3.cfg',
             ['SetMode', 'AddDir', 'RemoveDir', 'ScanAll', 'ScanDir', 'QueueRequest', 'TransferRequest', 'CycleBegin',
              'CycleEnd'], 200 if thorough else 60),
            ('Entitlement changes with and without a session (exhaustive)', 'MC_session.cfg',
             ['SetMode', 'SetFriend', 'UserMgmtTick', 'SessionStep', 'QueueRequest', 'CycleBegin', 'CycleEnd'],
             200 if thorough else 70),
            ('Entitlement finished uploads asked for again (exhaustive)', 'MC_rereq.cfg',
             ['SetMode', 'SetFriend', 'SetBlock', 'UserMgmtTick', 'QueueRequest', 'TransferRequest', 'CycleBegin',
              'CycleEnd', 'AbortsDone', 'PeerAccept', 'PeerFinish', 'PeerReject', 'UserAbort', 'UserRemove'],
             200 if thorough else 70)) if thorough or m[1] != 'MC_nest3.cfg']:     # (three levels: quick has
        for attempt in (1, 2):                                                      # the scenarios and MC_sim)      # a design-model run does not depend on the tree under test: if its
            g, res = tlc.dump_graph(SPEC, cfg, parse_states='init', coverage=True, timeout=1200)   # output is
            missing = [a for a in expect if res.coverage.get(a, (0, 0))[1] == 0] if res.ok else []  # cut short,
            if not missing:                                                                          # run it again
                break
            if attempt == 2:
                raise MachineryFailure(f'vacuity: actions never taken in {cfg}: {missing}\n{res.raw[-1500:]}')
        chk.add_model(label, res)
        paths = tlc.path_cover(g, max_paths=npaths, rng=chk.rng)
        for p in paths:
            add(_init_from_state(g.states[p[0][0]]), steps_of([e[1] for e in p]), f'cover:{cfg}')
        chk.cov[f'graph_{cfg}'] = dict(states=len(g.states), edges=len(g.edges), paths_replayed=len(paths))

    # random behaviours of the larger model (with Look steps)
    num = 1600 if thorough else 210
    sims, sres = tlc.simulate_behaviours(SPEC, 'MC_sim.cfg', num=num, depth=16, seed=chk.seed + 8, timeout=900)
    for b in sims:
        add(_init_from_state(b[0][1]), steps_of([lab for lab, _ in b[1:]]), 'simulate:MC_sim.cfg')
    chk.cov['sim_behaviours'] = len(sims)
    return behs


# ---------------------------------------------------------------------------

WHAT = {
    'search-reply:excluded-phrase': 'a search reply lists a file whose path contains a server-excluded phrase',
    'search-reply:restricted-as-normal': 'a search reply lists a file of a friends/users-only directory as a normal result for somebody else',
    'shares-reply:restricted-as-normal': 'a shares reply lists a file of a friends/users-only directory as a normal share for somebody else',
    'dir-reply:locked-file-listed': 'a directory-contents reply lists the files of a friends/users-only directory to somebody else',
    'search-reply:to-search-blocked-user': 'a search reply was sent to a user blocked for searches',
    'upload-created:unentitled': 'an upload record was created for a user not entitled to the file',
    'upload-requeued:unentitled': 'an upload was queued again for a user not entitled to the file',
    'upload-started:unentitled': 'an upload left QUEUED for a user not entitled to the file',
    'user-abort': 'an upload aborted on the user\'s request did not stay ABORTED/Requested',
    'conv:not-aborted': 'after the change was seen and a management cycle ran, an unfinished upload that is not permitted is not ABORTED',
    'conv:stale-reason': 'after the change was seen and a management cycle ran, an upload is still ABORTED for a reason that does not hold',
}


def report_marks(chk: Check, v, traces, metas):
    """One violation per distinct mark (= fingerprint), with the number of traces and the shortest
    trace showing it as the replay."""
    by = {}
    for tid, marks in v.accepted.items():
        for mk in marks:
            by.setdefault(mk, []).append(tid)
    for mk in sorted(by):
        tids = sorted(by[mk], key=lambda t: (len(traces[t - 1]), t))
        tid = tids[0]
        what = next((w for k, w in WHAT.items() if mk.startswith(k)), 'property of Entitlement violated')
        srcs = sorted({metas[t - 1]['source'].split(':')[0] for t in tids})
        chk.violation(f'C08:{mk}', f'{what} [{mk}] in {len(tids)} recorded executions (sources: {", ".join(srcs)}); '
                      f'shortest: trace {tid}, {len(traces[tid - 1])} records, behaviour from {metas[tid - 1]["source"]}',
                      dict(trace=traces[tid - 1], meta=metas[tid - 1]))
    chk.cov['marks'] = {mk: len(t) for mk, t in sorted(by.items())}


def execute(world, init, steps, rng_key, probes, slow_close=None):
    import random
    sess = Session(world, random.Random(rng_key), probes=probes, slow_close=slow_close)
    ev = sess.run(init, steps)
    return ev, sess


class _UnguardedSession(Session):
    """Only for the probe below: a friends-list change without the no-revert guard (not recorded as a
    configuration event, the recording is not judged)."""

    async def apply(self, st):
        if st[0] == 'RawFriend':
            u, on = st[1], st[2]
            fr = self.settings.users.friends
            (fr.add if on else fr.discard)(self.w.user[u])
            (self.cfg['friends'].add if on else self.cfg['friends'].discard)(u)
            self.last_user_change = self.loop.time()
            return
        await super().apply(st)


def probe_revert_within_tick(chk: Check, world: World):
    """Informational (no verdict): what the code does when the environment assumption is dropped.  A
    user is made a friend, queues a friends-only file, and is un-friended again before the 1 s
    user-management job runs: the job sees no difference, nothing re-evaluates the upload."""
    import random
    init = (('D3',), (('D1', 'everyone'), ('D2', 'everyone'), ('D3', 'friends')), (('D1', ()), ('D2', ()), ('D3', ())), ())
    steps = (('RawFriend', 'u2', True), ('QueueRequest', 'u2', P_F3), ('RawFriend', 'u2', False), ('Cycle',),
             ('PeerAccept', ('u2', P_F3)))
    sess = _UnguardedSession(world, random.Random(3), probes=0, variants=False, p_quiesce=0)
    ev = sess.run(init, steps)
    q = [e for e in ev if e['ev'] == 'quiescent']
    ups = q[-1]['ups'] if q else []
    chk.cov['assumption_probe'] = dict(
        what='friend added, friends-only file queued, friend removed again within one user-management period '
             '(RevertWithinTick = TRUE; MC_aba.cfg violates Convergence the same way)',
        upload_at_quiescence=[f"{u['u']}/{u['f']}: {u['st']} ({u['reason']})" for u in ups],
        bytes_served=sum(e['n'] for e in ev if e['ev'] == 'bytes'))


def _tuplify(x):
    if isinstance(x, list):
        return tuple(_tuplify(y) for y in x)
    return x


def replay(chk: Check, data: dict):
    """./check C08 --replay FILE: re-execute the behaviour of a replay file (same concretisation, same
    seed) on the current tree and judge the new recording"""
    meta = (data.get('replay') or {}).get('meta') or {}
    if 'steps' not in meta:
        raise MachineryFailure('not a C08 replay file (no behaviour in it)')
    steps = []
    for st in _tuplify(meta['steps']):
        st = list(st)
        for i, a in enumerate(st):      # sets were written as sorted lists
            if st[0] in ('SetBlock', 'SetUsers') and i == 2 or st[0] == 'AddDir' and i == 3 or st[0] == 'SetExcluded' and i == 1:
                st[i] = frozenset(a)
        steps.append(tuple(st))
    tmp = tempfile.mkdtemp(prefix='c08-')
    try:
        w = World(tmp, int(meta['world']))
        ev, sess = execute(w, _tuplify(meta['init']), tuple(steps), meta['rng'], int(meta.get('probes', 2)),
                           meta.get('slow_close'))
    finally:
        shutil.rmtree(tmp, ignore_errors=True)
    chk.count(repr(ev))
    v = tlc.validate_traces(TRACE, 'Trace.cfg', [ev], diag_cfg='TraceDiag.cfg', timeout=600)
    metas = [dict(meta, source=str(meta.get('source', 'replay')))]
    marks = dict(v.accepted)
    v.accepted = {t: set() for t in v.accepted}
    chk.apply_verdicts(v, [ev], fingerprint, meta_of=lambda tid: metas[tid - 1])
    v.accepted = marks
    report_marks(chk, v, [ev], metas)
    chk.sample(dict(meta=metas[0], trace=ev[:80]))
    chk.log(f'replayed: marks {sorted(set().union(*marks.values())) if marks else "rejected"}')


def run(chk: Check, args):
    thorough = chk.tier == 'thorough'
    chk.cov['rule'] = ('behaviour = (initial configuration, sequence of model actions) taken from TLC (hand-written scenarios '
                       'that are behaviours of the model, counterexamples of the deviation models, an edge-cover sample of '
                       'the exhaustive models, simulation of the larger model); each is executed on a real logged-in '
                       'SoulSeekClient with scripted peers in virtual time under several concretisations (names, letter '
                       'case, accents, path forms of requests), with a seeded battery of search/shares/directory requests '
                       'after every change and a quiescent snapshot at the end; distinct = distinct recorded traces; '
                       'non-trivial = the trace contains a reply listing, an upload creation/state change or a refusal')
    # ---- design models (the two larger exhaustive ones are run inside collect()) ----
    try:
        r = tlc.model_check(SPEC, 'MC_excl.cfg', expect_actions=['SetExcluded', 'SetBlock'], timeout=1200)
    except tlc.TLCError as exc:     # e.g. a truncated coverage report: once more, then give up with the reason
        chk.notes.append(f'MC_excl.cfg run repeated after: {str(exc)[:300]}')
        r = tlc.model_check(SPEC, 'MC_excl.cfg', expect_actions=['SetExcluded', 'SetBlock'], timeout=1200)
    chk.add_model('Entitlement excluded phrases (exhaustive)', r)
    if thorough:
        for label, cfg in (('Entitlement dirs, larger (exhaustive)', 'MC_dirs_big.cfg'),
                           ('Entitlement users, larger (exhaustive)', 'MC_users_big.cfg')):
            r = tlc.model_check(SPEC, cfg, timeout=3000)
            chk.add_model(label, r)

    behs = collect(chk, thorough)
    keys = sorted(behs, key=repr)
    chk.log(f'{len(keys)} behaviours to replay')

    tmp = tempfile.mkdtemp(prefix='c08-')
    traces, metas = [], []
    unhandled = {}
    try:
        worlds = [World(tmp, i) for i in range(len(CONCRETE))]
        for bi, key in enumerate(keys):
            init, steps = key
            src = behs[key]
            if src.startswith(('scenario', 'counterexample')) or thorough:
                ws = worlds
            else:
                ws = [worlds[bi % len(worlds)]]
            for w in ws:
                rng_key = f'{chk.seed}:{bi}:{w.idx}'
                probes = 2 if not src.startswith('simulate') else 1
                slow = True if src.startswith(('scenario', 'counterexample')) else None
                ev, sess = execute(w, init, steps, rng_key, probes, slow)
                for u in sess.unhandled:
                    unhandled[u[:160]] = unhandled.get(u[:160], 0) + 1
                traces.append(ev)
                metas.append(dict(source=src, world=w.idx, init=init, steps=tlc.to_jsonable(steps), rng=rng_key, probes=probes,
                                  slow_close=slow))
                chk.count(tuple(tuple(sorted((k, repr(v)) for k, v in e.items())) for e in ev),
                          nontrivial=any(e['ev'] in ('search', 'shares', 'dir', 'created', 'st', 'qreply', 'treply') for e in ev))
    finally:
        shutil.rmtree(tmp, ignore_errors=True)
    chk.log(f'replayed {len(traces)} executions on the real client')
    if unhandled:
        chk.notes.append(f'loop exception handler saw: {unhandled}')
    evc = {}
    for tr in traces:
        for e in tr:
            evc[e['ev']] = evc.get(e['ev'], 0) + 1
    chk.cov['recorded_events'] = evc
    for i in (0, len(traces) // 2, len(traces) - 1):
        chk.sample(dict(meta=metas[i], trace=traces[i][:60]))

    v = tlc.validate_traces(TRACE, 'Trace.cfg', traces, diag_cfg='TraceDiag.cfg', timeout=1500, max_diag=8)
    marks = dict(v.accepted)
    v.accepted = {t: set() for t in v.accepted}         # rejected traces and counters through the framework,
    chk.apply_verdicts(v, traces, fingerprint, meta_of=lambda tid: metas[tid - 1])
    v.accepted = marks                                  # the marks aggregated per fingerprint
    report_marks(chk, v, traces, metas)
    chk.log(f'trace validation: {len(v.accepted)} followed to the end ({sum(1 for m in marks.values() if m)} with marks), '
            f'{len(v.rejected)} rejected')

    if thorough:
        tmp2 = tempfile.mkdtemp(prefix='c08-')
        try:
            probe_revert_within_tick(chk, World(tmp2, 0))
        finally:
            shutil.rmtree(tmp2, ignore_errors=True)
        # cross-check of the marks: the strict configuration (properties as CONSTRAINT lines) must
        # accept exactly the traces without a mark
        sv = tlc.validate_traces(TRACE, 'TraceStrict.cfg', traces, max_diag=0, timeout=1500)
        clean = {t for t, m in marks.items() if not m}
        chk.cov['binding_selftest']['strict_cfg_agrees_with_marks'] = (set(sv.accepted) == clean)
        if set(sv.accepted) != clean:
            raise MachineryFailure(f'TraceStrict.cfg and the marks disagree on traces {sorted(set(sv.accepted) ^ clean)[:10]}')

    # ---- binding self-test: corrupted records must be marked ----
    selftest(chk, traces, v)
    chk.assumptions += [
        'the friends list / block list is not changed back to the value the 1 s user-management job saw last before that '
        'job runs again (such a flip-flop is invisible to a polling job by construction; model switch RevertWithinTick)',
        'a settings change reaches queued and running uploads with the next user-management tick plus one management cycle '
        '(DESIGN timing note); creation and re-queueing of uploads are judged against the settings of that moment',
        'which shared directory holds a file\'s item and which alias names it are read from the public attributes of '
        'SharesManager after every change (the index itself is C07\'s subject)',
        'Linux path semantics (case-sensitive file names)',
    ]


def selftest(chk: Check, traces, verdicts):
    """Corrupt recorded fields of clean traces: each corruption must be marked by the trace spec with
    the property it breaks."""
    good = [traces[t - 1] for t in sorted(verdicts.accepted) if not verdicts.accepted[t]]
    corrupted, kinds = [], []
    want = {'locked->normal': 'restricted-as-normal', 'abort-dropped': 'conv:not-aborted',
            'user-aborted-requeued': 'user-abort:left-ABORTED', 'refusal->created': 'upload-created:unentitled',
            'excluded-listed': 'search-reply:excluded-phrase'}

    def blocked_at(tr, upto, u):
        fl = set()
        for e in tr[:upto]:
            if e['ev'] == 'block' and e['u'] == u:
                fl = set(e['fl'])
        return 'up' in fl

    for tr in good:
        if len(corrupted) >= 15:
            break
        done = False
        for i, e in enumerate(tr):
            if (kinds.count('locked->normal') < 3 and e['ev'] in ('search', 'shares') and e.get('locked')
                    and not any(x['ev'] in ('add', 'remove') for x in tr[:i])):   # no left-over items around
                bad = copy.deepcopy(tr)
                bad[i]['normal'] = sorted(set(e['normal']) | set(e['locked']))
                bad[i]['locked'] = []
                corrupted.append(bad)
                kinds.append('locked->normal')
                done = True
            elif (kinds.count('abort-dropped') < 3 and e['ev'] == 'st' and e['new'] == 'ABORTED'
                  and e['reason'] == 'Blocked' and e['old'] in ('QUEUED', 'INITIALIZING', 'UPLOADING')):
                # (Blocked: a true "File not shared" may also mean that only the remote path went out of
                # use, which does not oblige the upload to be aborted)
                # pretend the upload was never aborted: drop the notification, report the old state at
                # the next quiescent point (only if nothing else happened to the record before it)
                key = tuple(e[k] for k in 'ufdv')
                bad = copy.deepcopy(tr)
                del bad[i]
                ok = False
                for x in bad[i:]:
                    if x['ev'] in ('st', 'created', 'offer', 'bytes') and tuple(x[k] for k in 'ufdv') == key:
                        break
                    if x['ev'] == 'quiescent':
                        for r in x['ups']:
                            if tuple(r[k] for k in 'ufdv') == key and r['st'] == 'ABORTED' and r['reason'] == e['reason']:
                                r['st'], r['reason'] = e['old'], 'none'
                                ok = True
                        break
                if ok:
                    corrupted.append(bad)
                    kinds.append('abort-dropped')
                    done = True
            elif (kinds.count('user-aborted-requeued') < 3 and e['ev'] == 'st' and e['new'] == 'ABORTED'
                  and e['reason'] == 'Requested'):
                bad = copy.deepcopy(tr)
                bad.insert(i + 1, dict(e, old='ABORTED', new='QUEUED', reason='none'))
                for x in bad[i + 2:]:       # keep the rest consistent up to the next report about it
                    if x['ev'] == 'st' and all(x[k] == e[k] for k in 'ufdv'):
                        x['old'] = 'QUEUED'
                        break
                corrupted.append(bad)
                kinds.append('user-aborted-requeued')
                done = True
            elif (kinds.count('refusal->created') < 3 and e['ev'] == 'qreply' and e['v'] == 'exact'
                  and blocked_at(tr, i, e['u']) and not any(x['ev'] == 'created' and all(x[k] == e[k] for k in 'ufdv') for x in tr)):
                bad = copy.deepcopy(tr)
                bad[i] = dict(ev='created', u=e['u'], f=e['f'], d=e['d'], v=e['v'], res=e['f'])
                corrupted.append(bad)
                kinds.append('refusal->created')
                done = True
            elif (kinds.count('excluded-listed') < 3 and e['ev'] == 'search' and e['replied']
                  and any(x['ev'] == 'excluded' and x['ps'] for x in tr[:i])):
                ps = [x for x in tr[:i] if x['ev'] == 'excluded'][-1]['ps']
                hit = [f for f in FILES if any(p[0] in HASW[f] for p in ps)]
                if hit and not set(hit) & (set(e['normal']) | set(e['locked'])):
                    bad = copy.deepcopy(tr)
                    bad[i]['locked'] = sorted(set(e['locked']) | {hit[0]})
                    corrupted.append(bad)
                    kinds.append('excluded-listed')
                    done = True
            if done:
                break
    res = {}
    if corrupted:
        cv = tlc.validate_traces(TRACE, 'Trace.cfg', corrupted, max_diag=0, timeout=600)
        failed = []
        for i, k in enumerate(kinds):
            marks = cv.accepted.get(i + 1)
            ok = marks is None or any(want[k] in m for m in marks)
            a, b = res.get(k, (0, 0))
            res[k] = (a + (1 if ok else 0), b + 1)
            if not ok:
                failed.append((k, sorted(marks)))
        chk.cov['binding_selftest']['corrupted_traces_marked'] = {k: f'{a}/{b}' for k, (a, b) in res.items()}
        if failed and not chk.violations:
            raise MachineryFailure(f'corrupted traces were not marked by the trace spec: {failed}')
        if failed:
            # the corruptions are built on what the code under test answered (e.g. "listed as locked");
            # when that code is itself found in violation they need not break the property
            chk.notes.append(f'binding self-test inconclusive on a run with violations: {failed}')
    else:
        chk.cov['binding_selftest']['corrupted_traces_marked'] = 'no clean trace to corrupt'

"""X05 (beyond the listed properties) - how messages reach peers and the server through Network and its connections
(spec: PeerMessaging).  Not registered in MANIFEST.json; run with ./check X05.

Direction A: behaviours of the PeerMessaging design models (random behaviours of every window on the model from TLC's
simulator, walks that cover the transitions of the small state graphs) are turned into schedules - calls of
send_peer_messages / send_server_messages / queue_message(s) / queue_server_messages, peers that dial in, connects that
are held / succeed / are refused, CannotConnect or a piercing peer, application disconnects, peers that stop / resume
reading, links that are closed / reset / refuse writes between stimuli, after n loop iterations or right after the n-th
frame of a burst, inbound messages, virtual time - plus directed schedules around every time-out boundary, and executed
on a real Network (bare, or inside a logged-in SoulSeekClient) with a scripted server and three scripted peers.
Direction B: bus events, return values, task ends and the frames handed to the transports are recorded and judged by
TLC with PeerMessagingTrace (the verdict).

Observations (behaviour that contradicts the library's own documentation; /repo is not changed for them, the trace spec
lets exactly this through as MARKED deviations and the check prints OBSERVATION lines, exit 0):
  closed-send-reports-success   send_message returns silently on a CLOSING / CLOSED connection: the result list says
                                None ("successfully sent"), raise_on_error=True does not raise, nothing was written.
  idle-timeout-accumulates      every completed send moves the read deadline 60 s further from the OLD deadline: after
                                n sends a connection is closed (n + 1) x 60 s after its last read began.

Files: specs/PeerMessaging/PeerMessaging.tla (design), PeerMessagingTrace.tla, MC_*.cfg (written by mkcfg.py),
Trace.cfg / TraceDiag.cfg; harness/lib_x05.py (rig, recorder, driver)."""
from __future__ import annotations

import copy
import json
import os
import random
import re
import time
from concurrent.futures import ThreadPoolExecutor

from .. import tlc, lib_x05
from ..core import Check, MachineryFailure

SPEC = 'PeerMessaging/PeerMessaging.tla'
TRACE = 'PeerMessaging/PeerMessagingTrace.tla'

# cfg -> (actions that must occur, virtual ms of one model tick, simulated behaviours quick / thorough, depth)
MODELS = {
    'MC_reuse.cfg': (['Invoke', 'MOpen', 'Connected', 'MEstOut', 'MEstIn', 'MAdopt', 'MWrite', 'MReturn'], 20000, 30, 250, 30),
    'MC_reuse_close.cfg': (['Invoke', 'MEstIn', 'MLocalClose', 'Closed', 'MSkip', 'MReturn'], 20000, 40, 300, 30),
    'MC_fail.cfg': (['MBreak', 'NoticeEnd', 'MWrite', 'MWriteFail', 'MErrClose', 'MSkip', 'MLocalClose', 'MReturn'], 20000, 50, 600, 34),
    'MC_refuse.cfg': (['MOpenFail', 'MConnFail', 'MPierce', 'MAdopt', 'MReturn'], 20000, 20, 120, 30),
    'MC_bp.cfg': (['MBlock', 'Unblock', 'MFlush', 'WriteTimeout', 'MTick', 'MWrite', 'MReturn'], 5000, 40, 500, 40),
    'MC_idle.cfg': (['ReadTimeout', 'MPeerSend', 'MDeliver', 'MTick', 'MWrite'], 20000, 40, 400, 40),
    'MC_queue.cfg': (['MEnqueue', 'MQDone', 'MLocalClose', 'MBlock', 'Unblock', 'MWrite', 'MSkip'], 5000, 40, 400, 34),
    'MC_server.cfg': (['Invoke', 'ReadTimeout', 'MBreak', 'NoticeEnd', 'MDeliver', 'MWrite', 'MSkip'], 200000, 30, 250, 34),
    'MC_server_down.cfg': (['Invoke', 'MWriteFail', 'MReturn'], 20000, 4, 20, 12),
}
THOROUGH_MODELS = {
    'MC_queue_t.cfg': ['MEnqueue', 'MQDone', 'WriteTimeout', 'MTick'],
    'MC_big_send.cfg': ['Invoke', 'MOpen', 'MEstIn', 'MAdopt', 'MWrite', 'MReturn'],
    'MC_big_fail.cfg': ['MBreak', 'MWriteFail', 'MErrClose', 'MOpenFail', 'MConnFail', 'MPierce', 'MSkip'],
    'MC_big_time.cfg': ['MBlock', 'Unblock', 'WriteTimeout', 'ReadTimeout', 'MDeliver', 'MTick'],
}
SIM_BIG = ('MC_sim.cfg', 5000, 55, 1500, 50)        # unit ms, quick n, thorough n, depth
COVER = {'MC_refuse.cfg': (30, None), 'MC_server_down.cfg': (10, None), 'MC_queue.cfg': (0, 400), 'MC_idle.cfg': (0, 400)}
TEETH = {     # the position of the code: one of the named properties must be reported violated
    'MC_code_skip.cfg': {'TruthfulResults', 'RaiseIffFailed'},
    'MC_code_shift.cfg': {'NoIdleOverstay', 'TimeoutJustified'},
}
OBSERVATIONS = {
    'closed-send-reports-success':
        'send_peer_messages / send_server_messages report None ("successfully sent") - and do not raise with '
        'raise_on_error=True - for messages that were never written: DataConnection.send_message returns silently when '
        'the connection is CLOSING / CLOSED; USAGE.rst and both docstrings promise None only "in case of success" and an '
        'exception "when a message failed to send"',
    'idle-timeout-accumulates':
        'an idle peer (or server) connection is not closed PEER_READ_TIMEOUT (60 s; "Timeout waiting for message on a peer '
        'or distributed connection") after it was last used: DataConnection._increase_read_timeout shifts the deadline by '
        'read_timeout from the OLD deadline for every completed send, so after n sends the connection lives (n + 1) x 60 s '
        'from its last received message (5 messages in one call: 6 minutes)',
}
STIMULI = {'Invoke', 'MEnqueue', 'Connected', 'MEstIn', 'MOpenFail', 'MPierce', 'MConnFail', 'MLocalClose', 'MBlock', 'Unblock',
           'MBreak', 'MPeerSend', 'MTick'}
_LABEL = re.compile(r'^(\w+)(?:\((.*)\))?$', re.S)


def parse_label(label: str):
    m = _LABEL.match(label.strip())
    if not m:
        return None
    name, args = m.group(1), m.group(2)
    if args is None or not args.strip():
        return (name,)
    return (name,) + tuple(tlc.parse_value('<<' + args + '>>'))


# ---------------------------------------------------------------------------
# behaviours -> schedules
# ---------------------------------------------------------------------------

def schedule_of(labels, unit_ms: int, spacing: str, rng):
    """Project a behaviour of the design model onto what the harness does.  spacing: 'settle' (the library finishes
    what it can between two stimuli that are separated by library steps), 'yield' (only as many loop iterations as there
    were library steps, at most 3), 'arm' (like settle, but a link that breaks in the middle of a burst of writes
    breaks right after that many frames)."""
    ref = {0: ['srv']}
    user_of = {}
    n_out, n_in = {}, {}
    steps = []
    internal = 0
    writes = {}           # model connection -> frames written since the last stimulus
    gated = set()

    def gap_before_next():
        if not steps or steps[-1][0] in ('wait',):
            return
        if internal == 0:
            steps[-1][-1] = 0
        elif spacing == 'yield':
            steps[-1][-1] = min(internal, 3)
        else:
            steps[-1][-1] = -1

    def add(st):
        nonlocal internal
        gap_before_next()
        steps.append(list(st) + [-1])
        internal = 0
        writes.clear()

    for lab in labels:
        a = parse_label(lab)
        if a is None:
            continue
        nm = a[0]
        if nm == 'Invoke':
            k, u, n, r = int(a[1]), str(a[2]), int(a[3]), bool(a[4])
            user_of[k] = u
            add(['send', u, n, r])
        elif nm == 'MEnqueue':
            c = int(a[2])
            if c in ref:
                add(['queue', ref[c], int(a[3])])
        elif nm == 'MOpen':
            c, k = int(a[1]), int(a[2])
            u = user_of.get(k)
            if u is not None:
                ref[c] = ['out', u, n_out.get(u, 0)]
                n_out[u] = n_out.get(u, 0) + 1
                gated.add(u)
            internal += 1
        elif nm == 'Connected':
            c = int(a[1])
            if c in ref and ref[c][0] == 'out':
                add(['connect', ref[c][1], ref[c][2], 'ok'])
            else:
                internal += 1
        elif nm == 'MOpenFail':
            c = int(a[1])
            if c in ref and ref[c][0] == 'out':
                add(['connect', ref[c][1], ref[c][2], 'refuse'])
        elif nm == 'MEstIn':
            c, u = int(a[1]), str(a[2])
            ref[c] = ['in', u, n_in.get(u, 0)]
            n_in[u] = n_in.get(u, 0) + 1
            add(['dial', u])
        elif nm == 'MPierce':
            c, k = int(a[1]), int(a[2])
            u = user_of.get(k)
            if u is not None:
                ref[c] = ['in', u, n_in.get(u, 0)]
                n_in[u] = n_in.get(u, 0) + 1
                add(['pierce', u])
        elif nm == 'MConnFail':
            u = user_of.get(int(a[1]))
            if u is not None:
                add(['cannot', u])
        elif nm in ('MLocalClose', 'MBlock', 'Unblock', 'MPeerSend'):
            c = int(a[1])
            if c in ref:
                add([dict(MLocalClose='close', MBlock='block', Unblock='unblock', MPeerSend='psend')[nm], ref[c]])
        elif nm == 'MBreak':
            c, m = int(a[1]), str(a[2])
            if c not in ref:
                continue
            w = writes.get(c, 0)
            if spacing == 'arm' and w > 0 and steps and steps[-1][0] == 'send':
                last = steps.pop()
                steps.append(['arm', ref[c], w, m, 0])
                steps.append(last)
                internal += 1
            else:
                add(['break', ref[c], m])
        elif nm == 'MTick':
            jitter = rng.choice([0, 0, 0, 1, -1, 250])
            add(['wait', max(1, unit_ms + jitter)])
        else:
            internal += 1
            if nm == 'MWrite':
                # which connection: unknown here without the state; every connection counts the burst
                for c in ref:
                    writes[c] = writes.get(c, 0) + 1
    gap_before_next()
    if steps:
        steps[-1][-1] = -1
    head = [['mode', u, 'gate', 0] for u in sorted(gated)]
    return head + steps


def cover_walks(g, max_len, rng, max_walks=None):
    """Walks from initial states that together cover every edge of the state graph: follow an edge not yet
    covered when the current state has one, else go to the nearest state that has one (BFS), until the walk
    is max_len long.  Returns (walks, covered edge count per prefix of the walk list)."""
    from collections import defaultdict, deque
    out = defaultdict(list)
    for e in sorted(g.edges):                 # TLC's dump order depends on its worker threads
        out[e[0]].append(e)
    for k in sorted(out):
        rng.shuffle(out[k])
    todo = {k: list(v) for k, v in out.items()}      # uncovered edges per source
    n_todo = len(g.edges)
    walks, progress = [], []
    inits = sorted(g.init)
    while n_todo and (max_walks is None or len(walks) < max_walks):
        cur = rng.choice(inits)
        walk = []
        while len(walk) < max_len and n_todo:
            if todo.get(cur):
                e = todo[cur].pop()
                n_todo -= 1
                walk.append(e)
                cur = e[2]
                continue
            # nearest state with an uncovered edge
            parent = {cur: None}
            dq = deque([cur])
            goal = None
            while dq:
                x = dq.popleft()
                if todo.get(x):
                    goal = x
                    break
                for e in out.get(x, ()):
                    if e[2] not in parent:
                        parent[e[2]] = e
                        dq.append(e[2])
            if goal is None:
                break
            hop = []
            while parent[goal] is not None:
                hop.append(parent[goal])
                goal = parent[goal][0]
            hop.reverse()
            if len(walk) + len(hop) >= max_len and walk:
                break
            walk.extend(hop)
            cur = hop[-1][2] if hop else cur
        if not walk:
            break
        walks.append(walk)
        progress.append(len(g.edges) - n_todo)
    return walks, progress


def directed():
    """schedules around the boundaries of the time-outs (what the simulator's unit ticks do not hit)"""
    out = []
    T, W, S = 60000, 10000, 600000
    o0, i0 = ['out', 'p1', 0], ['in', 'p2', 0]
    for d in (-1, 1):
        # an accepted connection nobody wrote on: closed T after it was established; a send just before / after
        out.append(('idle-in', [['dial', 'p2', -1], ['wait', T + d, 0], ['send', 'p2', 1, False, -1]]))
        # ... after it received a message
        out.append(('idle-recv', [['dial', 'p2', -1], ['wait', 30000, 0], ['psend', i0, -1], ['wait', T + d, 0], ['send', 'p2', 2, False, -1]]))
        # a connection made for a call (one send): what the code does at 2T
        out.append(('idle-out', [['send', 'p1', 1, False, -1], ['wait', 2 * T + d, 0], ['send', 'p1', 1, False, -1]]))
        out.append(('idle-out-doc', [['send', 'p1', 1, False, -1], ['wait', T + d, 0], ['send', 'p1', 1, True, -1]]))
        # three messages in one call: 4T
        out.append(('idle-burst', [['send', 'p1', 3, False, -1], ['wait', 4 * T + d, 0], ['send', 'p1', 1, False, -1]]))
        # write time-out: the peer reads again just before / after WT
        out.append(('write-to', [['send', 'p1', 1, False, -1], ['block', o0, 0], ['send', 'p1', 2, False, -1], ['wait', W + d, 0],
                                 ['unblock', o0, -1], ['send', 'p1', 1, False, -1]]))
        out.append(('write-to-raise', [['dial', 'p2', -1], ['block', i0, 0], ['send', 'p2', 2, True, 0], ['send', 'p2', 1, False, -1],
                                       ['wait', W + d, 0], ['unblock', i0, -1]]))
        out.append(('write-to-queue', [['dial', 'p2', -1], ['block', i0, 0], ['queue', i0, 2, 0], ['send', 'p2', 1, False, -1],
                                       ['wait', W + d, 0], ['unblock', i0, -1]]))
        # the server connection: S after the last message from the server; a send after it
        out.append(('idle-server', [['wait', S + d, 0], ['send', 'server', 1, False, -1]]))
        out.append(('idle-server-recv', [['wait', 100000, 0], ['psend', ['srv'], -1], ['wait', S + d, 0], ['send', 'server', 2, True, -1]]))
        out.append(('idle-server-sent', [['send', 'server', 1, False, -1], ['wait', S + d, 0], ['send', 'server', 1, False, -1],
                                         ['wait', S, 0], ['send', 'server', 1, False, -1]]))
    # the other end closes / resets while a call is on its way (both orders, 0 - 3 loop iterations apart)
    for gap in (0, 1, 2, 3):
        for mode in ('eof', 'reset'):
            out.append(('race-send-break', [['send', 'p1', 1, False, -1], ['send', 'p1', 2, False, gap], ['break', o0, mode, -1]]))
            out.append(('race-break-send', [['send', 'p1', 1, False, -1], ['break', o0, mode, gap], ['send', 'p1', 2, False, -1]]))
            out.append(('race-break-send-raise', [['dial', 'p2', -1], ['break', i0, mode, gap], ['send', 'p2', 2, True, -1]]))
            out.append(('race-break-queue', [['dial', 'p2', -1], ['break', i0, mode, gap], ['queue', i0, 2, -1]]))
            out.append(('race-server', [['break', ['srv'], mode, gap], ['send', 'server', 2, False, -1]]))
        out.append(('race-close-send', [['dial', 'p2', -1], ['close', i0, gap], ['send', 'p2', 2, False, -1]]))
        out.append(('race-close-queue', [['dial', 'p2', -1], ['block', i0, 0], ['queue', i0, 2, -1], ['close', i0, gap], ['queue', i0, 1, -1]]))
    # concurrent senders while a connection is being made, established, closing
    out.append(('concurrent-3', [['mode', 'p1', 'gate', 0], ['send', 'p1', 1, False, 0], ['send', 'p1', 2, False, 0], ['send', 'p1', 1, True, -1],
                                 ['connect', 'p1', 1, 'ok', -1], ['send', 'p1', 1, False, -1], ['connect', 'p1', 0, 'ok', 0],
                                 ['connect', 'p1', 2, 'refuse', -1], ['cannot', 'p1', -1], ['send', 'p1', 3, False, -1]]))
    out.append(('concurrent-2peers', [['send', 'p1', 2, False, 0], ['send', 'p2', 2, False, 0], ['send', 'p3', 1, True, 0], ['send', 'p1', 1, False, -1],
                                      ['send', 'p2', 3, False, 0], ['send', 'p1', 3, False, -1]]))
    # the direct connection is refused: the peer pierces / the server says CannotConnect / nobody says anything
    for gap in (0, -1):
        out.append(('indirect-pierce', [['mode', 'p1', 'gate', 0], ['send', 'p1', 2, False, 0], ['send', 'p1', 1, True, -1],
                                        ['connect', 'p1', 0, 'refuse', gap], ['connect', 'p1', 1, 'refuse', -1], ['pierce', 'p1', gap],
                                        ['cannot', 'p1', -1], ['send', 'p1', 1, False, -1]]))
    out.append(('indirect-silence', [['mode', 'p2', 'gate', 0], ['send', 'p2', 2, False, -1], ['connect', 'p2', 0, 'refuse', -1],
                                     ['wait', 59999, 0], ['send', 'p2', 1, False, -1], ['connect', 'p2', 1, 'ok', -1]]))
    # a link that refuses writes after the n-th frame of a burst
    for n in (1, 2):
        for mode in ('failing', 'reset', 'eof'):
            out.append(('mid-burst', [['send', 'p1', 1, False, -1], ['arm', o0, n, mode, 0], ['send', 'p1', 3, False, 0], ['send', 'p1', 2, True, -1]]))
            out.append(('mid-burst-queue', [['dial', 'p2', -1], ['arm', i0, n, mode, 0], ['queue', i0, 3, 0], ['queue', i0, 1, -1]]))
    # the server connection was never connected
    return out


# ---------------------------------------------------------------------------
# judging
# ---------------------------------------------------------------------------

def fingerprint_of(tid, info, trace):
    evn = (info.get('event') or {}).get('ev', '?')
    return f"X05:{evn}:{info.get('name')}"


def observe(chk, v, traces, metas):
    seen = {}
    for tid, marks in v.accepted.items():
        for mk in sorted(marks):
            if mk not in OBSERVATIONS:
                raise MachineryFailure(f'unknown mark {mk!r} on trace {tid}')
            seen.setdefault(mk, []).append(tid)
        marks.clear()
    obs = chk.cov.setdefault('observations', {})
    for mk, tids in sorted(seen.items()):
        tid = min(tids, key=lambda t: len(traces[t - 1]))
        obs[mk] = dict(what=OBSERVATIONS[mk], traces=len(tids), example=dict(meta=metas[tid - 1], trace=traces[tid - 1]))
        print(f'OBSERVATION property={chk.pid} {mk} (tolerated, marked; in {len(tids)} traces) :: {OBSERVATIONS[mk]}', flush=True)
        chk.notes.append(f'observation {mk}: {OBSERVATIONS[mk]}')
    return seen


def corrupt(trace, rng):
    """one recorded fact changed so that the execution breaks a property: the trace must be rejected"""
    t = copy.deepcopy(trace)
    kinds = ['res', 'swap', 'dup', 'late', 'tick', 'noret', 'qdone', 'recv', 'open']
    rng.shuffle(kinds)
    written = {(e['k'], e['i']) for e in t if e['ev'] == 'write'}
    for kind in kinds:
        idx = list(range(len(t)))
        rng.shuffle(idx)
        if kind == 'res':
            for x in idx:
                e = t[x]
                if e['ev'] == 'ret' and e['out'] == 'ok' and e['res']:
                    js = [j for j in range(len(e['res'])) if (e['k'], j + 1) in written and e['res'][j] in ('ok', 'err')]
                    if js:
                        j = rng.choice(js)
                        e['res'][j] = 'err' if e['res'][j] == 'ok' else 'ok'
                        return t, kind
        elif kind == 'swap':
            for x in idx:
                if x + 1 < len(t) and t[x]['ev'] == 'write' and t[x + 1]['ev'] == 'write' and t[x]['k'] == t[x + 1]['k'] \
                        and t[x]['c'] == t[x + 1]['c']:
                    t[x], t[x + 1] = t[x + 1], t[x]
                    return t, kind
        elif kind == 'dup':
            for x in idx:
                if t[x]['ev'] == 'write':
                    t.insert(x + 1, dict(t[x]))
                    return t, kind
        elif kind == 'late':
            for x in idx:
                if t[x]['ev'] == 'write':
                    c = t[x]['c']
                    ys = [y for y in range(x + 1, len(t)) if t[y]['ev'] == 'state' and t[y]['c'] == c and t[y]['st'] == 'CLOSED']
                    if ys:
                        e = t.pop(x)
                        t.insert(ys[0], e)      # ys[0] shifted by the pop: lands right after the CLOSED record
                        return t, kind
        elif kind == 'tick':
            for x in idx:
                if x + 1 < len(t) and t[x]['ev'] == 'tick' and t[x + 1]['ev'] == 'state' and t[x + 1]['st'] == 'CLOSING' \
                        and t[x + 1]['reason'] == 'TIMEOUT':
                    d = rng.choice([-3000, 3000])
                    prev = max([e['t'] for e in t[:x] if e['ev'] == 'tick'] or [0])
                    if t[x]['t'] + d > prev:
                        t[x]['t'] += d
                        for y in range(x + 1, len(t)):
                            if t[y]['ev'] == 'tick' and t[y]['t'] <= t[x]['t']:
                                t[y]['t'] = t[x]['t'] + (y - x)
                        return t, kind
        elif kind == 'noret':
            for x in idx:
                if t[x]['ev'] == 'ret':
                    del t[x]
                    return t, kind
        elif kind == 'qdone':
            for x in idx:
                if t[x]['ev'] == 'qdone' and t[x]['how'] == 'cancelled' and (t[x]['k'], t[x]['i']) not in written:
                    t[x]['how'] = 'done'
                    return t, kind
        elif kind == 'recv':
            for x in idx:
                if t[x]['ev'] == 'recv':
                    t[x]['j'] += 1
                    return t, kind
        elif kind == 'open':
            cs = [e['c'] for e in t if e['ev'] in ('open', 'est')]
            opens = [e for e in t if e['ev'] == 'open']
            if opens and cs:
                # more connections asked for than calls were made to that user
                u = opens[-1]['user']
                extra = 1 + sum(1 for e in t if e['ev'] == 'call' and e['kind'] == 'send' and e['user'] == u) \
                    - sum(1 for e in opens if e['user'] == u)
                if extra >= 1 and max(cs) + extra <= 12:
                    last = max(x for x, e in enumerate(t) if e['ev'] in ('open', 'est'))
                    for j in range(extra):
                        t.insert(last + 1 + j, dict(ev='open', c=max(cs) + 1 + j, user=u))
                    return t, kind
    return None, None


def stats_of(traces):
    st = {}

    def inc(k):
        st[k] = st.get(k, 0) + 1
    for tr in traces:
        for e in tr:
            inc(e['ev'])
            if e['ev'] == 'ret':
                inc('ret-' + e['out'])
                if 'err' in e['res']:
                    inc('ret-with-err')
            elif e['ev'] == 'state' and e['st'] == 'CLOSING':
                inc('closing-' + e['reason'])
            elif e['ev'] == 'qdone':
                inc('qdone-' + e['how'])
            elif e['ev'] == 'break':
                inc('break-' + e['mode'])
            elif e['ev'] == 'est':
                inc('est-' + e['dir'] + ('-rq' if e['rq'] and e['dir'] == 'in' else ''))
    return st


NEEDED = ['write', 'wfail', 'ret-ok', 'ret-raise', 'ret-connfail', 'ret-with-err', 'closing-TIMEOUT', 'closing-EOF', 'closing-READ_ERROR',
          'closing-WRITE_ERROR', 'closing-REQUESTED', 'closing-CONNECT_FAILED', 'qdone-done', 'qdone-cancelled', 'recv', 'block', 'unblock',
          'est-in', 'est-out', 'est-in-rq', 'break-eof', 'break-reset', 'break-failing']
CONSTRAINED = {'write', 'wfail', 'ret', 'qdone', 'recv', 'state', 'open'}


def execute(case):
    name, sched, conc = case
    rig = lib_x05.run_schedule(sched, **conc)
    return rig.events, rig.notes


def run(chk: Check, args):
    thorough = chk.tier == 'thorough'
    chk.cov['rule'] = ('behaviours of the PeerMessaging design models (TLC simulation of every window, transition-covering walks '
                       'of the small graphs) and directed time-out boundary schedules, executed on a real Network (bare or in a '
                       'logged-in SoulSeekClient) with a scripted server and 3 scripted peers; distinct = distinct (schedule, rig, '
                       'names, message style); non-trivial = at least one write / result / close / task end was judged')
    workers = min(4, int(os.environ.get('VERIF_TLC_WORKERS', '4')))
    pool = ThreadPoolExecutor(max_workers=4)

    def timed(fn, *a, **kw):
        t0 = time.perf_counter()
        out = fn(*a, **kw)
        res = out[1] if isinstance(out, tuple) else out
        res.wall_s = time.perf_counter() - t0
        return out

    # --- design models (in the background) --------------------------------------------------------------------
    sim_futs = {}
    for cfg, (exp, unit, nq, nt, depth) in MODELS.items():
        sim_futs[cfg] = pool.submit(timed, tlc.simulate_behaviours, SPEC, cfg, num=nt if thorough else nq, depth=depth,
                                    seed=chk.seed + 17 + len(sim_futs), timeout=600)
    cfg, unit, nq, nt, depth = SIM_BIG
    sim_futs[cfg] = pool.submit(timed, tlc.simulate_behaviours, SPEC, cfg, num=nt if thorough else nq, depth=depth,
                                seed=chk.seed + 5, timeout=900)
    graph_futs = {}
    for cfg, (capq, capt) in COVER.items():
        if thorough or capq:
            graph_futs[cfg] = pool.submit(timed, tlc.dump_graph, SPEC, cfg, parse_states=False, coverage=True, timeout=900, workers=2,
                                          extra=['-fp', '0'])
    mc_futs = {cfg: pool.submit(timed, tlc.model_check, SPEC, cfg, expect_actions=exp[0], timeout=900, workers=2)
               for cfg, exp in MODELS.items() if cfg not in graph_futs}
    teeth_futs = {cfg: pool.submit(tlc.run_tlc, SPEC, cfg, timeout=600, workers=2) for cfg in TEETH}
    big_futs = {}
    if thorough:
        for cfg, exp in THOROUGH_MODELS.items():
            big_futs[cfg] = pool.submit(timed, tlc.model_check, SPEC, cfg, expect_actions=exp, timeout=1500, workers=workers)

    # --- schedules ----------------------------------------------------------------------------------------------
    cases, seen = [], set()
    rng = chk.rng

    def add_case(name, sched, conc):
        if not sched:
            return
        key = json.dumps([sched, sorted(conc.items())], sort_keys=True)
        if key in seen:
            return
        seen.add(key)
        cases.append((name, sched, conc))

    def conc_of(n, srv_down=False):
        mode = 'client' if (n % 4 == 3 and not srv_down) else 'network'
        return dict(mode=mode, names=n % 3, style=n % 12, srv_open=not srv_down)

    n = 0
    for name, sched in directed():
        reps = 3 if thorough else 1
        for r in range(reps):
            add_case('directed:' + name, sched, conc_of(n + (3 if r == 1 else 0)))
            n += 1
    add_case('directed:server-down', [['send', 'server', 2, False, 0], ['send', 'server', 1, True, -1], ['queue', ['srv'], 2, -1]],
             conc_of(0, srv_down=True))
    sims = {}
    units = {cfg: v[1] for cfg, v in MODELS.items()}
    units[SIM_BIG[0]] = SIM_BIG[1]
    for cfg, f in sim_futs.items():
        behs, res = f.result()
        sims[cfg] = (res, len(behs))
        for b in behs:
            labels = [lab for lab, _ in b[1:]]
            if not any((parse_label(x) or ('?',))[0] in STIMULI for x in labels):
                continue
            spacing = ('settle', 'yield', 'arm')[n % 3]
            sched = schedule_of(labels, units[cfg], spacing, rng)
            add_case(f'sim:{cfg}:{spacing}', sched, conc_of(n, srv_down=(cfg == 'MC_server_down.cfg')))
            n += 1
    models = {}
    for cfg, f in graph_futs.items():
        g, res = f.result()
        exp = MODELS[cfg][0]
        if res.ok:
            missing = [a for a in exp if res.coverage.get(a, (0, 0))[1] == 0]
            if missing:
                raise tlc.TLCError(f'vacuity: actions never taken in {cfg}: {missing}')
        models[cfg] = res
        cap = COVER[cfg][1] if thorough else COVER[cfg][0]
        if thorough and COVER[cfg][1] is None:
            cap = None
        walks, progress = cover_walks(g, 40, rng, max_walks=cap)
        chk.cov.setdefault('cover', {})[cfg] = dict(edges=len(g.edges), walks=len(walks), edges_covered=progress[-1] if progress else 0)
        for wk in walks:
            spacing = ('settle', 'yield', 'arm')[n % 3]
            sched = schedule_of([e[1] for e in wk], units[cfg], spacing, rng)
            add_case(f'cover:{cfg}:{spacing}', sched, conc_of(n, srv_down=(cfg == 'MC_server_down.cfg')))
            n += 1
        del g
    chk.log(f'{len(cases)} schedules to execute ({sum(nb for _, nb in sims.values())} simulated behaviours)')

    # --- execution on the real code ------------------------------------------------------------------------------
    traces, metas = [], []
    for i, case in enumerate(cases):
        ev, notes = execute(case)
        traces.append(ev)
        metas.append(dict(source=case[0], schedule=case[1], conc=case[2], notes=notes[:3]))
        chk.count((case[1], sorted(case[2].items())), nontrivial=any(e['ev'] in CONSTRAINED for e in ev))
        if i % 200 == 0:
            chk.log(f'  executed {i + 1}/{len(cases)}')
    stats = stats_of(traces)
    chk.cov['observed'] = stats
    chk.cov['longest_trace'] = max((len(t) for t in traces), default=0)
    if traces:
        chk.sample(dict(meta=metas[0], trace=traces[0]))
        big = max(range(len(traces)), key=lambda i: sum(e['ev'] in CONSTRAINED for e in traces[i]))
        chk.sample(dict(meta=metas[big], trace=traces[big]))
    for need in NEEDED:
        if not stats.get(need):
            raise MachineryFailure(f'vacuous replay: no {need} in any trace')
    chk.log(f'{len(traces)} executions recorded, {sum(len(t) for t in traces)} records')

    # --- verdict ---------------------------------------------------------------------------------------------------
    v = tlc.validate_traces(TRACE, 'Trace.cfg', traces, diag_cfg='TraceDiag.cfg', timeout=1500, workers=workers)
    seen_marks = observe(chk, v, traces, metas)
    chk.apply_verdicts(v, traces, fingerprint_of, meta_of=lambda tid: metas[tid - 1])
    chk.log(f'{len(v.accepted)} traces accepted, {len(v.rejected)} rejected')
    chk.cov['unmarked_traces'] = len(v.accepted) - len({t for ts in seen_marks.values() for t in ts})

    # --- the design models' results --------------------------------------------------------------------------------
    for cfg, res in models.items():
        chk.add_model(f'PeerMessaging {cfg}', res)
    for cfg, f in mc_futs.items():
        chk.add_model(f'PeerMessaging {cfg}', f.result())
    for cfg, f in big_futs.items():
        chk.add_model(f'PeerMessaging {cfg}', f.result())
    for cfg, (res, nb) in sims.items():
        chk.add_model(f'PeerMessaging {cfg} (simulation, {nb} behaviours)', res, exhaustive=False)
    for cfg, f in teeth_futs.items():
        r = f.result()
        hit = sorted({i.name for i in r.issues} & TEETH[cfg])
        chk.cov['binding_selftest'][f'{cfg}_violates'] = hit
        if not hit:
            raise MachineryFailure(f'design model {cfg} (switch in the position of the code) did not violate any of '
                                   f'{sorted(TEETH[cfg])}: {[(i.kind, i.name) for i in r.issues]}')
    pool.shutdown()

    # --- the binding bites: corrupted traces must be rejected -----------------------------------------------------------
    if not v.rejected:
        bad, kinds = [], {}
        order = list(range(len(traces)))
        rng.shuffle(order)
        for i in order:
            t2, kind = corrupt(traces[i], rng)
            if t2 is not None and kinds.get(kind, 0) < 5:
                kinds[kind] = kinds.get(kind, 0) + 1
                bad.append((kind, t2))
            if len(bad) >= 45:
                break
        cv = tlc.validate_traces(TRACE, 'Trace.cfg', [t for _, t in bad], max_diag=0, timeout=900, workers=workers)
        missed = sorted({bad[tid - 1][0] for tid in cv.accepted})
        chk.cov['binding_selftest']['corrupted_traces_rejected'] = f'{len(cv.rejected)}/{len(bad)}'
        chk.cov['binding_selftest']['corruption_kinds'] = kinds
        if missed:
            raise MachineryFailure(f'corrupted traces were accepted: {missed}')
        if len(kinds) < 7:
            raise MachineryFailure(f'binding self-test too narrow: {kinds}')
    chk.cov['exhaustive'] = False
    chk.assumptions += [
        'a frame is "written" when the transport was handed all of its bytes; whether the other end read it is TCP\'s matter',
        'a send whose drain() is not held back completes in the step that wrote it (virtual time)',
        'the write time-out of send_message is 10 s (hard-coded in connection.py, undocumented); the server connection\'s '
        'read time-out is SERVER_READ_TIMEOUT = 600 s (constants.py), not "none"',
        'which usable connection a call re-uses is not constrained (the code takes the oldest)',
        'connects that never end, indirect connection details and the connection life cycle itself are C11 / C10',
    ]


def replay(chk: Check, data):
    meta = (data.get('replay') or {}).get('meta') or {}
    if not meta:
        raise MachineryFailure('replay file has no schedule')
    ev, notes = execute((meta.get('source'), meta['schedule'], meta['conc']))
    for e in ev:
        print(json.dumps(e, default=str))
    v = tlc.validate_traces(TRACE, 'Trace.cfg', [ev], diag_cfg='TraceDiag.cfg', timeout=600, workers=2)
    observe(chk, v, [ev], [meta])
    chk.apply_verdicts(v, [ev], fingerprint_of)

"""C11 - connecting to a peer succeeds iff a path works, and leaves nothing behind (spec: PeerConnect).

Direction A: TLC behaviours of the PeerConnect design model (environment actions only) are executed as
stimulus schedules on the real `aioslsk.network.network.Network`, over harness.simnet with a scripted
server and scripted peers, in virtual time.  After every stimulus the loop is run to quiescence and the
public surfaces named by the property are recorded.
Direction B: every recorded execution is judged by TLC against PeerConnectTrace.
"""
from __future__ import annotations

import asyncio
import copy
import re

from .. import tlc, vloop
from ..core import Check, MachineryFailure
from ..simnet import Endpoint, SimNet
from ..simserver import ScriptedPeer, ScriptedServer, make_settings

SPEC = 'PeerConnect/PeerConnect.tla'
TRACE = 'PeerConnect/PeerConnectTrace.tla'

ME = 'me'
MY_PORT, MY_OBF_PORT = 61000, 61001
PEER_IP = '10.0.0.7'
PEER_PORT, PEER_OBF_PORT = 40000, 40001          # the peer we connect to
CB_IP = '10.0.0.9'
CB_PORT, CB_OBF_PORT = 41000, 41001              # the peer that asks us to connect back
CB_TICKET = 777
BAD_PORT = 70000                                   # uint32 on the wire, not a TCP port

EPS = 0.001
_HARNESS_DIR = __import__('os').path.dirname(__import__('os').path.dirname(__import__('os').path.abspath(__file__)))
TICK = 0.004


# ---------------------------------------------------------------------------
# executing one schedule on the real Network
# ---------------------------------------------------------------------------

class Scenario(dict):
    """mode: fallback|race; given: address passed by the caller; sendfail: the server write of
    ConnectToPeer fails; typ: P|F|D; ports: clear|obf|both (what the peer offers); pref: prefer obfuscated;
    pvia: clear|obf (listening port the peer pierces); user: peer name; badport: the port the peer is known
    under is 70000; steps: list of stimuli."""


class Runner:
    def __init__(self, scn: Scenario):
        self.scn = scn
        self.trace: list[dict] = []

    # -- entry -----------------------------------------------------------------
    def run(self):
        try:
            _, loop = vloop.run(lambda lp: self._main(lp))
        except vloop.Deadlock:
            self.trace.append(dict(ev='harness_deadlock'))
        return self.trace

    # -- helpers ---------------------------------------------------------------
    def _label(self, link):
        port = link.addr[1][1]
        if port == 2416:
            return 'server'
        if port in (PEER_PORT, PEER_OBF_PORT):
            return 'direct'
        if port in (MY_PORT, MY_OBF_PORT):
            return 'pierce'
        if port in (CB_PORT, CB_OBF_PORT):
            return 'cb'
        return 'other'

    def _conn_rec(self, c):
        return dict(st=c.state.name, cs=c.connection_state.name, typ=str(c.connection_type),
                    user=c.username if c.username is not None else 'none', inc=bool(c.incoming))

    def _task_factory(self, loop, coro, **kw):
        """Remembers which task created which: work 'of the request' is found by ancestry, not by task or
        function names."""
        t = asyncio.Task(coro, loop=loop, **kw)
        code = getattr(coro, 'cr_code', None) or getattr(coro, 'gi_code', None)
        if code is not None and code.co_filename.startswith(_HARNESS_DIR):
            self.parent[t] = None            # the simulated remote side (scripted peers, server): not the code under test
            return t
        try:
            self.parent[t] = asyncio.current_task(loop)
        except RuntimeError:
            self.parent[t] = None
        return t

    def _is_attempt_task(self, t):
        """A still pending task that the request task created (directly or through tasks it created) - other
        than the message reader of a connection that is registered (a returned or handed-over connection keeps
        its reader)."""
        if self.req is None or t is self.req:
            return False
        if any(getattr(c, '_reader_task', None) is t for c in self.network.peer_connections):
            return False
        seen = set()
        cur = self.parent.get(t)
        while cur is not None and cur not in seen:
            if cur is self.req:
                return True
            seen.add(cur)
            cur = self.parent.get(cur)
        return False

    def _snapshot(self, live=False):
        """live: count the waiters that are still waiting (future not done).  A waiter that was cancelled in this
        very loop iteration is still an entry of its table until its done-callback runs one iteration later, but it
        waits for nothing and can no longer be completed; at a quiescent point the entries themselves must be gone."""
        nw = self.network
        cbu = self.scn.get('cbuser', 'cbpeer')
        reg = [self._conn_rec(c) for c in nw.peer_connections if c.username != cbu]
        regb = [self._conn_rec(c) for c in nw.peer_connections if c.username == cbu]
        links = sorted(self._label(l) for l in self.net.open_links())
        tasks = [t for t in asyncio.all_tasks(self.loop) if not t.done() and self._is_attempt_task(t)]
        tws = list(nw._expected_connection_futures.values())
        rws = list(nw._expected_response_futures)
        if live:
            tws = [f for f in tws if not f.done()]
            rws = [f for f in rws if not f.done()]
        return dict(reg=reg, regb=regb, tw=len(tws), rw=len(rws),
                    links=[x for x in links if x not in ('server', 'cb')],
                    cblinks=len([x for x in links if x == 'cb']),
                    srvlink=('server' in links),
                    tasks=len(tasks), now=int(round((self.loop.time() - self.t0) * 1000)))

    def _result(self):
        """The outcome of the request, once."""
        rq = self.req
        if rq is None or not rq.done() or self.reported:
            return dict(res='none')
        self.reported = True
        ret = self.at_return if self.at_return is not None else self._snapshot()   # None: cancelled before it ever ran
        if rq.cancelled():
            return dict(res='cancelled', ret=ret)
        exc = rq.exception()
        if exc is not None:
            return dict(res='exc', cls=type(exc).__name__, ret=ret)
        c = rq.result()
        if not hasattr(c, 'connection_state') or not hasattr(c, 'state'):
            return dict(res='value', cls=type(c).__name__)       # neither a connection nor an exception
        self.returned = c
        rec = self._conn_rec(c)
        rec['inreg'] = c in self.network.peer_connections
        w = getattr(c, '_writer', None)
        link = getattr(w, 'link', None)
        rec['link'] = bool(link is not None and link.open)
        return dict(res='conn', rc=rec, ret=ret)

    async def _probe(self, c):
        """Usable, as the caller and the remote peer see it: one message of the connection's type is sent on
        the returned connection and must arrive at the peer in the encoding a peer of that type expects
        (P: peer message, obfuscated iff the path runs over an obfuscated port; D: distributed message, in the
        clear; F: raw bytes, in the clear), and one such message from the peer must be delivered to us
        (P, D: MessageReceivedEvent for this connection; F: receive_transfer_ticket)."""
        import struct
        M = self.M
        w = getattr(c, '_writer', None)
        link = getattr(w, 'link', None)
        if link is None:
            return False, False
        side = w.side
        typ = self.scn['typ']
        wire_obf = (self._label(link) == 'direct' and link.addr[1][1] == PEER_OBF_PORT) or \
                   (self._label(link) == 'pierce' and link.addr[1][1] == MY_OBF_PORT)
        box = self.peer_later.setdefault(link.id, [])
        if link.id not in self.peer_readers:           # pierce links: nobody reads the peer's side yet
            self._start_peer_reader(Endpoint(link.readers[1 - side], link.writers[1 - side], link), wire_obf, 'p',
                                    first=False)
        # us -> peer
        if typ == 'P':
            out_msg = M.PeerUserInfoRequest.Request()
            expect = out_msg.serialize()
        elif typ == 'D':
            out_msg = M.DistributedBranchLevel.Request(5)
            expect = out_msg.serialize()
        else:
            out_msg = struct.pack('<I', 1234)
            expect = out_msg
        n0 = len(box)
        try:
            await c.send_message(out_msg)
        except Exception:
            pass
        await vloop.settle(self.loop)
        tx = expect in box[n0:]
        # peer -> us
        if typ == 'F':
            task = self.loop.create_task(c.receive_transfer_ticket(), name='h-probe-rx')
            await vloop.settle(self.loop)
            link.writers[1 - side].write(struct.pack('<I', 4321))
            await vloop.settle(self.loop)
            rx = task.done() and not task.cancelled() and task.exception() is None and task.result() == 4321
            if not task.done():
                task.cancel()
                await vloop.settle(self.loop)
        else:
            in_msg = M.PeerUserInfoRequest.Request() if typ == 'P' else M.DistributedBranchLevel.Request(7)
            data = in_msg.serialize()
            if typ == 'P' and wire_obf:
                from aioslsk.protocol import obfuscation
                data = obfuscation.encode(data)
            n1 = len(self.received_events)
            link.writers[1 - side].write(data)
            await vloop.settle(self.loop)
            rx = any(conn is c and msg == in_msg for (msg, conn) in self.received_events[n1:])
        return bool(tx), bool(rx)

    def _seen(self):
        """Frames seen so far by the server and by the peers, as sets of kinds."""
        M = self.M
        scn = self.scn
        srv = set()
        for (_, _, m) in self.server.received:
            if isinstance(m, M.GetPeerAddress.Request):
                srv.add('GPA' if m.username == scn['user'] else 'GPA?')
            elif isinstance(m, M.ConnectToPeer.Request):
                ok = m.username == scn['user'] and m.typ == scn['typ']
                srv.add('CTP' if ok else 'CTP?')
                self.ticket = m.ticket
            elif isinstance(m, M.CannotConnect.Request):
                ok = m.ticket == CB_TICKET
                srv.add('CC' if ok else 'CC?')
        peer = set()
        for kind in self.peer_frames:
            peer.add(kind)
        return sorted(srv), sorted(peer)

    def _log_sync(self, ev, noobs=False, **kw):
        rec = dict(ev=ev, noobs=bool(noobs), **kw)
        rec.update(dict(res='none') if noobs else self._result())
        srv, peer = self._seen()
        rec['srv'] = srv
        rec['peer'] = peer
        rec['att'] = len([a for a in self.attempts if a['who'] == 'd'])
        rec['batt'] = len([a for a in self.attempts if a['who'] == 'b'])
        rec['snap'] = self._snapshot()
        if self.req is not None and self.req.done() and rec['snap']['tasks'] == 0:
            for k in ('conn', 'init', 'ind'):          # nothing of the request is running any more
                self.deadlines.pop(k, None)
        self.trace.append(rec)
        return rec

    async def _log(self, ev, noobs=False, **kw):
        rec = self._log_sync(ev, noobs=noobs, **kw)
        if rec.get('res') == 'conn':
            rec['rc']['tx'], rec['rc']['rx'] = await self._probe(self.returned)
            rec['snap'] = self._snapshot()
        return rec

    # -- scripted peers -----------------------------------------------------------
    async def _peer_reader(self, ep: Endpoint, obf: bool, who: str, first: bool = True):
        """The remote peer's side of a link: reads the initialisation message we send (links we opened), then
        whatever follows, decoded the way a peer of the requested connection type does: 'P' frames are
        obfuscated iff the link runs over an obfuscated port, 'D' frames and 'F' raw data never are."""
        M = self.M
        typ = self.scn['typ'] if who != 'b' else self.scn.get('cbtyp', 'P')
        box = self.peer_later.setdefault(ep.link.id, [])
        while True:
            if not first and typ == 'F':
                try:
                    raw = await ep.reader.readexactly(4)
                except (asyncio.IncompleteReadError, ConnectionError):
                    return
                box.append(raw)
                continue
            frame = await ep.read_frame(obfuscated=obf and (first or typ == 'P'))
            if frame is None:
                return
            if first:
                first = False
                try:
                    msg = M.PeerInitializationMessage.deserialize_request(frame)
                except Exception:
                    self.peer_frames.append('garbage')
                    continue
                if who == 'd':
                    if isinstance(msg, M.PeerInit.Request):
                        ok = msg.username == ME and msg.typ == self.scn['typ']
                        self.init_ticket = msg.ticket
                        self.peer_frames.append('init' if ok else 'init?')
                    else:
                        self.peer_frames.append('unexpected')
                else:
                    if isinstance(msg, M.PeerPierceFirewall.Request):
                        self.peer_frames.append('bpierce' if msg.ticket == CB_TICKET else 'bpierce?')
                    else:
                        self.peer_frames.append('unexpected')
            else:
                box.append(frame)

    def _start_peer_reader(self, ep, obf, who, first=True):
        self.peer_readers.add(ep.link.id)
        t = self.loop.create_task(self._peer_reader(ep, obf, who, first), name=f'h-peer-reader-{who}')
        self._keep.append(t)

    def _on_accept(self, obf, who):
        def cb(ep):
            self._start_peer_reader(ep, obf, who)
        return cb

    # -- main ---------------------------------------------------------------------
    async def _main(self, loop):
        from aioslsk.network.network import Network
        from aioslsk.events import EventBus
        from aioslsk.protocol import messages as M
        scn = self.scn
        self.loop = loop
        self.parent: dict = {}
        loop.set_task_factory(self._task_factory)
        self.M = M
        self.t0 = loop.time()
        self.net = net = SimNet(loop).install()
        self._keep = []
        self.peer_frames: list[str] = []
        self.peer_later: dict[int, list] = {}      # link id -> frames / raw data the peer read after the init message
        self.peer_readers: set[int] = set()
        self.received_events: list = []            # (message, connection) of every MessageReceivedEvent
        self.attempts: list[dict] = []       # open_connection attempts of the code under test
        self.ticket = None
        self.init_ticket = None
        self.req = None
        self.reported = False
        self.at_return = None
        self.returned = None
        self.deadlines: dict[str, float] = {}
        self.addr_wait_done = False
        self.skipped: list[str] = []        # stimuli of the schedule that did not apply to the real run
        self.next_link_mode: dict[str, str] = {}
        self.stalled = None
        try:
            settings = make_settings(ME, port=MY_PORT, obfuscated_port=MY_OBF_PORT,
                                     network=dict(peer=dict(obfuscate=bool(scn['pref']), connect_mode=scn['mode'])))
            server = self.server = ScriptedServer(net)
            server.relay_connect_to_peer = False
            server.handlers[M.GetPeerAddress.Request] = lambda s, sess, m: None     # answered by AddrReply
            server.handlers[M.ConnectToPeer.Request] = self._on_ctp
            server.handlers[M.CannotConnect.Request] = lambda s, sess, m: None
            await server.start()
            # the peer we connect to: listens on the offered ports
            self.peers = []
            for port, obf in ((PEER_PORT, False), (PEER_OBF_PORT, True)):
                p = ScriptedPeer(net, scn['user'], port)
                p.on_accept = self._on_accept(obf, 'd')
                await p.listen()
                self.peers.append(p)
            for port, obf in ((CB_PORT, False), (CB_OBF_PORT, True)):
                p = ScriptedPeer(net, 'cbpeer', port)
                p.on_accept = self._on_accept(obf, 'b')
                await p.listen()
                self.peers.append(p)
            self.dialer = ScriptedPeer(net, scn['user'])

            def policy(host, port):
                if port in (PEER_PORT, PEER_OBF_PORT, CB_PORT, CB_OBF_PORT) or host in (PEER_IP, CB_IP):
                    who = 'b' if (host == CB_IP or port in (CB_PORT, CB_OBF_PORT)) else 'd'
                    fut = loop.create_future()
                    if not 0 <= port <= 65535:
                        # what asyncio.open_connection does with a number that is not a TCP port: the connect
                        # call raises OverflowError (no OSError) one loop iteration later
                        self.attempts.append(dict(who=who, via='invalid', gate=fut, t=loop.time(), host=host))
                        loop.call_soon(fut.set_exception, OverflowError('connect(): port must be 0-65535.'))
                        return ('gate', fut)
                    via = {PEER_PORT: 'clear', PEER_OBF_PORT: 'obf', CB_PORT: 'clear', CB_OBF_PORT: 'obf'}.get(port, 'other')
                    self.attempts.append(dict(who=who, via=via, gate=fut, t=loop.time(), host=host))
                    self.deadlines['conn' if who == 'd' else 'bconn'] = loop.time() + 10
                    return ('gate', fut)
                return 'ok'
            net.policy = policy
            net.on_link = self._on_link

            self.bus = EventBus()
            from aioslsk.events import MessageReceivedEvent
            self._on_msg = lambda ev: self.received_events.append((ev.message, ev.connection))
            self.bus.register(MessageReceivedEvent, self._on_msg)
            self.network = nw = Network(settings, self.bus)
            await nw.initialize()
            nw.server_connection.start_reader_task()      # what SoulSeekClient.login does after the login reply
            await vloop.settle(loop)
            self.session = server.sessions[-1]
            if scn.get('sendfail'):
                self._install_sendfail()
            await self._log('init', mode=scn['mode'], typ=scn['typ'], user=scn['user'], given=bool(scn.get('given')),
                            sendfail=bool(scn.get('sendfail')), badport=bool(scn.get('badport')), ports=scn['ports'],
                            pref=bool(scn['pref']), omit=bool(scn.get('omit')))
            for step in scn['steps']:
                await self._apply(step)
            await self._drain()
            # closing observation: nothing was stimulated, the loop is quiescent
            await vloop.settle(loop)
            await self._log('end')
        finally:
            net.uninstall()
        return self.trace

    def _on_ctp(self, srv, sess, m):
        self.deadlines['ind'] = self.loop.time() + 60
        return None

    def _install_sendfail(self):
        """The write of a ConnectToPeer request on the server connection fails."""
        w = self.network.server_connection._writer
        orig = w.write

        def write(data):
            if len(data) >= 8 and data[4:8] == b'\x12\x00\x00\x00':
                raise ConnectionResetError(104, 'Connection reset by peer')
            return orig(data)
        w.write = write

    def _on_link(self, link):
        lab = self._label(link)
        mode = self.next_link_mode.pop(lab, None)
        if mode == 'fail':
            link.writers[0].fail_writes = ConnectionResetError(104, 'Connection reset by peer')
        elif mode == 'stall':
            link.writers[0].paused = True
            self.stalled = link.writers[0]
            self.deadlines['init' if lab == 'direct' else 'binit'] = self.loop.time() + 10

    async def _drain(self):
        """The schedule is over.  While the request is pending let virtual time pass: every running
        timer of the scenario expires (logged as forced timeouts), and a wait that can only be ended by a
        time bound is given 130 s."""
        for _ in range(8):
            if self.req is None or self.req.done():
                return
            if self.deadlines:
                key = min(self.deadlines, key=lambda k: self.deadlines[k])
                await self._sleep_until(self.deadlines.pop(key))
                await self._log('timeout', which=key, forced=True)
            elif not self.addr_wait_done and not self._snapshot()['srvlink'] and 'GPA' in self._seen()[0]:
                await self._apply(('AddrWaitEnds',))
            else:
                return

    async def _advance_to(self, key):
        """Advance the virtual clock to the deadline `key`; earlier deadlines of this scenario pass first
        and are logged as their own records (the log says what really happened)."""
        order = sorted((t, k) for k, t in self.deadlines.items())
        target = self.deadlines.get(key)
        if target is None:
            self.skipped.append(f'no deadline {key}')
            return False
        for t, k in order:
            if t < target - EPS and k != key:
                await self._sleep_until(t)
                del self.deadlines[k]
                await self._log('timeout', which=k, forced=True)
        await self._sleep_until(target)
        del self.deadlines[key]
        return True

    def _tick(self):
        """A little virtual time passes after every stimulus, so that no two timers of a scenario expire
        at the same instant - but never across a running deadline (those pass only through _advance_to)."""
        room = min(self.deadlines.values(), default=float('inf')) - self.loop.time() - 2 * EPS
        adv = min(TICK, room)
        if adv > 0:
            self.loop.advance(adv)

    async def _sleep_until(self, t):
        dt = t + EPS - self.loop.time()
        if dt > 0:
            await asyncio.sleep(dt)
        await vloop.settle(self.loop)

    def _gate(self, who):
        for a in self.attempts:
            if a['who'] == who and not a['gate'].done():
                return a
        return None

    def _opt(self, op):
        """The obfuscated-port part of GetPeerAddress / ConnectToPeer is optional on the wire: a peer without
        an obfuscated port is reported either with both values 0 or with the fields left out (scenario 'omit')."""
        if not op and self.scn.get('omit'):
            return {}
        return dict(obfuscated_port_amount=1 if op else 0, obfuscated_port=op)

    async def _request(self, extra):
        """The caller: awaits create_peer_connection and, as the very first thing after that await ended
        (returned, raised or cancelled) and before yielding to the loop, looks at what is there."""
        try:
            return await self.network.create_peer_connection(self.scn['user'], self.scn['typ'], **extra)
        finally:
            self.at_return = self._snapshot(live=True)

    def _spin_done(self, until):
        from aioslsk.network.connection import PeerConnectionState
        cbu = 'cbpeer'
        if until == 'direct_done':
            return any((not c.incoming) and c.username != cbu and c.connection_state != PeerConnectionState.AWAITING_INIT
                       for c in self.network.peer_connections)
        if until == 'pierce_adopted':
            return any(c.incoming and c.connection_state != PeerConnectionState.AWAITING_INIT
                       for c in self.network.peer_connections)
        return False

    async def _apply(self, step, until=None):
        """Apply one stimulus, let the loop settle, record.  With `until` (sub-slot schedules) the loop
        is NOT settled: it runs `until` iterations (int) or until the named condition holds, and the record
        carries no observation."""
        loop, M, scn, nw = self.loop, self.M, self.scn, self.network
        name = step[0]
        args = step[1:]
        kw = {}
        if name == 'NoSettle':
            await self._apply(tuple(args[0]), until=args[1])
            return
        if name == 'Request':
            extra = {}
            if scn.get('given'):
                port, obf = self._offered_port()
                if scn.get('badport'):
                    port, obf = BAD_PORT, False
                extra = dict(ip=PEER_IP, port=port, obfuscate=obf)
            self.req = asyncio.create_task(self._request(extra), name='h-request')
        elif name == 'AddrReply':
            kind = args[0]
            cp = PEER_PORT if scn['ports'] in ('clear', 'both') else 0
            op = PEER_OBF_PORT if scn['ports'] in ('obf', 'both') else 0
            if not any(isinstance(m, M.GetPeerAddress.Request) for (_, _, m) in self.server.received):
                self.skipped.append('no GetPeerAddress to answer')
                return
            if not self.session.ep.link.open:
                self.skipped.append('server connection is gone')
                return
            if kind == 'ok':
                if scn.get('badport'):          # the only port the peer is known under is not a TCP port
                    cp, op = BAD_PORT, 0
                msg = M.GetPeerAddress.Response(scn['user'], PEER_IP, cp, **self._opt(op))
            elif kind == 'noip':
                msg = M.GetPeerAddress.Response(scn['user'], '0.0.0.0', 0, **self._opt(0))
            else:
                msg = M.GetPeerAddress.Response(scn['user'], PEER_IP, 0, **self._opt(0))
            self.session.send(msg)
            kw['kind'] = kind
        elif name in ('ConnOk', 'BConnOk'):
            who = 'd' if name == 'ConnOk' else 'b'
            a = self._gate(who)
            if a is None:
                self.skipped.append(f'no connect attempt pending for {name}')
                return
            init = args[0]
            self.next_link_mode = {('direct' if who == 'd' else 'cb'): init}
            self.deadlines.pop('conn' if who == 'd' else 'bconn', None)
            a['gate'].set_result('ok')
            kw['init'] = init
            kw['via'] = a['via']
        elif name in ('ConnRefused', 'BConnRefused'):
            who = 'd' if name == 'ConnRefused' else 'b'
            a = self._gate(who)
            if a is None:
                self.skipped.append(f'no connect attempt pending for {name}')
                return
            self.deadlines.pop('conn' if who == 'd' else 'bconn', None)
            a['gate'].set_result('refuse')
            kw['via'] = a['via']
        elif name in ('ConnTimeout', 'BConnTimeout', 'InitTimeout', 'IndTimeout'):
            key = {'ConnTimeout': 'conn', 'BConnTimeout': 'bconn', 'InitTimeout': 'init', 'IndTimeout': 'ind'}[name]
            if not await self._advance_to(key):
                return
            name = 'timeout'
            kw['which'] = key
            kw['forced'] = False
        elif name == 'InitResume':
            if self.stalled is None or 'init' not in self.deadlines:
                self.skipped.append('no stalled write')
                return
            self.deadlines.pop('init', None)
            self.stalled.resume()
        elif name == 'AddrWaitEnds':
            if self.req is None or self.req.done() or self.addr_wait_done:
                self.skipped.append('nothing waits')
                return
            self.addr_wait_done = True
            await asyncio.sleep(130)
        elif name == 'Pierce':
            if self.ticket is None:
                self.skipped.append('peer does not know the ticket')
                return
            obf = scn.get('pvia', 'clear') == 'obf'
            ep = await self.dialer.pierce(MY_OBF_PORT if obf else MY_PORT, self.ticket, obfuscated=obf)
            self._keep.append(ep)
        elif name == 'PierceAtDeadline':
            # the peer's PeerPierceFirewall frame is delivered in the loop slot in which the 60 s wait ends:
            # the peer connects now, its frame is fed to our side by a timer at the very deadline
            if self.ticket is None or 'ind' not in self.deadlines:
                self.skipped.append('no indirect wait running')
                return
            obf = scn.get('pvia', 'clear') == 'obf'
            ep = await self.net.dial(MY_OBF_PORT if obf else MY_PORT)
            self._keep.append(ep)
            await vloop.settle(loop)
            data = M.PeerPierceFirewall.Request(self.ticket).serialize()
            if obf:
                from aioslsk.protocol import obfuscation
                data = obfuscation.encode(data)
            link = ep.link
            link.log.append((0, data))
            when = self.deadlines.pop('ind') + (args[0] if args else 0.0)
            loop.call_at(when, link._feed, 1, data)
            await self._log('timeout', noobs=True, which='ind', forced=False)
            await self._sleep_until(when)
            name = 'Pierce'
        elif name == 'CannotConnect':
            if self.ticket is None or not self.session.ep.link.open:
                self.skipped.append('server does not know the ticket / connection gone')
                return
            self.session.send(M.CannotConnect.Response(self.ticket))
        elif name == 'CancelRequest':
            if self.req is None or self.req.done():
                self.skipped.append('no request to cancel')
                return
            self.req.cancel()
        elif name == 'CtpRequest':
            if not self.session.ep.link.open:
                self.skipped.append('server connection is gone')
                return
            cp = CB_PORT if scn.get('cbports', 'clear') in ('clear', 'both') else 0
            op = CB_OBF_PORT if scn.get('cbports', 'clear') in ('obf', 'both') else 0
            kw['kind'] = args[0] if args else 'ok'
            if kw['kind'] == 'badport':
                cp, op = (BAD_PORT if cp else 0), (BAD_PORT + 1 if op else 0)
            self.session.send(M.ConnectToPeer.Response('cbpeer', scn.get('cbtyp', 'P'), CB_IP, cp, CB_TICKET, False,
                                                       **self._opt(op)))
        else:
            raise MachineryFailure(f'unknown stimulus {step!r}')
        if until is not None and name != 'timeout':
            for _ in range(until if isinstance(until, int) else 60):
                if not isinstance(until, int) and self._spin_done(until):
                    break
                await asyncio.sleep(0)
            await self._log(_EV[name], noobs=True, **kw)
            return
        await vloop.settle(loop)
        rec = await self._log(name if name == 'timeout' else _EV[name], **kw)
        self._tick()

    def _offered_port(self):
        scn = self.scn
        if scn['ports'] == 'clear':
            return PEER_PORT, False
        if scn['ports'] == 'obf':
            return PEER_OBF_PORT, True
        return (PEER_OBF_PORT, True) if scn['pref'] else (PEER_PORT, False)


_EV = dict(Request='request', AddrReply='addr', ConnOk='conn_ok', ConnRefused='conn_refused', InitResume='init_resume',
           Pierce='pierce', CannotConnect='cannot_connect', CancelRequest='cancel', CtpRequest='ctp_request',
           BConnOk='bconn_ok', BConnRefused='bconn_refused', AddrWaitEnds='addr_wait_ends')



# ---------------------------------------------------------------------------
# TLC behaviours -> stimulus schedules
# ---------------------------------------------------------------------------

_LABEL = re.compile(r'^(\w+)(?:\((.*)\))?$')
_INTERNAL = re.compile(r'^[ODIPB][A-Z]')


def _stimulus(label):
    """Environment action label -> stimulus tuple, None for a process step."""
    m = _LABEL.match(label)
    if not m:
        raise MachineryFailure(f'cannot read action label {label!r}')
    name, argtxt = m.group(1), m.group(2)
    args = tuple(a.strip().strip('"') for a in argtxt.split(',')) if argtxt else ()
    if name == 'BConn':
        if args[0] == 'ok':
            return ('BConnOk', args[1])
        return ('BConnRefused',) if args[0] == 'refused' else ('BConnTimeout',)
    if _INTERNAL.match(name):
        return None
    return (name,) + args


def _graph(cfg, expect=()):
    """Model-check `cfg` (invariants, liveness, action coverage) and dump its state graph in one TLC run."""
    g, res = tlc.dump_graph(SPEC, cfg, parse_states='init', coverage=True, workers=2, timeout=1800)
    if res.ok:
        missing = [a for a in expect if res.coverage.get(a, (0, 0))[1] == 0]
        if missing:
            raise MachineryFailure(f'vacuity: actions never taken in {cfg}: {missing}')
    out = {}
    for s, lab, d in g.edges:
        out.setdefault(s, []).append((_stimulus(lab), d))
    return g, out, res


def _settler(out):
    memo = {}

    def settle(s):
        """Quiescent states reachable from s by process steps only."""
        if s in memo:
            return memo[s]
        ints = [d for (st, d) in out.get(s, ()) if st is None]
        if not ints:
            r = (s,)
        else:
            acc = []
            for d in ints:
                for q in settle(d):
                    if q not in acc:
                        acc.append(q)
            r = tuple(acc)
        memo[s] = r
        return r
    return settle


def _init_key(st):
    return (str(st['mode']), bool(st['given']), bool(st['sendFail']), bool(st['badPort']))


def all_schedules(cfg, g, out):
    """Every maximal sequence of environment actions of the (quiescent-granularity) model `cfg`."""
    import sys
    sys.setrecursionlimit(20000)
    settle = _settler(out)
    scheds = {}

    def walk(q, prefix, init):
        envs = [(st, d) for (st, d) in out.get(q, ()) if st is not None]
        if not envs:
            if prefix:
                scheds.setdefault((init, tuple(prefix)), cfg)
            return
        for st, d in envs:
            for q2 in settle(d):
                walk(q2, prefix + [st], init)
    for i in g.init:
        init = _init_key(g.states[i])
        for q in settle(i):
            walk(q, [], init)
    return scheds, len(g.states), len(g.edges)


def sampled_schedules(cfg, g, out, rng, num):
    """Random maximal environment-action sequences of the model `cfg` plus an edge cover."""
    settle = _settler(out)
    scheds = {}
    for p in tlc.path_cover(g):
        init = _init_key(g.states[p[0][0]])
        st = tuple(x for x in (_stimulus(e[1]) for e in p) if x is not None)
        if st:
            scheds.setdefault((init, st), cfg + ':cover')
    inits = sorted(g.init)
    for _ in range(num):
        i = rng.choice(inits)
        init = _init_key(g.states[i])
        q = rng.choice(settle(i))
        prefix = []
        while True:
            envs = sorted(((st, d) for (st, d) in out.get(q, ()) if st is not None), key=repr)
            if not envs:
                break
            st, d = rng.choice(envs)
            prefix.append(st)
            q = rng.choice(settle(d))
        if prefix:
            scheds.setdefault((init, tuple(prefix)), cfg + ':walk')
    return scheds, len(g.states), len(g.edges)


# ---------------------------------------------------------------------------
# sub-slot schedules (thorough tier): two stimuli without settling in between
# ---------------------------------------------------------------------------

def racy_schedules(full=True):
    """Hand-enumerated family: (init, steps).  ('NoSettle', stimulus, k | condition) applies the stimulus and
    lets the loop run only k iterations (or until the condition) before the next stimulus.  Recorded traces
    are validated against the fine-grained model (TraceFine.cfg)."""
    R = ('Request',)
    out = []
    ks = list(range(0, 11)) if full else [0, 2, 5]
    pks = ks + [12, 14] if full else [0, 3, 7]
    cks = range(0, 5) if full else (0, 2)
    for given in ((False, True) if full else (False,)):
        pre = [R] if given else [R, ('AddrReply', 'ok')]
        race = ('race', given, False)
        fb = ('fallback', given, False)
        for k in ks + ['direct_done']:
            # the request is cancelled while the winning direct attempt completes
            out.append((race, pre + [('NoSettle', ('ConnOk', 'ok'), k), ('CancelRequest',)]))
            out.append((fb, pre + [('NoSettle', ('ConnOk', 'ok'), k), ('CancelRequest',)]))
            out.append((race, pre + [('NoSettle', ('ConnOk', 'stall'), k), ('CancelRequest',)]))
            out.append((race, pre + [('NoSettle', ('ConnOk', 'fail'), k), ('CancelRequest',)]))
            out.append((race, pre + [('NoSettle', ('ConnRefused',), k), ('CancelRequest',)]))
            out.append((fb, pre + [('NoSettle', ('ConnRefused',), k), ('CancelRequest',)]))
            # both attempts succeed almost together
            out.append((race, pre + [('NoSettle', ('ConnOk', 'ok'), k), ('Pierce',)]))
            out.append((race, pre + [('NoSettle', ('ConnOk', 'ok'), k), ('CannotConnect',)]))
        for k in pks + ['pierce_adopted']:
            # the request is cancelled / the direct attempt completes while a pierce is being accepted
            out.append((race, pre + [('NoSettle', ('Pierce',), k), ('CancelRequest',)]))
            out.append((race, pre + [('NoSettle', ('Pierce',), k), ('ConnOk', 'ok')]))
            out.append((race, pre + [('NoSettle', ('Pierce',), k), ('ConnRefused',)]))
            if not given:
                out.append((('fallback', False, False), [R, ('AddrReply', 'noip'), ('NoSettle', ('Pierce',), k), ('CancelRequest',)]))
        for k in cks:
            out.append((race, [('NoSettle', R, k), ('CancelRequest',)]))
            out.append((fb, [('NoSettle', R, k), ('CancelRequest',)]))
            out.append((race, pre + [('NoSettle', ('CancelRequest',), k), ('Pierce',)]))
            if k >= 1:      # the model delivers a cancellation atomically: no stimulus inside that slot
                out.append((race, pre + [('NoSettle', ('CancelRequest',), k), ('ConnOk', 'ok')]))
            if not given:
                out.append((race, [R, ('NoSettle', ('AddrReply', 'ok'), k), ('CancelRequest',)]))
                out.append((fb, [R, ('NoSettle', ('AddrReply', 'ok'), k), ('CancelRequest',)]))
                out.append((fb, [R, ('NoSettle', ('AddrReply', 'noip'), k), ('CancelRequest',)]))
    # the peer's pierce arrives in the loop slot in which the 60 s wait ends (just before / at / just after)
    for mode in ('fallback', 'race'):
        for off in (0.0, -1e-9, 1e-9):
            out.append(((mode, False, False), [R, ('AddrReply', 'noip'), ('PierceAtDeadline', off)]))
            out.append(((mode, False, False), [R, ('AddrReply', 'ok'), ('ConnRefused',), ('PierceAtDeadline', off)]))
            out.append(((mode, True, False), [R, ('ConnOk', 'fail'), ('PierceAtDeadline', off)]))
    return out


def usability_schedules():
    """Every connection type x winning path x clear / obfuscated port (and how that port came to be chosen):
    the schedules in which a connection is returned, with the concretisation fixed instead of rotated, so that
    each combination is exercised in both directions in every run."""
    R = ('Request',)
    out = []
    for typ in ('P', 'F', 'D'):
        for mode in ('fallback', 'race'):
            for given, ports, pref in ((False, 'clear', False), (False, 'obf', False), (False, 'both', True),
                                       (False, 'both', False), (True, 'obf', False), (True, 'clear', False)):
                steps = [R] + ([] if given else [('AddrReply', 'ok')]) + [('ConnOk', 'ok')]
                out.append(((mode, given, False, False), steps, dict(typ=typ, ports=ports, pref=pref, omit=False)))
            for omit in (False, True):      # only a clear port, obfuscation preferred, optional fields 0 / left out
                out.append(((mode, False, False, False), [R, ('AddrReply', 'ok'), ('ConnOk', 'ok')],
                            dict(typ=typ, ports='clear', pref=True, omit=omit)))
            for pvia in ('clear', 'obf'):
                steps = [R, ('AddrReply', 'noip'), ('Pierce',)] if mode == 'fallback' else [R, ('Pierce',)]
                out.append(((mode, False, False, False), steps, dict(typ=typ, pvia=pvia)))
    return out


# ---------------------------------------------------------------------------
# concretisation: what the abstract schedule leaves open
# ---------------------------------------------------------------------------

USERS = ['bob', 'Al Ice', 'm\u00fcller99']
CONCRETE = [dict(typ=t, ports=po, pref=pr, pvia=pv, cbports=cb, cbtyp=ct, omit=om)
            for om in (False, True)
            for t in ('P', 'F', 'D') for po in ('clear', 'obf', 'both') for pr in (False, True)
            for pv, cb, ct in (('clear', 'clear', 'P'), ('obf', 'obf', 'F'), ('clear', 'both', 'D'))]


def make_scenario(init, steps, k, fixed=None):
    c = CONCRETE[k % len(CONCRETE)]
    mode, given, sendfail = init[:3]
    badport = bool(init[3]) if len(init) > 3 else False
    c = dict(c, **(fixed or {}))
    return Scenario(mode=mode, given=given, sendfail=sendfail, badport=badport, user=USERS[k % len(USERS)],
                    steps=[tuple(x) for x in steps], **c)


# ---------------------------------------------------------------------------
# verdict labels
# ---------------------------------------------------------------------------

def _how_ended(trace, upto):
    evs = [r['ev'] for r in trace[:upto]]
    return 'request-cancelled' if 'cancel' in evs else 'attempt-ended'


def _fingerprint(tid, info, trace):
    """Names the failing site / input class of a rejected trace.  The verdict itself is TLC's."""
    hdr = trace[0] if trace else {}
    mode = hdr.get('mode', '?')
    at = info.get('at')
    ev = info.get('event') or {}
    name = info.get('name')
    if info.get('kind') == 'property':
        snap = ev.get('snap') or {}
        how = _how_ended(trace, (at or len(trace)) - 1)
        if name == 'NoWaiterLeftObs':
            site = 'server-send-failed' if hdr.get('sendfail') and how != 'request-cancelled' else \
                ('request-cancelled' if how == 'request-cancelled' else 'loser-cancelled')
            return f'C11:_make_indirect_connection:waiters-left-registered:{mode}:{site}'
        if name == 'NoOrphanConnectionObs':
            own = [c for c in snap.get('reg', [])]
            kinds = sorted({('adopted-late-pierce' if c.get('inc') and c.get('st') == 'CONNECTED' else c.get('st', '?'))
                            for c in own}) or ['link-open']
            return f'C11:orphan-connection:{mode}:{how}:{"+".join(kinds)}'
        if name == 'NoOrphanTaskObs':
            return f'C11:_create_peer_connection_race:attempt-tasks-survive:{mode}:{how}'
        if name == 'ConnectBackCleanObs':
            return 'C11:_handle_connect_to_peer:failed-connect-back-leaves-connection'
        return f'C11:{name}'
    if info.get('kind') == 'unexplained_event':
        what = ev.get('ev')
        res = ev.get('res')
        rc = ev.get('rc') or {}
        if res == 'conn' and rc and not (rc.get('tx') and rc.get('rx')):
            return (f"C11:returned-connection-not-usable:{mode}:typ={rc.get('typ')}:"
                    f"{'pierce' if rc.get('inc') else 'direct'}:tx={bool(rc.get('tx'))}:rx={bool(rc.get('rx'))}")
        if res == 'exc' and ev.get('cls') not in (None, 'PeerConnectionError'):
            return f"C11:error-class:{mode}:{ev.get('cls')}-escapes-create_peer_connection"
        if what == 'ctp_request' and ev.get('batt') and 'CC' not in (ev.get('srv') or ()) and 'bpierce' not in (ev.get('peer') or ()):
            return f"C11:connect-back-not-answered:{ev.get('kind')}"
        if what == 'addr' and ev.get('kind') == 'ok' and not ev.get('att') and not hdr.get('badport'):
            return (f"C11:no-connect-attempt-to-the-offered-port:{mode}:ports={hdr.get('ports')}:"
                    f"prefer-obfuscated={bool(hdr.get('pref'))}:optional-fields-omitted={bool(hdr.get('omit'))}")
        if what == 'stuck':
            return f"C11:code-not-where-the-model-is:{mode}:{str(ev.get('what'))[:40]}"
        return f"C11:unexplained:{mode}:{what}:res={res}{':' + str(ev.get('cls')) if ev.get('cls') else ''}"
    return 'C11:rejected-trace'


def _hint(trace):
    """Observable class of a rejected trace: what is left behind at the first quiescent point after the
    request ended.  Used to pick which rejected traces TLC diagnoses (one per class) and to label the class."""
    hdr = trace[0] if trace else {}
    reported = None
    for i, r in enumerate(trace[1:], 1):
        if r['ev'] in ('stuck', 'harness_deadlock'):
            return ('stuck', hdr.get('mode')), i
        if r.get('res', 'none') != 'none' and reported is None:
            reported = (r['res'], (r.get('rc') or {}).get('inc'))
            rt = r.get('ret')
            if rt:
                keep = 1 if reported[0] == 'conn' else 0
                if reported[0] == 'cancelled':
                    keep = len([c for c in rt['reg'] if c['st'] == 'CONNECTED' and c['cs'] != 'AWAITING_INIT'])
                left = []
                if rt['tw'] or rt['rw']:
                    left.append('waiters')
                if len(rt['reg']) != keep or len(rt['links']) != keep:
                    extra = sorted(c['st'] + ('-incoming' if c['inc'] else '') for c in rt['reg']
                                   if not (keep and c['cs'] != 'AWAITING_INIT' and c['st'] == 'CONNECTED' and
                                           (reported[0] == 'cancelled' or c['inc'] == reported[1])))
                    left.append('conn-' + '-'.join(extra or ['link-open']))
                if rt['tasks']:
                    left.append('tasks')
                if left:
                    return ('left-at-return', hdr.get('mode'), reported[0], '+'.join(left)), i
        if reported:
            sn = r['snap']
            keep = 1 if reported[0] == 'conn' else 0
            if reported[0] == 'cancelled':      # established + announced connections may stay after a cancellation
                keep = len([c for c in sn['reg'] if c['st'] == 'CONNECTED' and c['cs'] != 'AWAITING_INIT'])
            left = []
            if sn['tw'] or sn['rw']:
                left.append('waiters')
            if len(sn['reg']) != keep or len(sn['links']) != keep:
                extra = sorted(('pierce-accept-aborted' if c['inc'] and c['st'] == 'UNINITIALIZED' else
                                'adopted-late-pierce' if c['inc'] else c['st']) for c in sn['reg']
                               if not (keep and c['cs'] != 'AWAITING_INIT' and c['st'] == 'CONNECTED' and
                                       (reported[0] == 'cancelled' or c['inc'] == reported[1])))
                left.append('conn-' + '-'.join(extra or ['link-open']))
            if sn['tasks']:
                left.append('tasks')
            if left:
                how = _how_ended(trace, i + 1)
                if hdr.get('sendfail') and how != 'request-cancelled':
                    how = 'server-send-failed'
                return ('left', hdr.get('mode'), how, '+'.join(left)), i
    for i, r in enumerate(trace[1:], 1):
        rc = r.get('rc') or {}
        if r.get('res') == 'conn' and rc and not (rc.get('tx') and rc.get('rx')):
            return ('unusable', hdr.get('mode'), rc.get('typ'), bool(rc.get('inc')), bool(rc.get('tx')), bool(rc.get('rx'))), i
        if r.get('res') == 'exc' and r.get('cls') != 'PeerConnectionError':
            return ('errclass', hdr.get('mode'), r.get('cls')), i
    return ('other', hdr.get('mode')), None


def _diagnose(trace, fine=False):
    """Why TLC rejects `trace` (wording only; the verdict is the missing ACCEPT)."""
    return tlc.diagnose_trace(TRACE, 'TraceFineDiag.cfg' if fine else 'TraceDiag.cfg', trace,
                              constraint_cfg='TraceFine.cfg' if fine else 'Trace.cfg')


_LEFT_INVS = ('NoWaiterLeftObs', 'NoOrphanConnectionObs', 'NoOrphanTaskObs',
              'NoWaiterLeftAtReturn', 'NoOrphanConnectionAtReturn', 'NoOrphanTaskAtReturn')


def _diagnose_by_class(v, traces, max_diag=12, fine=False):
    """validate_traces(max_diag=0) said which traces TLC rejects.  TLC now says why for one trace of each
    observable class (largest classes first); when its reason is a NothingLeftBehind invariant the class is
    labelled by what was left behind (C11:left-behind:<mode>:<how the request ended>:<what>), else by TLC's
    reason for the representative.  Traces of the catch-all class are diagnosed one by one."""
    from concurrent.futures import ThreadPoolExecutor
    groups, where = {}, {}
    for tid in sorted(v.rejected):
        key, at = _hint(traces[tid - 1])
        groups.setdefault(key, []).append(tid)
        where[tid] = at
    todo = []          # (key, tid)
    for key, tids in sorted(groups.items(), key=lambda kv: (kv[0][0] != 'other', -len(kv[1]), repr(kv[0]))):
        for tid in (tids[:4] if key[0] in ('other', 'stuck') else tids[:1]):
            if len(todo) < max_diag:
                todo.append((key, tid))
    with ThreadPoolExecutor(max_workers=4) as ex:
        futs = {tid: ex.submit(_diagnose, traces[tid - 1], fine) for _, tid in todo}
        infos = {tid: f.result() for tid, f in futs.items()}
    fps = {}
    for key, tids in groups.items():
        reps = [tid for k, tid in todo if k == key]
        for tid in reps:
            v.rejected[tid] = infos[tid]
        if key[0] in ('unusable', 'errclass') and reps:
            # one observable class: what TLC says about its representative labels all of them
            for tid in tids:
                fps[tid] = _fingerprint(reps[0], infos[reps[0]], traces[reps[0] - 1])
                if tid not in infos:
                    at = where[tid]
                    v.rejected[tid] = dict(kind=infos[reps[0]].get('kind'), name=infos[reps[0]].get('name'), at=at + 1,
                                           event=traces[tid - 1][at],
                                           detail=f'same observable class as trace {reps[0]}, which TLC diagnosed')
            continue
        if key[0] not in ('left', 'left-at-return'):
            for tid in tids:
                fps[tid] = _fingerprint(tid, infos[tid], traces[tid - 1]) if tid in infos else 'C11:rejected-trace'
            continue
        label = (f'C11:left-behind:{key[1]}:{key[2]}:{key[3]}' if key[0] == 'left' else
                 f'C11:left-behind-at-the-instant-of-return:{key[1]}:{key[2]}:{key[3]}')
        rep_ok = (not reps) or (infos[reps[0]].get('kind') == 'property' and infos[reps[0]].get('name') in _LEFT_INVS)
        for tid in tids:
            if not rep_ok:
                fps[tid] = _fingerprint(reps[0], infos[reps[0]], traces[reps[0] - 1])
            else:
                fps[tid] = label
            if tid not in infos:
                at = where[tid]
                name = infos[reps[0]].get('name') if reps else '?'
                v.rejected[tid] = dict(kind='property' if reps else 'rejected', name=name, at=at + 1,
                                       event=traces[tid - 1][at],
                                       detail=(f'same observable class as trace {reps[0]}, which TLC diagnosed' if reps
                                               else 'rejected by TLC; class not diagnosed'))
    return fps, {':'.join(map(str, k)): len(t) for k, t in groups.items()}


def _project(trace):
    return tuple((r['ev'], r.get('kind'), r.get('init'), r.get('which'), r.get('res'), r.get('cls'),
                  tuple(r.get('srv', ())), tuple(r.get('peer', ()))) for r in trace)


# ---------------------------------------------------------------------------
# binding self-test: corrupted records must be rejected
# ---------------------------------------------------------------------------

def _corruptions(traces):
    out = []

    def first(pred):
        for tr in traces:
            for i, r in enumerate(tr):
                if pred(tr, i, r):
                    return copy.deepcopy(tr), i
        return None, None

    tr, i = first(lambda t, i, r: r.get('res') == 'conn')
    if tr:
        tr[i]['res'] = 'exc'
        tr[i]['cls'] = 'PeerConnectionError'
        out.append(('returned->raised', tr))
    tr, i = first(lambda t, i, r: r.get('res') == 'conn')
    if tr:
        tr[i]['rc']['cs'] = 'AWAITING_INIT'
        out.append(('returned-uninitialised', tr))
    tr, i = first(lambda t, i, r: r.get('res') == 'conn')
    if tr:
        tr[i]['rc']['rx'] = False
        out.append(('returned-connection-deaf', tr))
    tr, i = first(lambda t, i, r: r.get('res') == 'conn' and t[0].get('mode') == 'race')
    if tr:
        tr[i]['ret']['tw'] = 1
        tr[i]['ret']['rw'] = 1
        out.append(('waiters-still-there-at-the-instant-of-return', tr))
    tr, i = first(lambda t, i, r: r.get('res') == 'exc')
    if tr:
        tr[i]['cls'] = 'ConnectionWriteError'
        out.append(('wrong-error-class', tr))
    tr, i = first(lambda t, i, r: r.get('res') in ('conn', 'exc', 'cancelled') and i + 1 < len(t))
    if tr:
        for r in tr[i:]:
            r['snap']['tw'] = 1
        out.append(('ticket-waiter-left', tr))
    tr, i = first(lambda t, i, r: r.get('res') in ('exc', 'cancelled'))
    if tr:
        for r in tr[i:]:
            r['snap']['reg'] = [dict(st='CONNECTING', cs='AWAITING_INIT', typ='P', user=tr[0]['user'], inc=False)]
        out.append(('connecting-connection-left', tr))
    tr, i = first(lambda t, i, r: r.get('res') == 'cancelled')
    if tr:
        for r in tr[i:]:
            r['snap']['tasks'] = 2
        out.append(('attempt-tasks-left', tr))
    tr, i = first(lambda t, i, r: 'init' in r.get('peer', ()) and r.get('res') == 'conn')
    if tr:
        for r in tr:
            r['peer'] = [x for x in r['peer'] if x != 'init']
        out.append(('peer-never-saw-PeerInit', tr))
    tr, i = first(lambda t, i, r: r['ev'] == 'bconn_refused' and 'CC' in r.get('srv', ()))
    if tr:
        for r in tr:
            r['srv'] = [x for x in r['srv'] if x != 'CC']
        out.append(('connect-back-not-answered', tr))
    tr, i = first(lambda t, i, r: r.get('res') == 'exc' and any(x['ev'] == 'pierce' for x in t[:i]) is False and i > 2)
    if tr:
        tr[i]['res'] = 'none'
        tr[i].pop('cls', None)
        out.append(('never-terminates', tr))
    return out


# ---------------------------------------------------------------------------

EXPECT = ['Request', 'OStart', 'OFbAfterD', 'OFbAfterI', 'OFbCancelled', 'ORaceWake', 'ORaceGather', 'OCleanup',
          'CancelRequest', 'DStart', 'DAsk', 'AddrReply', 'DGotAddr', 'AddrWaitEnds', 'ConnOk', 'ConnRefused',
          'ConnTimeout', 'DConnRes', 'InitResume', 'InitTimeout', 'DInitDrain', 'DClosing', 'IStart', 'ICtpDrain',
          'Pierce', 'PAccept', 'PClosing', 'CannotConnect', 'IndTimeout', 'IWake']
EXPECT_BACK = ['CtpRequest', 'BStart', 'BConn', 'BConnRes', 'BDrain', 'BClosing', 'BReport']
EXPECT_FINE = EXPECT + ['ORaceDisc', 'IClosing']

# design models in which one repair is withdrawn (the code as found): each must break its invariant
TEETH = [('MC_code_waiters.cfg', 'NoWaiterLeft'), ('MC_code_direct.cfg', 'NoOrphanConnection'),
         ('MC_code_cancel.cfg', 'NoOrphanTask'), ('MC_live_code_addr.cfg', 'Temporal')]


def _models(chk: Check, thorough: bool):
    """All design-model runs, concurrently.  Returns the dumped graphs of the quiescent-granularity models."""
    from concurrent.futures import ThreadPoolExecutor
    jobs = [('quick', lambda: _graph('MC_quick.cfg', EXPECT)),
            ('back', lambda: _graph('MC_back.cfg', EXPECT_BACK)),
            ('fine', lambda: tlc.model_check(SPEC, 'MC_fine.cfg', expect_actions=EXPECT_FINE, workers=2, timeout=900))]
    if thorough:
        jobs.append(('both', lambda: _graph('MC_both.cfg', EXPECT + EXPECT_BACK)))
        jobs.append(('both_fine', lambda: tlc.model_check(SPEC, 'MC_both_fine.cfg', workers=4, timeout=1800)))
    for cfg, _ in TEETH:
        jobs.append((cfg, (lambda c: (lambda: tlc.run_tlc(SPEC, c, workers=1, timeout=900, parse_traces=False)))(cfg)))
    with ThreadPoolExecutor(max_workers=4) as ex:
        futs = [(name, ex.submit(fn)) for name, fn in jobs]
        results = {name: f.result() for name, f in futs}
    labels = dict(quick='PeerConnect one request, stimuli at quiescence: invariants + Termination under fairness (exhaustive)',
                  back='PeerConnect connect-back only: invariants + BackTermination under fairness (exhaustive)',
                  fine='PeerConnect one request, stimuli between any two steps: invariants (exhaustive)',
                  both='PeerConnect request + connect-back, stimuli at quiescence: invariants + liveness (exhaustive)',
                  both_fine='PeerConnect request + connect-back, stimuli between any two steps: invariants (exhaustive)')
    graphs = {}
    for name in ('quick', 'back', 'fine', 'both', 'both_fine'):
        if name in results:
            r = results[name]
            if isinstance(r, tuple):
                graphs[name] = (r[0], r[1])
                r = r[2]
            chk.add_model(labels[name], r)
    for cfg, inv in TEETH:
        r = results[cfg]
        names = {i.name for i in r.issues}
        hit = inv in names
        chk.cov['binding_selftest'][f'model {cfg} violates {inv}'] = hit
        if not hit:
            raise MachineryFailure(f'design model {cfg} (one repair withdrawn) does not violate {inv}: {sorted(names)}')
    return graphs


def _execute(chk, items):
    traces, metas = [], []
    for item in items:
        init, steps, k, source = item[:4]
        scn = make_scenario(init, steps, k, fixed=item[4] if len(item) > 4 else None)
        rn = Runner(scn)
        tr = rn.run()
        traces.append(tr)
        metas.append(dict(scenario={kk: vv for kk, vv in scn.items()}, source=source, skipped=len(getattr(rn, 'skipped', ()))))
        chk.count((_project(tr), tuple(sorted((kk, repr(vv)) for kk, vv in scn.items() if kk != 'steps'))),
                  nontrivial=any(r['ev'] in ('request', 'ctp_request') for r in tr))
    return traces, metas


def replay(chk: Check, data: dict):
    """Re-execute the scenario of a replay file on the current tree and validate the new trace."""
    meta = (data.get('replay') or {}).get('meta') or {}
    sc = dict(meta.get('scenario') or {})
    if not sc:
        raise MachineryFailure('the replay file holds no scenario')
    sc['steps'] = [_tuplify(x) for x in sc['steps']]
    tr = Runner(Scenario(sc)).run()
    for r in tr:
        print('  ', {k: v for k, v in r.items() if k not in ('snap', 'noobs')},
              {k: v for k, v in (r.get('snap') or {}).items() if k in ('reg', 'tw', 'rw', 'links', 'tasks')})
    fine = any(x[0] in ('NoSettle', 'PierceAtDeadline') for x in sc['steps'])
    v = tlc.validate_traces(TRACE, 'TraceFine.cfg' if fine else 'Trace.cfg', [tr], max_diag=0, workers=1, timeout=600)
    fps = {}
    if v.rejected:
        fps, _ = _diagnose_by_class(v, [tr], fine=fine)
    chk.apply_verdicts(v, [tr], lambda tid, info, t: fps.get(tid) or _fingerprint(tid, info, t),
                       meta_of=lambda tid: dict(scenario=sc, source='replay'))
    chk.log(f'replay: {"accepted" if v.accepted else "rejected"}')


def _tuplify(x):
    return tuple(_tuplify(y) if isinstance(y, list) else y for y in x)


def run(chk: Check, args):
    thorough = chk.tier == 'thorough'
    chk.cov['rule'] = ('schedule = scenario (connect mode, address given by the caller or asked from the server, server '
                       'write of ConnectToPeer fails or not, the port of the peer is a TCP port or not) + a maximal sequence of environment actions of the TLC state '
                       'graph of PeerConnect (stimuli at quiescence); quick: every such sequence of the one-request model '
                       'and of the connect-back model, one concretisation each; thorough: three concretisations each plus '
                       'an edge cover and random walks of the combined request + connect-back model.  Concretisation = '
                       'connection type, offered ports, obfuscation preference, pierced port, peer name; plus the fixed '
                       'family type x winning path x clear / obfuscated port.  Every returned connection is exercised in both '
                       'directions with one message of its type.  Each schedule is '
                       'executed on the real Network over the simulated network in virtual time; distinct = distinct '
                       '(recorded trace projection, concretisation); non-trivial = a request or a connect-back happened')
    graphs = _models(chk, thorough)

    scheds, ns, ne = all_schedules('MC_quick.cfg', *graphs['quick'])
    chk.cov['env_schedules_request_model'] = len(scheds)
    back, _, _ = all_schedules('MC_back.cfg', *graphs['back'])
    chk.cov['env_schedules_back_model'] = len(back)
    chk.log(f'{len(scheds)} maximal stimulus schedules of the request model ({ns} states, {ne} edges), {len(back)} of the '
            f'connect-back model')
    items = []
    reps = 3 if thorough else 1
    for n, ((init, steps), src) in enumerate(sorted({**scheds, **back}.items(), key=repr)):
        for j in range(reps):
            items.append((init, steps, n * 7 + j * 19 + chk.seed, src))
    if thorough:
        both, bs, be = sampled_schedules('MC_both.cfg', *graphs['both'], chk.rng, 5000)
        chk.cov['sampled_schedules_combined_model'] = len(both)
        chk.log(f'{len(both)} schedules (edge cover + random walks) of the combined model ({bs} states, {be} edges)')
        for n, ((init, steps), src) in enumerate(sorted(both.items(), key=repr)):
            items.append((init, steps, n * 11 + 3 + chk.seed, src))
    for n, (init, steps, fixed) in enumerate(usability_schedules()):
        items.append((init, steps, n + chk.seed, 'type x path x port family', fixed))
    traces, metas = _execute(chk, items)
    chk.log(f'executed {len(traces)} schedules on the real code')
    chk.cov['exhaustive'] = True     # the quiescent-granularity models are finite and all their stimulus sequences ran
    for i in (0, len(traces) // 3, (2 * len(traces)) // 3, len(traces) - 1):
        chk.sample(dict(meta=metas[i], trace=[{k: v for k, v in r.items() if k != 'snap'} for r in traces[i]]))

    v = tlc.validate_traces(TRACE, 'Trace.cfg', traces, diag_cfg='TraceDiag.cfg', max_diag=0,
                            workers=int(__import__('os').environ.get('VERIF_TLC_WORKERS', '8')), timeout=3000)
    chk.log(f'trace validation: {len(v.accepted)} accepted, {len(v.rejected)} rejected')
    fps = {}
    if v.rejected:
        fps, classes = _diagnose_by_class(v, traces)
        chk.cov['rejected_classes'] = classes
        chk.log(f'rejected traces fall into {len(classes)} observable classes: {classes}')
    chk.apply_verdicts(v, traces, lambda tid, info, tr: fps.get(tid) or _fingerprint(tid, info, tr),
                       meta_of=lambda tid: metas[tid - 1])
    chk.cov['stimuli_not_applicable'] = sum(m['skipped'] for m in metas)
    chk.notes.append(f"{chk.cov['stimuli_not_applicable']} stimuli of the model schedules did not apply to the real run and were "
                     'left out of the recorded trace (the model does not know that a 10 s timer expires before a 60 s one '
                     'started at the same time: the harness lets the earlier deadline pass first and records it)')
    chk.notes.append('exhaustive refers to the quiescent-granularity models (MC_quick, MC_back): every maximal stimulus sequence '
                     'of their state graphs was executed; the fine-grained model is checked by TLC and sampled on the code by '
                     'the hand-enumerated sub-slot family only')

    # sub-slot schedules, and - in the same TLC run - the binding self-test: corrupted copies of accepted
    # traces must be rejected (TraceFine.cfg accepts a superset of what Trace.cfg accepts)
    good = [traces[t - 1] for t in sorted(v.accepted) if not v.accepted[t]]
    corrupted = _corruptions(good)
    if good and len(corrupted) < 6:
        raise MachineryFailure(f'binding self-test could only build {len(corrupted)} corrupted traces')
    ritems = [(init, steps, n * 5 + chk.seed, 'sub-slot family')
              for n, (init, steps) in enumerate(racy_schedules(full=thorough))]
    rtraces, rmetas = _execute(chk, ritems)
    nr = len(rtraces)
    batch = rtraces + [t for _, t in corrupted]
    rv = tlc.validate_traces(TRACE, 'TraceFine.cfg', batch, max_diag=0,
                             workers=int(__import__('os').environ.get('VERIF_TLC_WORKERS', '8')), timeout=3000)
    missed = [corrupted[t - nr - 1][0] for t in rv.accepted if t > nr]
    chk.cov['binding_selftest']['corrupted_traces_rejected'] = f'{len(corrupted) - len(missed)}/{len(corrupted)}'
    chk.cov['binding_selftest']['corruptions'] = [n for n, _ in corrupted]
    if missed:
        raise MachineryFailure(f'corrupted traces were accepted by the trace spec: {missed}')
    for t in list(rv.accepted):
        if t > nr:
            del rv.accepted[t]
    for t in list(rv.rejected):
        if t > nr:
            del rv.rejected[t]
    rv.n = nr
    chk.log(f'sub-slot schedules: {nr} executed, {len(rv.accepted)} accepted, {len(rv.rejected)} rejected; '
            f'{len(corrupted)} corrupted traces rejected')
    chk.cov['sub_slot_schedules'] = nr
    rfps = {}
    if rv.rejected:
        rfps, rclasses = _diagnose_by_class(rv, rtraces, fine=True)
        chk.cov['rejected_classes_sub_slot'] = rclasses
        chk.log(f'rejected sub-slot traces: {rclasses}')
    chk.apply_verdicts(rv, rtraces, lambda tid, info, tr: rfps.get(tid) or _fingerprint(tid, info, tr),
                       meta_of=lambda tid: rmetas[tid - 1])
    chk.assumptions += [
        'CPython asyncio: Task.cancel() delivers CancelledError at the await the task is suspended on; asyncio.wait '
        'does not cancel what it waits for; done-callbacks run one loop slot after completion',
        'the simulated transport (harness.simnet) stands for TCP: connect ok/refused/hanging, write error, stalled write',
        'a peer does not pierce and report cannot-connect within one scheduling slot; a remote reaction does not '
        'overtake the local drain() of the request it answers',
        'the server answers GetPeerAddress while its connection is alive (the property does not quantify over a silent server)',
        'stimuli are applied at quiescent points of the event loop; sub-slot interleavings are covered by the '
        'fine-grained design model (TLC) but are not replayed on the code',
        'reading of "returns or raises" for a cancelled request: it may leave connections that were completely established '
        'and announced through PeerInitializedEvent (ownership passed to the listeners), nothing else',
        'what a remote peer expects after the initialisation message: P messages obfuscated iff the link runs over an '
        'obfuscated port, D messages and F raw data always in the clear (protocol documentation; PeerConnection docstring)',
        'a port > 65535 makes asyncio.open_connection raise OverflowError (CPython socket.connect); the simulated network '
        'does the same one loop iteration after the call',
        'the Network is used as SoulSeekClient uses it (initialize(), server reader started), without the other managers',
    ]
